"""C42 — LFPS patterns are detected exactly within their timing windows; the generator emits typical bursts.

DUTs (all real luna classes, domain "ss", elaborated together in one small wrapper so that one simulated cycle
exercises all of them; every instance has its own input signal and its own envelope script):
  * LFPSDetector, periodic slot A: `_PollingLFPS` at a random, non-round clock 8..125 MHz, or a synthetic periodic
    pattern (random burst/repeat windows of 6..200 / 20..700 cycles, non-integer cycle counts);
  * LFPSDetector, periodic slot B: `_PingLFPS` at 250..3000 Hz (repeat window 40..720 cycles; the 40..160 ns burst
    window is far below one clock period there) or a synthetic "ping-like" pattern with a 2..12 cycle burst window;
  * LFPSDetector, non-periodic slot: `_ResetLFPS` at 300..5000 Hz (24..600 cycles) or a synthetic one-shot pattern;
  * LFPSGenerator(`_PollingLFPS` or a synthetic pattern, random clock) driven by a `generate` script;
  * in one case of five an LFPSTransceiver (8..40 MHz): polling envelopes on `signaling_received`, `send_polling`
    script; `polling_detected` is judged like slot A, `ping_detected` / `reset_detected` with their own windows
    (at that scale they can never be justified), the polling generator through the transceiver's outputs.
  The synthetic patterns are built with luna's `LFPS` / `LFPSTiming` containers (pure configuration); they make both
  windows of the detector non-degenerate at simulation scale, which the real ping / reset constants cannot.

Workload: per detector a continuous sequence of (burst length, start-to-start period) pairs built from templates:
in-window trains of 3-6 bursts, trains with exactly one out-of-window / edge measurement at a random position,
alternating good / bad pairs (never two good pairs in a row), in-window bursts separated by tiny gaps (period far
below the repeat minimum), bursts split by 1-2 cycle drop-outs, over-long bursts followed directly by a good train,
edge values (each of the four window edges +-5 cycles), uniform values 0.3*min .. 1.5*max, 1-3 cycle spikes.
Generator: `generate` held for 1-5 periods, released at random offsets (mid burst, mid wait, around `completed`),
single-cycle pulses, re-assertion 0-3 cycles after release.

Monitors: every cycle the raw inputs and all outputs are recorded; the traces are judged after the run.

Oracle (reference written from the statement and USB 3.2 table 6-30; no luna code):
  the input envelope is segmented into bursts (maximal runs of 1): start s_i, length L_i, period P_i = s_(i+1) - s_i.
  A measurement of v cycles at clock f lasts v/f seconds, so the statement's "within the window" is exact in cycles:
  IN iff ceil(f*t_min) <= v <= floor(f*t_max); OUT iff v < ceil(f*t_min) or v > ceil(f*t_max) (f*t in exact rational
  arithmetic from the decimal constants of table 6-30).  The only don't-care is the single value v = ceil(f*t_max) when
  f*t_max is not an integer: the strict reading puts it a fraction of a cycle outside, rounding the limit up to whole
  cycles (the documented convention of the implementation) puts it inside.  If a window contains no integer at all
  (sub-cycle windows at scaled clocks, e.g. the ping burst) that one value is IN.  Products closer than 1e-6 to a
  non-integer boundary are not decided (float rounding of f*t).
  Periodic pattern: the burst start s_(i+1) is an *allowed* report point iff L_(i-1), P_(i-1), L_i, P_i are all not OUT
  (second of two consecutive in-window pairs), *required* iff all four are IN and it is the first such point of an
  unbroken in-window train (later points of the train are allowed: a detector that starts over after a report is also
  correct).  Non-periodic: the end of burst i is
  allowed iff L_i is not OUT, required iff IN.  Every cycle with `detect` high must be matched (latency 0..8 cycles,
  so the two synchroniser flip-flops and an additional pipeline register are tolerated) to an allowed report point
  that has not been used by an earlier detect cycle; every required report point must be matched.
  Generator: every burst of `send_signaling` lying inside a span where `generate` is held lasts floor(f*t_typ) or
  ceil(f*t_typ) cycles and consecutive bursts inside such a span are floor(f*T_typ) .. ceil(f*T_typ)+2 cycles apart (one
  idle cycle between periods and one cycle of float rounding, e.g. 100 MHz * 10e-6 = 1000.0000000000001, are accepted); `drive_electrical_idle` is high from a burst
  start to the next one while `generate` is held and whenever `send_signaling` is; `completed` strobes exactly once
  per generated period, floor(f*T_typ)-1 .. ceil(f*T_typ)+1 cycles after the burst start; a burst starts <= 4 cycles after `generate`
  rises on an idle generator; nothing is driven once `generate` has been low for more than a period.

Transceiver: "fast" cases (8..40 MHz or the constructor default 125 MHz) judge `polling_detected` and the generator;
"slow" cases (300..4000 Hz) feed ping trains and warm-reset bursts and judge `ping_detected` / `reset_detected`
positively (required reports) as well as negatively.  `LFPSDetector` is built with its default clock when f = 125 MHz.
The real ping pattern runs at 250 Hz .. 20 kHz: above 6.25 kHz a 1000-fold error of the burst maximum, above 25 kHz of
the burst minimum changes the cycle thresholds and is seen.

Not judged: the value ceil(f*t_max) described above; the exact detect latency; `cycles_sent`; bursts / periods
of the generator during which `generate` changes; the real ping burst window (sub-cycle at any clock at which two
ping periods can be simulated) beyond "3 or more cycles is too long"; true asynchronous sampling (the envelope is
driven synchronously, so the synchroniser is a pure delay).

Known finding (findings/C42.md): a demanded report that is missing is labelled
`burst_start_missed_1_cycle_after_measurement_abandoned` iff the burst whose measurement is needed began exactly one
cycle after the falling edge of a burst that ended a measurement (too short, or any non-over-long burst of a one-shot
pattern) or exactly one cycle after the repeat maximum behind an accepted burst (`missed_start_pattern`, a classifier,
not part of the oracle); every other missing report is `detect_missing_periodic` / `detect_missing_oneshot`.  At most
three such violations are recorded per case, after all others.

Deviation from DESIGN section 7: window edges are judged exactly (see above) instead of with a +-3 cycle band, and synthetic patterns were added because the real ping/reset
constants leave one of the two windows degenerate at any clock that can be simulated.
"""
import math
from fractions import Fraction

from rv.sim import Bench

PROPERTY = "C42"
CASES = {"quick": 192, "thorough": 2880}
TIMEOUT = {"quick": 3600, "thorough": 8 * 3600}      # generous: the watchdog only exists to turn a hang into "inconclusive"
RULE = ("case = wrapper with 3 LFPSDetectors (polling|synthetic periodic, ping|synthetic ping-like, reset|synthetic one-shot), "
        "1 LFPSGenerator and (1 in 5) an LFPSTransceiver at random non-round clocks, each fed ~25k cycles of a templated "
        "(burst, period) script (good trains, one bad measurement, alternating, tiny gaps, drop-outs, over-long, edges, uniform); "
        "non-trivial = at least one required and one forbidden report point per detector kind; distinct = hash of configs + scripts")
REQUIRED_BINS = [
    "cfg_polling_real", "cfg_polling_synth", "cfg_ping_real", "cfg_ping_synth", "cfg_reset_real", "cfg_reset_synth",
    "cfg_xcvr", "cfg_xcvr_fast", "cfg_xcvr_fast_default", "cfg_xcvr_slow", "cfg_default_clock", "cfg_gen_polling", "cfg_gen_synth",
    "per_required", "per_forbidden_burst_short", "per_forbidden_burst_long", "per_forbidden_repeat_short",
    "per_forbidden_repeat_long", "per_forbidden_prev_burst", "per_forbidden_prev_repeat", "per_forbidden_only_prev_bad",
    "per_two_required_in_a_row", "per_dontcare_point",
    "one_required", "one_forbidden_short", "one_forbidden_long", "one_dontcare_point",
    "edge_burst_min", "edge_burst_max", "edge_repeat_min", "edge_repeat_max",
    "exact_burst_min_minus_1", "exact_burst_min", "exact_burst_max", "exact_burst_max_plus_1",
    "exact_repeat_min_minus_1", "exact_repeat_min", "exact_repeat_max", "exact_repeat_max_plus_1",
    "dropout_in_burst", "tiny_gap_between_good_bursts", "burst_longer_than_repeat_max", "good_train_right_after_overlong_burst",
    "gen_release_mid_burst", "gen_release_mid_wait", "gen_pulse_1cycle", "gen_reassert_quickly", "gen_held_3_periods",
]
REQUIRED_EVENTS = ["detect_cycles", "detects_matched", "required_points", "forbidden_points", "bursts_in",
                   "gen_bursts_judged", "gen_periods_judged", "gen_completed_strobes", "gen_dei_cycles_checked", "cycles_recorded",
                   "xcvr_polling_detects_matched", "xcvr_ping_detects_matched", "xcvr_reset_detects_matched"]
ASSUMPTIONS = [
    "time is measured in clock cycles of the block's own ss_clk_frequency parameter, scaled so that windows are 2..3600 cycles",
    "window edges are exact in cycles (ceil(f*t_min) .. floor(f*t_max) in, above ceil(f*t_max) out); only v = ceil(f*t_max) for non-integer f*t_max is not judged",
    "window values are those of USB 3.2 table 6-30 as quoted in the property (ping burst maximum 160 ns is unobservable at simulated clocks)",
    "the envelope is driven synchronously to the ss clock: the two-flip-flop synchroniser acts as a pure delay",
    "detect latency 0..8 cycles after the closing edge of the raw envelope is accepted",
]

LAT = 8
SPEC_TIMES = (0.6e-6, 1.0e-6, 1.4e-6, 6.0e-6, 10.0e-6, 14.0e-6, 40e-9, 160e-9, 160e-3, 200e-3, 240e-3, 80e-3, 100e-3, 120e-3)
KNOWN_MISSED_START = "burst_start_missed_1_cycle_after_measurement_abandoned"
IN, DC, OUT_LO, OUT_HI = "in", "dc", "lo", "hi"

# USB 3.2 r1 table 6-30 (seconds): (burst min, typ, max), (repeat min, typ, max)
SPEC = {
    "polling": ((0.6e-6, 1.0e-6, 1.4e-6), (6.0e-6, 10.0e-6, 14.0e-6)),
    "ping":    ((40e-9, None, 160e-9), (160e-3, 200e-3, 240e-3)),
    "reset":   ((80e-3, 100e-3, 120e-3), None),
}
EPS = Fraction(1, 10 ** 6)      # cycle counts this close to an integer are not decided (float rounding of f*t in any implementation)


class Edge(float):
    """A window edge in cycles (float value for the generators) with the exact integer thresholds derived from it:
    lower edge: .a = ceil(x - EPS) <= .b = ceil(x + EPS); upper edge: .f = floor(x - EPS) and .c = ceil(x + EPS)."""


def exact_edge(f, t):
    x = Fraction(f) * (Fraction(repr(t)) if t in SPEC_TIMES else Fraction(t))
    e = Edge(float(x))
    if x.denominator == 1:
        e.a = e.b = e.f = e.c = int(x)
    else:
        e.a, e.b = math.ceil(x - EPS), math.ceil(x + EPS)
        e.f, e.c = math.floor(x - EPS), math.ceil(x + EPS)
    return e


def classify(v, lo, hi):
    """Exact: a duration of v cycles at clock f lasts v/f seconds.  IN iff t_min <= v/f <= t_max, i.e. ceil(f*t_min) <= v <=
    floor(f*t_max); OUT iff v < ceil(f*t_min) or v > ceil(f*t_max).  The single value ceil(f*t_max) (when f*t_max is not an
    integer) is the only don't-care: the statement's reading puts it a fraction of a cycle outside, rounding the window
    limit up to whole cycles (the convention the implementation documents) puts it inside.  If the window contains no
    integer at all (sub-cycle windows at scaled clocks) that one value is IN: a window has to accept something."""
    if v < lo.a:
        return OUT_LO
    if v > hi.c:
        return OUT_HI
    if lo.b <= v <= max(hi.f, lo.b):
        return IN
    return DC


# ----------------------------------------------------------------------------------------- configuration

def loguniform(rng, a, b):
    return math.exp(rng.uniform(math.log(a), math.log(b)))


def jitter_freq(rng, f):
    # non-round frequency so that f*t is not an integer
    return f * (1 + rng.uniform(-0.003, 0.003))


def make_detector_cfg(rng, slot):
    """Returns dict(kind, f, times=((bmin, btyp, bmax), (rmin, rtyp, rmax) | None), win=(b_lo, b_hi, r_lo, r_hi) in cycles)."""
    if slot == "A":
        if rng.random() < 0.5:
            f = jitter_freq(rng, loguniform(rng, 8e6, 125e6)) if rng.random() < 0.7 else 125e6
            kind, times = "polling_real", SPEC["polling"]
        else:
            f = 1e6
            b_lo = rng.uniform(6, 60)
            b_hi = b_lo * rng.uniform(1.5, 3.0) + rng.uniform(4, 10)
            r_lo = b_hi + rng.uniform(6, 150)
            r_hi = r_lo * rng.uniform(1.3, 2.4) + rng.uniform(4, 10)
            kind = "polling_synth"
            times = ((b_lo / f, (b_lo + b_hi) / 2 / f, b_hi / f), (r_lo / f, (r_lo + r_hi) / 2 / f, r_hi / f))
    elif slot == "B":
        if rng.random() < 0.5:
            # above 6.25 kHz a x1000 error of the burst maximum changes the cycle thresholds: 40 % of the cases are up there
            f = jitter_freq(rng, loguniform(rng, 6500, 12000) if rng.random() < 0.4 else loguniform(rng, 250, 20000))
            kind, times = "ping_real", SPEC["ping"]
        else:
            f = 1e6
            b_lo = rng.uniform(2, 5)
            b_hi = b_lo + rng.uniform(4.5, 9)
            r_lo = rng.uniform(14, 120)
            r_hi = r_lo * rng.uniform(1.3, 2.0) + rng.uniform(4, 10)
            kind = "ping_synth"
            times = ((b_lo / f, None, b_hi / f), (r_lo / f, (r_lo + r_hi) / 2 / f, r_hi / f))
    else:
        if rng.random() < 0.5:
            f = jitter_freq(rng, loguniform(rng, 300, 5000))
            kind, times = "reset_real", SPEC["reset"]
        else:
            f = 1e6
            b_lo = rng.uniform(14, 300)
            b_hi = b_lo * rng.uniform(1.2, 2.5) + rng.uniform(4, 10)
            kind = "reset_synth"
            times = ((b_lo / f, (b_lo + b_hi) / 2 / f, b_hi / f), None)
    return finish_cfg(kind, f, times)


def finish_cfg(kind, f, times):
    b, r = times
    win = (exact_edge(f, b[0]), exact_edge(f, b[2])) + ((exact_edge(f, r[0]), exact_edge(f, r[2])) if r else (None, None))
    return {"kind": kind, "f": f, "times": times, "win": win}


def luna_pattern(cfg):
    from luna.gateware.usb.usb3.physical import lfps as L
    real = {"polling_real": L._PollingLFPS, "ping_real": L._PingLFPS, "reset_real": L._ResetLFPS}
    if cfg["kind"] in real:
        return real[cfg["kind"]]
    b, r = cfg["times"]
    burst = L.LFPSTiming(t_typ=b[1], t_min=b[0], t_max=b[2])
    repeat = L.LFPSTiming(t_typ=r[1], t_min=r[0], t_max=r[2]) if r else None
    return L.LFPS(burst=burst, repeat=repeat)


# ----------------------------------------------------------------------------------------- envelope scripts

def draw(rng, lo, hi, kind):
    """An integer duration of the requested class relative to window [lo, hi] (Edge objects)."""
    top = max(hi.f, lo.b)
    if kind == "in":
        r = rng.random()
        if r < 0.2:
            return lo.b                               # exactly the smallest in-window value
        if r < 0.4:
            return top                                # exactly the largest in-window value
        return rng.randint(lo.b, top)
    if kind == "edge":
        r = rng.random()
        if r < 0.4:
            return max(1, rng.choice([lo.a - 1, lo.b, hi.c + 1, top, hi.c]))
        e = lo if rng.random() < 0.5 else hi
        return max(1, int(round(e)) + rng.randint(-5, 5))
    if kind == "below":
        b = lo.a - 1
        if rng.random() < 0.4:
            return max(1, b)                      # the largest value that is too short
        return max(1, rng.randint(max(1, int(0.3 * lo)), max(1, b)))
    if kind == "above":
        a = hi.c + 1
        if rng.random() < 0.4:
            return max(1, a)                      # the smallest value that is too long
        return rng.randint(max(1, a), max(1, a, int(1.5 * hi) + 2))
    if kind == "tiny":
        return rng.randint(1, 3)
    raise ValueError(kind)


def periodic_script(rng, win, budget):
    """List of (L, P): burst length and start-to-start distance to the next burst."""
    b_lo, b_hi, r_lo, r_hi = win
    out = []
    total = 0

    def L_(kind):
        return draw(rng, b_lo, b_hi, kind)

    def P_(kind, L):
        return max(L + 1, draw(rng, r_lo, r_hi, kind))

    def good():
        L = L_("in")
        return (L, P_("in", L))

    def long_gap(L):
        return L + int(r_hi * rng.uniform(1.1, 1.6)) + 4

    while total < budget:
        r = rng.random()
        seq = []
        if r < 0.20:                                       # clean train
            seq = [good() for _ in range(rng.randint(3, 6))]
        elif r < 0.42:                                     # exactly one bad / edge measurement
            n = rng.randint(3, 6)
            seq = [good() for _ in range(n)]
            k = rng.randrange(n)
            how = rng.choice(["below", "above", "edge", "edge", "tiny"])
            if rng.random() < 0.5:
                L = L_(how)
                seq[k] = (L, max(L + 1, seq[k][1]))
            else:
                L = seq[k][0]
                seq[k] = (L, P_(how if how != "tiny" else "below", L))
        elif r < 0.52:                                     # alternating good / bad pairs
            for _ in range(rng.randint(2, 4)):
                seq.append(good())
                if rng.random() < 0.5:
                    L = L_(rng.choice(["below", "above"]))
                    seq.append((L, P_("in", L)))
                else:
                    L = L_("in")
                    seq.append((L, P_(rng.choice(["below", "above"]), L)))
        elif r < 0.62:                                     # good bursts separated by tiny gaps
            for _ in range(rng.randint(3, 6)):
                L = L_("in")
                seq.append((L, L + rng.randint(1, 5)))
            L = L_("in")
            seq.append((L, P_("in", L)))
            seq.append(good())
        elif r < 0.72:                                     # drop-out(s) inside a burst of a good train
            n = rng.randint(3, 5)
            seq = [good() for _ in range(n)]
            k = rng.randrange(n)
            L, P = seq[k]
            if L >= 4:
                a = rng.randint(1, L - 2)
                d = rng.randint(1, min(2, L - a - 1))
                seq[k:k + 1] = [(a, a + d), (L - a - d, P - a - d)]
        elif r < 0.80:                                     # over-long burst, then a good train directly behind it
            L = L_("above") if rng.random() < 0.6 else int(r_hi * rng.uniform(1.0, 1.3)) + 2
            gap = rng.choice([1, 2, rng.randint(1, 20), max(1, int(r_lo) - L)])
            seq = [(L, L + max(1, gap))] + [good() for _ in range(rng.randint(3, 4))]
        elif r < 0.90:                                     # everything near the edges
            for _ in range(rng.randint(3, 6)):
                L = L_(rng.choice(["edge", "edge", "in"]))
                seq.append((L, P_(rng.choice(["edge", "edge", "in"]), L)))
        else:                                              # uniform
            for _ in range(rng.randint(2, 6)):
                L = L_(rng.choice(["in", "below", "above", "edge", "tiny"]))
                seq.append((L, P_(rng.choice(["in", "below", "above", "edge"]), L)))
        # link to the next template: directly (pairs stay consecutive) or after a long silence
        if rng.random() < 0.45 and seq:
            L, _ = seq[-1]
            seq[-1] = (L, long_gap(L))
        out += seq
        total += sum(p for _, p in seq)
    L = out[-1][0]
    out[-1] = (L, long_gap(L))
    return out


def oneshot_script(rng, win, budget):
    b_lo, b_hi = win[0], win[1]
    out = []
    total = 0
    while total < budget:
        r = rng.random()
        if r < 0.35:
            L = draw(rng, b_lo, b_hi, "in")
        elif r < 0.55:
            L = draw(rng, b_lo, b_hi, "edge")
        elif r < 0.70:
            L = draw(rng, b_lo, b_hi, "below")
        elif r < 0.85:
            L = draw(rng, b_lo, b_hi, "above")
        elif r < 0.92:
            L = draw(rng, b_lo, b_hi, "tiny")
        else:                                              # good burst with a drop-out: two short ones
            L = draw(rng, b_lo, b_hi, "in")
            if L >= 4:
                a = rng.randint(1, L - 2)
                d = rng.randint(1, min(2, L - a - 1))
                out.append((a, a + d))
                total += a + d
                L = L - a - d
        gap = rng.choice([1, 2, 3, rng.randint(1, 12), rng.randint(10, 40), int(b_lo * rng.uniform(0.2, 1.2)) + 1])
        out.append((L, L + gap))
        total += L + gap
    L = out[-1][0]
    out[-1] = (L, L + 30)
    return out


def envelope_driver(b, sig, script, lead):
    for _ in range(lead):
        yield
    for L, P in script:
        b.set(sig, 1)
        for _ in range(L):
            yield
        b.set(sig, 0)
        for _ in range(P - L):
            yield
    for _ in range(LAT + 6):
        yield


# ----------------------------------------------------------------------------------------- detector oracle

def segment(x):
    """Maximal runs of 1 in the 0/1 list x: [(start, length)], an unterminated last run is dropped."""
    runs = []
    start = None
    for t, v in enumerate(x):
        if v and start is None:
            start = t
        elif not v and start is not None:
            runs.append((start, t - start))
            start = None
    return runs


def judge_detector(res, tag, cfg, x, d, deferred, xcvr=False, quiet=False):
    b_lo, b_hi, r_lo, r_hi = cfg["win"]
    periodic = r_lo is not None
    runs = segment(x)
    if quiet:
        # the transceiver's ping / reset detectors at polling scale: judged, but kept out of the coverage counters
        class _Q:
            unjudged = 0
            def bin(self, *a, **k): pass
            def event(self, *a, **k): pass
            violation = res.violation
        res = _Q()
    res.event("bursts_in", len(runs))
    points = []         # [time, status('required'|'allowed'|'forbidden'), reason, used]
    pre = "per" if periodic else "one"

    def edge_bins(v, lo, hi, name):
        if abs(v - lo) <= 5:
            res.bin("edge_%s_min" % name)
        if abs(v - hi) <= 5:
            res.bin("edge_%s_max" % name)
        if v == lo.a - 1:
            res.bin("exact_%s_min_minus_1" % name)
        if v == lo.b:
            res.bin("exact_%s_min" % name)
        if v == max(hi.f, lo.b):
            res.bin("exact_%s_max" % name)
        if v == hi.c + 1:
            res.bin("exact_%s_max_plus_1" % name)

    if periodic:
        cls = []
        for i, (s, L) in enumerate(runs):
            cb = classify(L, b_lo, b_hi)
            edge_bins(L, b_lo, b_hi, "burst")
            if i + 1 < len(runs):
                P = runs[i + 1][0] - s
                cp = classify(P, r_lo, r_hi)
                edge_bins(P, r_lo, r_hi, "repeat")
                if P - L <= 2 and L + P <= b_hi + 3:
                    res.bin("dropout_in_burst")
                if cb == IN and P - L <= 5 and classify(runs[i + 1][1], b_lo, b_hi) == IN:
                    res.bin("tiny_gap_between_good_bursts")
            else:
                P, cp = None, OUT_HI
            if L >= r_hi:
                res.bin("burst_longer_than_repeat_max")
            cls.append((cb, cp, L, P))
        prev_status = None
        for i in range(len(runs) - 1):
            t = runs[i + 1][0]
            cb, cp, L, P = cls[i]
            cur = [cb, cp]
            prv = list(cls[i - 1][:2]) if i >= 1 else [None, OUT_HI]
            if cb == OUT_LO:
                reason = "burst_short"
            elif cb == OUT_HI:
                reason = "burst_long"
            elif cp == OUT_LO:
                reason = "repeat_short"
            elif cp == OUT_HI:
                reason = "repeat_long"
            elif prv[0] in (OUT_LO, OUT_HI):
                reason = "prev_burst"
            elif prv[1] in (OUT_LO, OUT_HI):
                reason = "prev_repeat"
            else:
                reason = None
            if reason is None:
                status = "required" if all(c == IN for c in cur + prv) else "allowed"
            else:
                status = "forbidden"
                if reason.startswith("prev") and cur == [IN, IN]:
                    res.bin("per_forbidden_only_prev_bad")
            if status == "required" and prev_status in ("required", "allowed_in"):
                # third, fourth ... pair of an unbroken in-window train: a report is allowed, not demanded (a detector
                # that starts over after each report is also correct); only the first report of a train is demanded
                res.bin("per_two_required_in_a_row")
                status = "allowed_in"
            if status != "forbidden" and i >= 2 and cls[i - 2][0] == OUT_HI and runs[i - 1][0] - runs[i - 2][0] - cls[i - 2][2] <= 20:
                res.bin("good_train_right_after_overlong_burst")
            prev_status = status
            points.append([t, status, reason, False, "L=%s P=%s prevL=%s prevP=%s" % (L, P, cls[i - 1][2] if i else None, cls[i - 1][3] if i else None), i])
    else:
        for i, (s, L) in enumerate(runs):
            cb = classify(L, b_lo, b_hi)
            edge_bins(L, b_lo, b_hi, "burst")
            if cb == IN:
                status, reason = "required", None
            elif cb == DC:
                status, reason = "allowed", None
            else:
                status, reason = "forbidden", "short" if cb == OUT_LO else "long"
            points.append([s + L, status, reason, False, "L=%s" % L, i])

    for p in points:
        if p[1] == "required":
            res.event("required_points")
            res.bin(pre + "_required")
        elif p[1] == "allowed_in":
            pass
        elif p[1] == "allowed":
            res.bin(pre + "_dontcare_point")
        else:
            res.event("forbidden_points")
            res.bin("%s_forbidden_%s" % (pre, p[2]))

    ctx = "%s[%s f=%.6g win=%s]" % (tag, cfg["kind"], cfg["f"], tuple(round(w, 2) if w is not None else None for w in cfg["win"]))
    # match every detect cycle to an allowed report point
    lo_idx = 0
    for t, v in enumerate(d):
        if not v:
            continue
        res.event("detect_cycles")
        while lo_idx < len(points) and points[lo_idx][0] < t - LAT:
            lo_idx += 1
        cands = []
        j = lo_idx
        while j < len(points) and points[j][0] <= t:
            cands.append(points[j])
            j += 1
        ok = [p for p in cands if p[1] != "forbidden" and not p[3]]
        if ok and ok[0][1] == "allowed_in":
            res.event("detects_on_later_pairs_of_a_train")
        if ok:
            ok[0][3] = True
            res.event("detects_matched")
            if xcvr:
                res.event("xcvr_%s_detects_matched" % xcvr)
            continue
        used = [p for p in cands if p[1] != "forbidden" and p[3]]
        if used:
            res.violation("detect_repeated_for_one_report_point", "%s detect high at cycle %d, report point at %d (%s) already reported"
                          % (ctx, t, used[0][0], used[0][4]))
        elif cands:
            p = cands[-1]
            res.violation("detect_%s_%s" % ("periodic" if periodic else "oneshot", p[2]),
                          "%s detect at cycle %d but the measurements closing at cycle %d are outside the window: %s"
                          % (ctx, t, p[0], p[4]))
        else:
            res.violation("detect_without_closing_edge", "%s detect at cycle %d, no burst %s in the %d cycles before"
                          % (ctx, t, "start" if periodic else "end", LAT))
    for p in points:
        if p[1] == "required" and not p[3]:
            mech = "detect_missing_%s" % ("periodic" if periodic else "oneshot")
            why = ""
            k = p[5] - 1 if periodic else p[5]          # the burst whose measurement is lost if its rising edge is not seen
            if k >= 1 and missed_start_pattern(runs, k, cfg["win"]):
                mech = KNOWN_MISSED_START
                why = "; burst %d (start %d) began exactly one cycle after the cycle in which the previous measurement ended" % (k, runs[k][0])
            detail = "%s no detect within %d cycles of the report point at cycle %d (%s)%s" % (ctx, LAT, p[0], p[4], why)
            if mech == KNOWN_MISSED_START:
                res.event("known_missed_start_hits")
                deferred.append((mech, detail))
            else:
                res.violation(mech, detail)


def missed_start_pattern(runs, k, win):
    """Classifier for the known finding (never part of the oracle): burst k starts in the first cycle after the one in which
    a detector that measures burst k-1 gives that measurement up -- (a) one cycle after the falling edge of a burst that
    ended its measurement (too short, or any non-over-long burst of a one-shot pattern), or (b) exactly one cycle after
    the repeat maximum expired behind a burst that was accepted."""
    b_lo, b_hi, r_lo, r_hi = win
    s0, L0 = runs[k - 1]
    s1 = runs[k][0]
    gap = s1 - (s0 + L0)
    if r_lo is None:
        return gap == 1 and L0 <= b_hi.c
    if gap == 1 and L0 < b_lo.b:
        return True
    return s1 - s0 == r_hi.c + 1 and b_lo.a <= L0 <= b_hi.c


# ----------------------------------------------------------------------------------------- generator

def generate_script(rng, f_burst, f_repeat, budget):
    """List of (level, cycles) for `generate`; tags for bins are returned with it."""
    out = []
    total = 0
    T = int(math.ceil(f_repeat)) + 1
    B = int(math.ceil(f_burst))
    tags = []
    out.append((0, rng.randint(2, 10)))
    while total < budget:
        r = rng.random()
        if r < 0.30:                                       # held for n periods, released at a random point
            n = rng.randint(1, 5)
            where = rng.random()
            if where < 0.35:
                off = rng.randint(1, max(1, B - 1))
                tags.append("gen_release_mid_burst")
            elif where < 0.7:
                off = rng.randint(B + 1, T - 3)
                tags.append("gen_release_mid_wait")
            else:
                off = T + rng.randint(-3, 3)               # around `completed` / the idle cycle
            hold = (n - 1) * T + off
            if hold >= 3 * T:
                tags.append("gen_held_3_periods")
            out.append((1, hold))
        elif r < 0.45:
            tags.append("gen_pulse_1cycle")
            out.append((1, 1))
        elif r < 0.55:
            out.append((1, rng.randint(2, 4)))
        elif r < 0.75:                                     # held for whole periods
            n = rng.randint(2, 5)
            if n >= 3:
                tags.append("gen_held_3_periods")
            out.append((1, n * T + rng.randint(-1, 1)))
        else:
            out.append((1, rng.randint(1, 2 * T)))
        # low phase
        r = rng.random()
        if r < 0.35:
            low = rng.randint(1, 3)
            tags.append("gen_reassert_quickly")
        elif r < 0.6:
            low = rng.randint(1, T)
        else:
            low = T + rng.randint(10, T)                   # long enough for the generator to become idle again
        out.append((0, low))
        total += out[-2][1] + low
    out.append((0, 2 * T + 20))
    return out, tags


def level_driver(b, sig, script):
    for level, n in script:
        b.set(sig, level)
        for _ in range(n):
            yield


def judge_generator(res, tag, f, t_burst, t_repeat, g, s, dei, comp):
    """g/s/dei/comp: per-cycle 0/1 lists (comp may be None)."""
    eb, er = exact_edge(f, t_burst), exact_edge(f, t_repeat)
    fb, fr = float(eb), float(er)
    n = len(g)
    ctx = "%s[f=%.6g burst=%.2f repeat=%.2f cycles]" % (tag, f, fb, fr)
    # prefix sums of "generate low" to ask "was generate high throughout [a, b]"
    low = [0] * (n + 1)
    for t in range(n):
        low[t + 1] = low[t] + (0 if g[t] else 1)

    def held(a, b_):
        a = max(a, 0)
        b_ = min(b_, n - 1)
        return low[b_ + 1] - low[a] == 0

    runs = []
    start = None
    for t in range(n):
        if s[t] and start is None:
            start = t
        elif not s[t] and start is not None:
            runs.append((start, t - start))
            start = None
    if start is not None:
        res.violation("generator_burst_never_ends", "%s send_signaling still high at the end of the trace (since cycle %d)" % (ctx, start))
    for i, (st, L) in enumerate(runs):
        if held(st - 1, st + L + 1):
            res.event("gen_bursts_judged")
            if not eb.f <= L <= eb.c:           # the typical length in whole cycles, rounded either way
                res.violation("generator_burst_length", "%s burst at cycle %d lasts %d cycles" % (ctx, st, L))
        if i + 1 < len(runs):
            nxt = runs[i + 1][0]
            if held(st - 1, nxt + 1):
                res.event("gen_periods_judged")
                P = nxt - st
                if not er.f <= P <= er.c + 2:   # typical period rounded either way, + one idle cycle between periods, + one
                    #                             for float rounding of f*t (100 MHz * 10e-6 = 1000.0000000000001)
                    res.violation("generator_repeat_period", "%s bursts at cycles %d and %d are %d cycles apart" % (ctx, st, nxt, P))
                bad = [t for t in range(st, nxt + 1) if not dei[t]]
                res.event("gen_dei_cycles_checked", nxt - st + 1)
                if bad:
                    res.violation("generator_electrical_idle_dropped", "%s drive_electrical_idle low at cycle %d between the bursts at %d and %d while generate is held"
                                  % (ctx, bad[0], st, nxt))
        # progress: while generate is held the next burst must come
        if held(st - 1, st + int(fr) + 8) and st + int(fr) + 8 < n:
            if not (i + 1 < len(runs) and runs[i + 1][0] - st <= fr + 4):
                res.violation("generator_next_burst_missing", "%s generate held but no burst within %.0f cycles after the one at %d" % (ctx, fr + 4, st))
    for t in range(n):
        if s[t] and not dei[t]:
            res.violation("generator_signaling_without_electrical_idle", "%s send_signaling without drive_electrical_idle at cycle %d" % (ctx, t))
            break
    # start-up: generate rises on an idle generator -> burst within 4 cycles
    starts = set(st for st, _ in runs)
    quiet = 0          # consecutive cycles with nothing driven and generate low
    for t in range(n):
        if g[t] and quiet >= 3 and held(t, t + 3) and t + 6 < n:
            if not any((t + k) in starts for k in range(0, 5)):
                res.violation("generator_does_not_start", "%s generate rose at cycle %d on an idle generator, no burst within 4 cycles" % (ctx, t))
        if not g[t] and not dei[t] and not s[t]:
            quiet += 1
        else:
            quiet = 0
    # nothing driven once generate has been low for more than a period
    lowrun = 0
    for t in range(n):
        lowrun = 0 if g[t] else lowrun + 1
        if lowrun > fr + 6 and (s[t] or dei[t]):
            res.violation("generator_active_while_disabled", "%s send_signaling=%d drive_electrical_idle=%d at cycle %d, generate low for %d cycles"
                          % (ctx, s[t], dei[t], t, lowrun))
            break
    if comp is not None:
        cs = [t for t in range(n) if comp[t]]
        res.event("gen_completed_strobes", len(cs))
        if len(cs) != len(runs):
            res.violation("generator_completed_count", "%s %d bursts generated but %d completed strobes" % (ctx, len(runs), len(cs)))
        else:
            for (st, L), c in zip(runs, cs):
                if not er.f - 1 <= c - st <= er.c + 1:
                    res.violation("generator_completed_position", "%s completed at cycle %d for the period that started at %d" % (ctx, c, st))
                    break


# ----------------------------------------------------------------------------------------- case

def run_case(rng, tier, res):
    from amaranth import Module, Elaboratable
    from luna.gateware.usb.usb3.physical.lfps import LFPSDetector, LFPSGenerator, LFPSTransceiver

    budget = rng.randint(18000, 28000)
    cfgs = {slot: make_detector_cfg(rng, slot) for slot in ("A", "B", "R")}
    # generator configuration
    if rng.random() < 0.6:
        gen_f = jitter_freq(rng, loguniform(rng, 5e6, 125e6)) if rng.random() < 0.85 else 125e6
        gen_times = (SPEC["polling"][0], SPEC["polling"][1])
        gen_kind = "gen_polling"
    else:
        gen_f = 1e6
        tb = rng.uniform(3, 80)
        tr = tb + rng.uniform(6, 400)
        gen_times = ((tb * 0.6 / gen_f, tb / gen_f, tb * 1.4 / gen_f), (tr * 0.6 / gen_f, tr / gen_f, tr * 1.4 / gen_f))
        gen_kind = "gen_synth"
    gen_cfg = finish_cfg(gen_kind, gen_f, gen_times)
    use_xcvr = rng.random() < 0.3
    # transceiver scale: "fast" = polling scale (8..40 MHz, or the constructor default 125 MHz); "slow" = 300..4000 Hz, where
    # the ping and warm-reset windows can be reached, so that ping_detected / reset_detected are tested positively
    xcvr_mode = rng.choice(["fast", "fast_default", "fast_default", "slow", "slow"]) if use_xcvr else None
    xcvr_f = None
    if use_xcvr:
        xcvr_f = {"fast": jitter_freq(rng, loguniform(rng, 8e6, 40e6)), "fast_default": 125e6,
                  "slow": jitter_freq(rng, loguniform(rng, 300, 4000))}[xcvr_mode]

    dets = {slot: (LFPSDetector(luna_pattern(c)) if c["f"] == 125e6 else LFPSDetector(luna_pattern(c), c["f"])) for slot, c in cfgs.items()}
    if any(c["f"] == 125e6 for c in cfgs.values()):
        res.bin("cfg_default_clock")
    gen = LFPSGenerator(luna_pattern(gen_cfg), gen_f)
    xcvr = (LFPSTransceiver() if xcvr_mode == "fast_default" else LFPSTransceiver(ss_clk_freq=xcvr_f)) if use_xcvr else None

    class Wrapper(Elaboratable):
        def elaborate(self, platform):
            m = Module()
            for slot, dd in dets.items():
                m.submodules["det_" + slot] = dd
            m.submodules.gen = gen
            if xcvr is not None:
                m.submodules.xcvr = xcvr
            return m

    b = Bench(Wrapper(), domain="ss", freq=125e6, max_cycles=4 * budget + 20000)
    for c in list(cfgs.values()) + [gen_cfg]:
        res.bin("cfg_" + c["kind"])
    if use_xcvr:
        res.bin("cfg_xcvr")

    scripts = {}
    traces = {}
    watch = []
    for slot, c in cfgs.items():
        scripts[slot] = periodic_script(rng, c["win"], budget) if c["win"][2] is not None else oneshot_script(rng, c["win"], budget)
        watch += [dets[slot].signaling_received, dets[slot].detect]
        b.add_driver(envelope_driver(b, dets[slot].signaling_received, scripts[slot], rng.randint(1, 6)))
    gscript, gtags = generate_script(rng, gen_cfg["f"] * gen_times[0][1], gen_cfg["f"] * gen_times[1][1], budget)
    for tg in gtags:
        res.bin(tg)
    watch += [gen.generate, gen.send_signaling, gen.drive_electrical_idle, gen.completed]
    b.add_driver(level_driver(b, gen.generate, gscript))
    if use_xcvr:
        xcfg = {k: finish_cfg(k + "_xcvr", xcvr_f, SPEC[k]) for k in ("polling", "ping", "reset")}
        res.bin("cfg_xcvr_" + xcvr_mode)
        if xcvr_mode == "slow":
            xscript = []
            while sum(p for _, p in xscript) < budget:        # alternating ping trains and warm-reset bursts
                xscript += periodic_script(rng, xcfg["ping"]["win"], budget // 6)
                xscript += oneshot_script(rng, xcfg["reset"]["win"], budget // 6)
                L = xscript[-1][0]
                xscript[-1] = (L, L + int(xcfg["ping"]["win"][3] * 1.3))
            xg = [(0, 50)]           # the polling generator degenerates to 1-cycle periods at this clock: not driven
        else:
            xscript = periodic_script(rng, xcfg["polling"]["win"], budget)
            xg, xtags = generate_script(rng, xcvr_f * 1.0e-6, xcvr_f * 10.0e-6, budget)
        watch += [xcvr.signaling_received, xcvr.polling_detected, xcvr.ping_detected, xcvr.reset_detected,
                  xcvr.send_polling, xcvr.send_signaling, xcvr.drive_electrical_idle]
        b.add_driver(envelope_driver(b, xcvr.signaling_received, xscript, rng.randint(1, 6)))
        b.add_driver(level_driver(b, xcvr.send_polling, xg))
        res.sig(xscript[:50], xg[:20])
    # all watched signals are single bits: sample them as one concatenated value (one evaluation per cycle)
    from amaranth import Cat
    allbits = Cat(*watch)
    b.watch(allbits)
    words = []

    def monitor(bb):
        words.append(bb.get(allbits))

    b.add_monitor(monitor)
    res.desc = {"detectors": {s: {"kind": c["kind"], "f": c["f"], "win_cycles": [round(w, 2) if w is not None else None for w in c["win"]],
                                  "script_head": scripts[s][:8]} for s, c in cfgs.items()},
                "generator": {"kind": gen_kind, "f": gen_f, "script_head": gscript[:8]}, "xcvr_f": xcvr_f}
    res.sig([(c["kind"], c["f"], c["win"]) for c in cfgs.values()], scripts, gen_kind, gen_f, gscript)
    b.run()
    res.cycles = b.cycle
    res.event("cycles_recorded", len(words))
    rec = [[(w >> k) & 1 for w in words] for k in range(len(watch))]
    if b.hit_max_cycles:
        res.violation("harness_cycle_budget_exceeded", "scripts did not finish within %d cycles" % b.max_cycles)

    tr = dict((id(sg), lst) for sg, lst in zip(watch, rec))

    def T(sg):
        return tr[id(sg)]

    deferred = []       # violations of the known-finding mechanism are reported after all others (Result keeps the first 20)
    for slot, c in cfgs.items():
        judge_detector(res, "det_" + slot, c, T(dets[slot].signaling_received), T(dets[slot].detect), deferred)
    judge_generator(res, "gen", gen_f, gen_times[0][1], gen_times[1][1],
                    T(gen.generate), T(gen.send_signaling), T(gen.drive_electrical_idle), T(gen.completed))
    if use_xcvr:
        x = T(xcvr.signaling_received)
        slow = xcvr_mode == "slow"
        if not slow:        # at 300..4000 Hz the polling repeat window is far below one cycle: nothing meaningful to demand
            judge_detector(res, "xcvr.polling", xcfg["polling"], x, T(xcvr.polling_detected), deferred, xcvr="polling")
        judge_detector(res, "xcvr.ping", xcfg["ping"], x, T(xcvr.ping_detected), deferred, xcvr="ping", quiet=not slow)
        judge_detector(res, "xcvr.reset", xcfg["reset"], x, T(xcvr.reset_detected), deferred, xcvr="reset", quiet=not slow)
        if not slow:
            judge_generator(res, "xcvr.gen", xcvr_f, 1.0e-6, 10.0e-6, T(xcvr.send_polling), T(xcvr.send_signaling),
                            T(xcvr.drive_electrical_idle), None)
    for mech, detail in deferred[:3]:
        res.violation(mech, detail)
    bins = res.bins
    res.nontrivial = bool(bins.get("per_required") and bins.get("one_required") and
                          any(k.startswith("per_forbidden") for k in bins) and any(k.startswith("one_forbidden") for k in bins))
