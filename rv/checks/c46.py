"""C46 - SuperSpeed IN stream endpoint: data / NRDY / ERDY, sequence numbers, retries, exactly-once delivery.

DUT: luna.gateware.usb.usb3.endpoints.stream.SuperSpeedStreamInEndpoint(endpoint_number 1..15, max_packet_size in
{16, 64, 1024, rarely 32 / 128 / 512; 1024 also through the constructor default}), stand-alone, driven at its input `stream` and at its SuperSpeedEndpointInterface (`handshakes_in`,
`handshakes_out.ready/done`, `tx.ready`, `ep_reset`), observed at `tx`, `tx_zlp`, `tx_length`, `tx_sequence_number`,
`tx_endpoint_number`, `handshakes_out.send_*` / `endpoint_number` and `stream.ready`.

A case is 2-4 *sessions*, each on a freshly elaborated endpoint.  A session =
  * a producer that feeds a script of transfers (random byte lengths biased to 1..4, 5..8, max-1, max, max+1, 2*max, ...;
    random bytes; final word of a transfer partial (valid 0001/0011/0111) or full, with `last`; optional endless tail
    without `last`), with a word-gap profile (dense / random / bursts / slow) and garbage in the invalid byte lanes;
  * a consumer of `tx` with a `ready` profile (always / random / bursty / low exactly when the last word is offered /
    low when the first word is offered);
  * a model of the handshake generator behind `handshakes_out` (request taken while `ready`, `done` 1-10 cycles later);
  * a SuperSpeed host (USB 3.2 8.10.1, 8.11.1, 8.12.1.2; no bursting, bulk IN): IN request = ACK TP (NumP 1, Seq = next
    expected), after a data packet either ACK TP Seq+1 with NumP 1 (acknowledge + request) or NumP 0 (pure acknowledgement),
    or - host-side "CRC error" - ACK TP with Rty=1 and the same Seq, or - "packet never seen" - the same Seq without Rty;
    after NRDY the host stops polling until ERDY; ACK TPs for other endpoints (same fields, also Seq+1) and STATUS TPs are
    sprinkled over every idle cycle; `ep_reset` pulses at quiet points (the producer pauses after chosen transfers until
    everything is delivered and acknowledged, the host resets, both restart at sequence 0, the stream goes on);
    request times are random, or placed on purpose in the cycle in which a packet becomes complete / right after it;
    acknowledgements are placed so that the sequence number wraps 31 -> 0 in sessions of 35-45 small packets.
  Two profiles: *hostile* (everything above) and *saturated* (the host acknowledges a packet only when the next one is
  already buffered, no stall on a last word, no packet <= 4 bytes, no transfer that is an exact multiple of the packet
  size) - the second one exists because the unchanged endpoint has several defects (see findings/C46.md) that the hostile
  profile trips quickly; the saturated sessions keep the remaining clauses judged on clean histories.

Oracle (written from the statement and USB 3.2 chapter 8, nothing taken from luna): the words the endpoint accepts
(`valid & ready`) are cut into the expected packet list: a packet is complete when it holds max_packet_size bytes or when
its word carried `last`; a transfer that ends on a full packet is followed by a zero-length packet.  Then
  * an IN request is answered (first `tx` word, `tx_zlp` or NRDY request within RESPONSE_WINDOW cycles); NRDY is wrong if the
    next undelivered packet was complete more than SLACK cycles before the request, data is wrong if that packet was not
    complete before the answer started;
  * after NRDY exactly one ERDY is requested, within ERDY_WINDOW cycles of the packet becoming complete; no ERDY without NRDY;
  * every new data packet carries the host's expected sequence number (starts at 0, +1 mod 32 per acknowledged packet, 0
    after ep_reset), the endpoint number, `tx_length` = number of bytes in the stream = expected packet length, and the
    expected bytes (exactly once, in order; short packet / ZLP at the transfer end); header fields are sampled in the
    first cycle of `tx.valid` (what DataPacketTransmitter latches) resp. in the `tx_zlp` cycle;
  * a retry (Rty=1) or repeated Seq yields the identical packet (bytes, length, sequence number) again;
  * `tx` obeys the stream rules (word held while not ready, `valid` kept up to the `last` word, legal byte masks);
  * NRDY / ERDY requests carry the endpoint's number.
After a violation the model re-synchronises where the hardware stays self-consistent (sequence number adopted, unanswered
request re-issued as a real host would after its timeout) and gives up the session where it does not.  Because the header
fields of 1..4-byte packets and ZLPs are not visible on the unchanged tree (findings 7, 8), a sequence-number lag (finding 3)
can go unseen for a while; the model tracks that ("in_sync") and counts the endpoint's later reaction to it (it takes an
acknowledgement for a retry and sends the previous packet again) as *unjudged* instead of inventing new mechanism names.
Each mechanism is reported once per case, so that the 20 violations a Result keeps cannot crowd out a new mechanism.

Validation: on a copy of the tree with the fix proposed in findings/C46.md the whole hostile workload holds (seeds 0-3, no
violation, no known finding), i.e. the oracle raises no alarm on an endpoint for which the property holds; the same copy
without the transparent read port is caught (`packet_bytes_wrong`, stale first word).  Mutations on /repo (93 tests pass
for each), all caught by the quick tier: sequence advanced on retry, ERDY not required after NRDY (DESIGN section 10),
`is_to_us` dropped, last-word comparison `>`, 3-byte mask 0011, 4-bit sequence counter, repeated sequence number taken for an
acknowledgement, `stream_ended` flag not cleared on buffer swap, sequence number not reset by ep_reset (escaped until the
mid-session reset points were added), send position not reset, tx.ready ignored mid-packet, fill count not cleared on
acknowledgement, ZLP dropped, data sent on a pure acknowledgement, 3-byte final word counted as 4, stale `last_packet_was_zlp`.

Not judged: `first` on tx, tx_direction, bursts (IN requests carry NumP 1, sometimes 2..16: one packet is owed, further
unsolicited packets after such a request end the session unjudged), ACK TPs whose sequence number is neither the expected
one nor the one of the packet just sent (no host sends them; the statement does not say what they mean), ep_reset while data
is buffered (the statement does not mention reset; only the restart of the numbering at a quiet point is judged), Rty=1 with NumP=0, ACK TPs to the endpoint that no host would send (acknowledging nothing),
input words with partial `valid` that are not the last of a transfer, behaviour of buffered data across `ep_reset` (resets
are only issued when nothing is buffered).
"""
from rv.sim import Bench

PROPERTY = "C46"
CASES = {"quick": 260, "thorough": 4000}
RULE = ("case = 2-4 sessions on fresh endpoints (max packet 16/64/1024, endpoint 1-15); session = transfer script (lengths biased to "
        "1..4, max-1, max, max+1, k*max; partial last words; optional endless tail), producer gap profile, tx.ready profile (incl. stall on "
        "last/first word), handshake-generator latency 1-10, host schedule (IN request / ack+request / pure ack / retry / repeated seq / "
        "request placed at packet completion, foreign TPs every idle cycle, ep_reset at quiet points), profile hostile|saturated; "
        "non-trivial = >=3 data packets delivered and >=1 retry or NRDY; distinct = hash of scripts and schedules")
REQUIRED_BINS = ["mps_16", "mps_64", "mps_1024", "mps_other", "mps_default_argument", "in_request_nump_gt_1", "profile_hostile", "profile_saturated", "in_request_with_data", "in_request_without_data",
                 "in_request_at_completion", "ack_and_request", "pure_ack", "retry_rty", "retry_repeated_seq", "retry_of_zlp",
                 "nrdy_then_erdy", "short_packet_end", "zlp_end", "full_packet", "partial_last_word_1", "partial_last_word_2",
                 "partial_last_word_3", "tx_stall_mid_packet", "tx_stall_on_last_word", "tx_stall_on_first_word", "foreign_tp_while_waiting_for_ack",
                 "foreign_tp_seq_plus_1", "ep_reset_quiet", "packet_after_ep_reset", "seq_wrap_31_0", "second_buffer_filled_before_ack", "single_word_packet",
                 "hs_done_latency_ge_5", "endless_tail"]
REQUIRED_EVENTS = ["in_requests", "data_packets_checked", "bytes_compared", "nrdy_seen", "erdy_seen", "acks_sent", "retries_checked",
                   "words_accepted", "tx_words", "zlp_seen", "sessions", "clean_sessions_without_violation"]
ASSUMPTIONS = ["header fields (tx_length / sequence / endpoint) are sampled in the first cycle of tx.valid, resp. the tx_zlp cycle",
               "an IN request is answered when the first tx word, tx_zlp or the NRDY request shows up within 40 cycles",
               "a packet that became complete 0..4 cycles before the request may be answered with data or NRDY",
               "ERDY must be requested within 40 cycles after NRDY was sent and the packet became complete",
               "the host never acknowledges before the last word of the packet was transferred; one TP per cycle",
               "ep_reset only while nothing is buffered or unacknowledged"]

RESPONSE_WINDOW = 40
ERDY_WINDOW = 40
SLACK = 4
MASKS = {1: 0b0001, 2: 0b0011, 3: 0b0111, 4: 0b1111}
NBYTES = {0b0001: 1, 0b0011: 2, 0b0111: 3, 0b1111: 4}


class GiveUp(Exception):
    """raised inside the host generator when the session cannot be judged any further"""


class Session:
    def __init__(self, rng, res, index):
        self.rng, self.res, self.index = rng, res, index
        self.violated = False
        self.log = []          # (cycle, text): host TPs and packet completions, for witnesses

    # ------------------------------------------------------------------ configuration
    def configure(self):
        rng = self.rng
        self.mps = rng.choice([16, 16, 16, 64, 64, 64, 1024, 1024, 32, 32, 128, 128, 512, 16, 64])
        self.default_mps = self.mps == 1024 and rng.random() < 0.5     # constructor default instead of the explicit argument
        self.p_burst_nump = rng.choice([0.0, 0.1, 0.3])                # IN requests with NumP 2..16 (still one packet is owed)
        self.ep = rng.randint(1, 15)
        self.clean = rng.random() < 0.4
        mps = self.mps
        n_transfers = rng.randint(2, 6) if mps < 512 else rng.randint(1, 2)
        lengths = []
        for _ in range(n_transfers):
            k = rng.random()
            if self.clean:
                tail = rng.randint(5, mps - 1)
                full = rng.choice([0, 0, 1, 1, 2, 3]) if mps < 512 else rng.choice([0, 1])
                lengths.append(full * mps + tail)
            elif k < 0.15:
                lengths.append(rng.randint(1, 4))
            elif k < 0.25:
                lengths.append(rng.randint(5, 8))
            elif k < 0.45:
                lengths.append(rng.choice([1, 1, 2, 3]) * mps if mps < 512 else mps)
            elif k < 0.60:
                lengths.append(rng.choice([mps - 1, mps - 3, mps - 4, mps + 1, mps + 4, mps + 5, 2 * mps - 1, 2 * mps + 2]))
            elif k < 0.70:
                lengths.append(rng.choice([1, 2]) * mps + rng.randint(1, 4))
            else:
                lengths.append(rng.randint(1, 3 * mps if mps < 512 else mps + 40))
        self.lengths = lengths
        self.endless_words = 0
        if rng.random() < 0.25:
            # endless tail: full words without `last` (continuous max-size packets, the rest stays in the buffer)
            self.endless_words = (mps // 4) * rng.randint(1, 3 if mps < 512 else 1) + rng.choice([0, 0, 1, 3])
        self.gap_profile = "dense" if self.clean else rng.choice(["dense", "random", "random", "bursts", "slow"])
        self.gap_p = rng.choice([0.2, 0.5, 0.8])
        self.start_delay = rng.choice([0, 0, 3, 20, 60])
        if self.clean:
            self.ready_profile = rng.choice(["always", "random_nolast", "bursty_nolast", "stall_first"])
        else:
            self.ready_profile = rng.choice(["always", "random", "bursty", "stall_last", "stall_last", "stall_first", "random"])
        self.ready_p = rng.choice([0.3, 0.6, 0.85])
        self.hs_latency = rng.choice(["1", "rand", "rand", "long"])
        self.p_foreign = rng.choice([0.0, 0.05, 0.2, 0.5])
        self.p_retry = rng.choice([0.0, 0.15, 0.3, 0.5])
        self.p_pure_ack = rng.choice([0.1, 0.3, 0.6])
        self.p_early_request = rng.choice([0.0, 0.3, 0.7, 1.0])
        self.p_at_completion = rng.choice([0.0, 0.3, 0.6])
        self.p_reset = rng.choice([0.0, 0.0, 0.3, 0.6])
        # transfers after which the producer pauses until the host has reset the endpoint (sequence numbers restart at 0)
        self.reset_points = set(i for i in range(len(self.lengths) - 1) if rng.random() < 0.5 * self.p_reset)
        self.first_seq_boost = rng.random() < 0.3      # many small packets so that the sequence number wraps (needs > 32 packets)
        if self.first_seq_boost and self.mps == 16:
            extra = [rng.randint(5, 15) if self.clean else rng.choice([16 + rng.randint(5, 15), rng.randint(5, 15), 7]) for _ in range(rng.randint(34, 44))]
            self.lengths = self.lengths + extra
        self.desc = {"mps": self.mps, "ep": self.ep, "profile": "saturated" if self.clean else "hostile", "lengths": self.lengths[:12],
                     "endless_words": self.endless_words, "gaps": self.gap_profile, "tx_ready": self.ready_profile,
                     "hs_latency": self.hs_latency, "p_foreign": self.p_foreign, "p_retry": self.p_retry}
        self.res.sig(self.mps, self.ep, self.clean, self.lengths, self.endless_words, self.gap_profile, self.ready_profile,
                     self.hs_latency, self.p_foreign, self.p_retry, self.p_pure_ack)

    # ------------------------------------------------------------------ helpers
    def violation(self, mech, detail):
        self.violated = True
        self.log.append((self.b.cycle, "VIOLATION %s: %s" % (mech, detail)))
        seen = self.res.__dict__.setdefault("_c46_reported", set())
        if mech in seen:
            return          # one report per mechanism and case: Result keeps 20 violations, a new mechanism must not be crowded out
        seen.add(mech)
        self.res.violation(mech, "session %d (mps=%d ep=%d %s) cycle %d: %s" % (
            self.index, self.mps, self.ep, "saturated" if self.clean else "hostile", self.b.cycle, detail))

    # ------------------------------------------------------------------ run
    def run(self):
        from luna.gateware.usb.usb3.endpoints.stream import SuperSpeedStreamInEndpoint
        rng, res = self.rng, self.res
        self.configure()
        mps = self.mps
        if self.default_mps:
            dut = SuperSpeedStreamInEndpoint(endpoint_number=self.ep)      # documented default: 1024
            res.bin("mps_default_argument")
        else:
            dut = SuperSpeedStreamInEndpoint(endpoint_number=self.ep, max_packet_size=mps)
        itf = dut.interface
        total_words = sum((n + 3) // 4 for n in self.lengths) + self.endless_words
        budget = 4000 + total_words * 40 + len(self.lengths) * 600
        b = self.b = Bench(dut, domain="ss", freq=125e6, max_cycles=budget + 200)
        st, tx, hin, hout = dut.stream, itf.tx, itf.handshakes_in, itf.handshakes_out
        sigs = [st.valid, st.ready, st.last, st.payload, tx.valid, tx.ready, tx.last, tx.payload, itf.tx_zlp, itf.tx_length,
                itf.tx_sequence_number, itf.tx_endpoint_number, hout.send_ack, hout.send_stall, hout.send_nrdy, hout.send_erdy,
                hout.endpoint_number, hout.ready, hout.done]
        b.watch(*sigs)
        res.bin("mps_%d" % mps if mps in (16, 64, 1024) else "mps_other")
        res.bin("profile_saturated" if self.clean else "profile_hostile")
        res.event("sessions")

        # ---------------- model of the input side: expected packets
        exp = []            # dicts: data (bytes; b"" = ZLP), t (cycle in which the packet became complete), race (see complete_packet)
        cur = bytearray()
        M = self.M = {"accepted_bytes": 0, "last_ack_cycle": -10, "producer_done": False, "words_left": total_words,
                      "pause": False, "offering": False, "erdy_blocked_by_nrdy": -1, "eta": None, "want_reset": False}

        # ---------------- observed output side
        events = []         # chronological: ("tx_start", cyc) / ("dp", dict) / ("nrdy" | "erdy", cyc, endpoint field) / ("hs_done", cyc)
        txs = {"in_packet": False, "words": None, "hdr": None, "prev": None, "dead": False}
        hs = {"kind": None}

        def complete_packet(last_flag, cyc):
            # race: a short packet whose `last` word is accepted in the very cycle of the acknowledging ACK TP
            exp.append({"data": bytes(cur), "t": cyc, "race": cyc == M["last_ack_cycle"] and len(cur) < mps})
            self.log.append((cyc, "input packet %d complete: %d bytes%s" % (len(exp) - 1, len(cur), " +ZLP" if len(cur) == mps and last_flag else "")))
            if len(cur) == mps:
                res.bin("full_packet")
            else:
                res.bin("short_packet_end")
            if len(cur) <= 4:
                res.bin("single_word_packet")
            if len(cur) == mps and last_flag:
                exp.append({"data": b"", "t": cyc, "race": cyc == M["last_ack_cycle"]})
                res.bin("zlp_end")
            del cur[:]

        def monitor(b):
            c = b.cycle
            # ---- input stream
            v, r = b.get(st.valid), b.get(st.ready)
            if v and r:
                n = NBYTES[v]
                word = b.get(st.payload)
                cur.extend(word.to_bytes(4, "little")[:n])
                M["accepted_bytes"] += n
                M["words_left"] -= 1
                res.event("words_accepted")
                lastf = b.get(st.last)
                if lastf and n < 4:
                    res.bin("partial_last_word_%d" % n)
                if lastf or len(cur) >= mps:
                    complete_packet(lastf, c)
            # ---- tx stream
            tv, tr = b.get(tx.valid), b.get(tx.ready)
            zlp = b.get(itf.tx_zlp)
            if tv:
                if tv not in NBYTES:
                    if not txs["dead"]:
                        self.violation("tx_valid_mask_malformed", "tx.valid=%s" % bin(tv))
                        txs["dead"] = True
                word = (tv, b.get(tx.payload) & ((1 << (8 * NBYTES.get(tv, 4))) - 1), b.get(tx.last))
                if not txs["in_packet"]:
                    txs["in_packet"] = True
                    txs["words"] = []
                    txs["hdr"] = {"len": b.get(itf.tx_length), "seq": b.get(itf.tx_sequence_number), "ep": b.get(itf.tx_endpoint_number),
                                  "start": c}
                    txs["prev"] = None
                    events.append(("tx_start", c))
                    if not tr:
                        res.bin("tx_stall_on_first_word")
                elif txs["prev"] is not None and txs["prev"] != word:
                    self.violation("tx_word_changed_while_not_ready", "word %s -> %s" % (txs["prev"], word))
                if tr:
                    txs["words"].append(word)
                    txs["prev"] = None
                    res.event("tx_words")
                    if word[2]:
                        data = b"".join(w[1].to_bytes(4, "little")[:NBYTES.get(w[0], 4)] for w in txs["words"])
                        hdr = txs["hdr"]
                        hdr.update(data=data, end=c, zlp=False)
                        events.append(("dp", hdr))
                        txs["in_packet"] = False
                else:
                    txs["prev"] = word
                    if word[2]:
                        res.bin("tx_stall_on_last_word")
                    else:
                        res.bin("tx_stall_mid_packet")
                if zlp:
                    self.violation("tx_zlp_during_data_packet", "tx_zlp strobed while tx.valid=%s" % bin(tv))
            else:
                if txs["in_packet"]:
                    txs["in_packet"] = False
                    p = txs["prev"]
                    hdr = txs["hdr"]
                    hdr.update(data=None, end=c, zlp=False, broken=True, got_words=len(txs["words"]))
                    if p is not None and p[2]:
                        hdr["why"] = "last_word_dropped"
                    elif p is not None:
                        hdr["why"] = "word_dropped"
                    else:
                        hdr["why"] = "valid_fell_without_last"
                    events.append(("dp", hdr))
                if zlp:
                    res.event("zlp_seen")
                    events.append(("tx_start", c))
                    events.append(("dp", {"len": 0, "seq": b.get(itf.tx_sequence_number), "ep": b.get(itf.tx_endpoint_number), "start": c,
                                          "end": c, "zlp": True, "data": b""}))
            # ---- handshake generator model
            if b.get(hout.ready):
                kinds = [k for k, s in (("ack", hout.send_ack), ("stall", hout.send_stall), ("nrdy", hout.send_nrdy), ("erdy", hout.send_erdy)) if b.get(s)]
                if kinds:
                    if len(kinds) > 1:
                        self.violation("two_handshakes_requested_at_once", str(kinds))
                    kind = kinds[-1]
                    if kind in ("ack", "stall"):
                        self.violation("in_endpoint_requests_%s" % kind, "an IN endpoint has no reason to send this")
                    hs["accepted"] = (kind, c, b.get(hout.endpoint_number))
                    hs["kind"] = kind
                    events.append((kind, c, b.get(hout.endpoint_number)))
            elif hs["kind"] == "nrdy" and b.get(hout.send_erdy):
                M["erdy_blocked_by_nrdy"] = c       # ERDY asked for while the generator is still busy with the NRDY
            if b.get(hout.done):
                events.append(("hs_done", c))
                hs["kind"] = None

        # ---------------- drivers
        def producer():
            for _ in range(self.start_delay):
                yield
            script = []
            reset_after = set()
            for k, n in enumerate(self.lengths):
                data = bytes(rng.randrange(256) for _ in range(n))
                for i in range(0, n, 4):
                    chunk = data[i:i + 4]
                    script.append((chunk, i + 4 >= n))
                if k in self.reset_points:
                    reset_after.add(len(script) - 1)
            for _ in range(self.endless_words):
                script.append((bytes(rng.randrange(256) for _ in range(4)), False))
            if self.endless_words:
                res.bin("endless_tail")
            burst_left = 0
            comp, fill = [], 0          # index of the word that completes the packet word j belongs to
            start = 0
            for j, (chunk, last) in enumerate(script):
                fill += len(chunk)
                if last or fill >= mps:
                    comp.extend([j] * (j + 1 - start))
                    start, fill = j + 1, 0
            comp.extend([None] * (len(script) - len(comp)))
            for j, (chunk, last) in enumerate(script):
                # gap before this word
                if self.gap_profile == "random":
                    while rng.random() < self.gap_p:
                        yield
                elif self.gap_profile == "slow":
                    for _ in range(rng.randint(3, 12)):
                        yield
                elif self.gap_profile == "bursts":
                    if burst_left == 0:
                        for _ in range(rng.choice([0, 5, 30, 80, 200])):
                            yield
                        burst_left = rng.choice([1, 2, mps // 4 - 1, mps // 4, mps // 4 + 1, mps // 2])
                    burst_left -= 1
                while M["pause"]:
                    yield
                n = len(chunk)
                word = int.from_bytes(chunk + bytes(rng.randrange(256) for _ in range(4 - n)), "little")
                b.set(st.valid, MASKS[n]); b.set(st.payload, word); b.set(st.last, int(last))
                M["offering"] = True
                M["eta"] = None if comp[j] is None else b.cycle + 1 + comp[j] - j
                yield
                while not b.get(st.ready):
                    yield
                b.set(st.valid, 0)
                M["offering"] = False
                if j in reset_after:
                    M["want_reset"] = True
                    while M["want_reset"]:
                        yield
                if rng.random() < 0.5:
                    b.set(st.last, rng.randrange(2)); b.set(st.payload, rng.getrandbits(32))
            M["producer_done"] = True
            while True:
                yield

        def consumer():
            prof = self.ready_profile
            run = 0
            val = 1
            while True:
                # what will be on the bus in the coming cycle is unknown; use what is known about the current packet
                words_done = len(txs["words"]) if txs["in_packet"] else 0
                exp_len = self.cur_expected_len()
                nwords = max(1, (exp_len + 3) // 4)
                # the word offered in the coming cycle is the last one if all but one have been transferred
                # (valid for both a word just transferred in this cycle and a stalled one)
                on_last = txs["in_packet"] and (words_done >= nwords - 1)
                starting = not txs["in_packet"]
                if prof == "always":
                    val = 1
                elif prof in ("random", "random_nolast"):
                    val = int(rng.random() < self.ready_p)
                elif prof in ("bursty", "bursty_nolast"):
                    if run <= 0:
                        val ^= 1
                        run = rng.randint(1, 6) if val == 0 else rng.randint(1, 12)
                    run -= 1
                elif prof == "stall_last":
                    val = 1
                    if on_last and rng.random() < 0.6:
                        val = 0
                elif prof == "stall_first":
                    val = 1
                    if starting and rng.random() < 0.7:
                        val = 0
                if prof.endswith("_nolast") or (prof == "stall_first" and self.clean):
                    if nwords <= 2 or (txs["in_packet"] and words_done >= nwords - 2):
                        val = 1
                b.set(tx.ready, val)
                yield

        def hs_model():
            b.set(hout.ready, 1)
            while True:
                if "accepted" in hs:
                    kind, c, _ = hs.pop("accepted")
                    lat = {"1": 1, "rand": rng.randint(1, 10), "long": rng.randint(5, 10)}[self.hs_latency]
                    if lat >= 5:
                        res.bin("hs_done_latency_ge_5")
                    b.set(hout.ready, 0)
                    for _ in range(lat - 1):
                        yield
                    b.set(hout.done, 1)
                    yield
                    b.set(hout.done, 0)
                    b.set(hout.ready, 1)
                yield

        self.exp, self.events, self.txs = exp, events, txs
        self.host_state = {"next": 0}
        b.add_driver(self.host(dut, exp, events, M), main=True)
        b.add_driver(producer(), main=False)
        b.add_driver(consumer(), main=False)
        b.add_driver(hs_model(), main=False)
        b.add_monitor(monitor)
        b.run()
        res.cycles += b.cycle
        if self.clean and not self.violated:
            res.event("clean_sessions_without_violation")
        return self.desc

    def cur_expected_len(self):
        i = self.host_state["next"]
        if i < len(self.exp):
            return len(self.exp[i]["data"])
        return self.mps

    # ------------------------------------------------------------------ the host
    def host(self, dut, exp, events, M):
        H = self.host_state
        H.update(seq=0, flow=False, nrdy_cycle=None, ev=0, delivered=0, last_dp=None, in_sync=True, acks_since_reset=0, zlp_flag=None,
                 zlp_retried=False, prev_data=None, first_kind="in", cur_zlp_standalone=False)
        try:
            yield from self.host_main(dut, exp, events, M)
        except GiveUp:
            pass
        # let things settle
        for _ in range(5):
            yield

    def tp(self, ep, seq, nump, rty, foreign=False):
        """drive one ACK TP for the coming cycle; returns the cycle index at which the endpoint samples it"""
        b = self.b
        if not foreign:
            H = self.host_state
            H["burst_ok"] = False
            if nump == 1 and self.p_burst_nump and self.rng.random() < self.p_burst_nump:
                # the host has room for more than one packet: still an IN request; exactly one packet is owed, an endpoint that
                # bursts may send more (not judged)
                nump = self.rng.choice([2, 2, 3, 4, 8, 16])
                H["burst_ok"] = True
                self.res.bin("in_request_nump_gt_1")
        hin = self.dut_itf.handshakes_in
        b.set(hin.ack_received, 1); b.set(hin.endpoint_number, ep); b.set(hin.next_sequence, seq & 31)
        b.set(hin.number_of_packets, nump); b.set(hin.retry_required, rty)
        self._tp_active = True
        if not foreign:
            self.log.append((b.cycle + 1, "host TP seq=%d NumP=%d Rty=%d" % (seq & 31, nump, rty)))
        return b.cycle + 1

    def tp_clear(self):
        b = self.b
        hin = self.dut_itf.handshakes_in
        if self._tp_active:
            b.set(hin.ack_received, 0); b.set(hin.endpoint_number, 0); b.set(hin.next_sequence, 0)
            b.set(hin.number_of_packets, 0); b.set(hin.retry_required, 0); b.set(hin.status_received, 0)
            self._tp_active = False

    def idle(self, n=1, waiting_for_ack=False):
        """n host-idle cycles with foreign traffic"""
        b, rng, res = self.b, self.rng, self.res
        hin = self.dut_itf.handshakes_in
        H = self.host_state
        for _ in range(n):
            self.tp_clear()
            if self.p_foreign and rng.random() < self.p_foreign:
                k = rng.random()
                other = rng.choice([e for e in range(16) if e != self.ep])
                if k < 0.15:
                    # STATUS TP (no ack strobe), also with our endpoint number
                    b.set(hin.status_received, 1); b.set(hin.endpoint_number, rng.choice([self.ep, other]))
                    self._tp_active = True
                else:
                    seq = rng.choice([(H["seq"] + 1) & 31, (H["seq"] + 1) & 31, H["seq"], rng.randrange(32)])
                    if k < 0.4:
                        other = self.ep ^ (1 << rng.randrange(4)) or 0      # differs in one bit
                        if other == self.ep:
                            other = 0
                    self.tp(other, seq, rng.choice([0, 1, 1, 1, 2]), rng.choice([0, 0, 1]), foreign=True)
                    if waiting_for_ack:
                        res.bin("foreign_tp_while_waiting_for_ack")
                    if seq == (H["seq"] + 1) & 31:
                        res.bin("foreign_tp_seq_plus_1")
            yield
        self.tp_clear()

    def host_main(self, dut, exp, events, M):
        b, rng, res = self.b, self.rng, self.res
        self.dut_itf = dut.interface
        self._tp_active = False
        H = self.host_state
        budget = b.max_cycles - 200
        pending = None              # (cycle, kind) of a request that is waiting for its answer; kind: "ack" | "retry"
        unanswered_streak = 0

        def all_done():
            return M["producer_done"] and H["next"] >= len(exp)

        def have_data(t):
            """(must_data, must_nrdy) for a request sampled at cycle t"""
            i = H["next"]
            if i < len(exp) and exp[i]["t"] <= t - SLACK - 1:
                return True, False
            if i >= len(exp) or exp[i]["t"] > t:
                return False, True      # not complete at request time (a later completion cannot be known to the endpoint)
            return False, False

        while True:
            if b.cycle > budget:
                if not all_done() and not self.violated:
                    self.violation("stream_not_delivered_within_budget", "delivered %d of %d packets, producer_done=%s, words_left=%d" % (
                        H["next"], len(exp), M["producer_done"], M["words_left"]))
                return
            # ------------------------------------------------ issue the next IN request (unless the last ACK TP was one)
            if pending is None:
                self.drain()
                if all_done():
                    return
                if M["want_reset"]:
                    if not H["flow"] and H["next"] >= len(exp) and self.nothing_buffered(M, exp):
                        yield from self.quiet_reset(M, exp)
                        continue
                    if H["flow"]:
                        M["want_reset"] = False         # no reset while flow-controlled (grey zone); let the stream go on
                if H["flow"]:
                    got = yield from self.wait_erdy(exp, M, budget)
                    if not got:
                        continue
                    yield from self.idle(rng.choice([0, 1, 2, 5, 20]))
                else:
                    i = H["next"]
                    k = rng.random()
                    if self.clean and i >= len(exp) and H["delivered"] > 0:
                        # saturated profile: only poll when a packet is there (except for the very first request)
                        while H["next"] >= len(exp) and not all_done() and not M["want_reset"] and b.cycle <= budget:
                            yield from self.idle(1)
                        if all_done() or b.cycle > budget or H["next"] >= len(exp):
                            continue
                        yield from self.idle(SLACK + 2)
                    elif k < self.p_at_completion and i >= len(exp) and not M["producer_done"]:
                        # aim at the cycle in which the packet becomes complete, or right after it
                        n = 0
                        guess = self.cycles_to_completion()
                        if guess is not None and rng.random() < 0.5:
                            yield from self.idle(max(0, guess + rng.choice([-1, -1, 0, 0, 1])))
                        else:
                            while H["next"] >= len(exp) and n < 3000 and not M["producer_done"] and not M["want_reset"]:
                                yield from self.idle(1)
                                n += 1
                            yield from self.idle(rng.choice([0, 0, 1, 2, 3]))
                        res.bin("in_request_at_completion")
                    elif k < self.p_early_request:
                        yield from self.idle(rng.choice([0, 1, 2, 4, 9]))
                    else:
                        yield from self.idle(rng.choice([10, 30, 60, 150, 400]))
                self.drain()
                t_req = self.tp(self.ep, H["seq"], 1, 0)
                kind = "in"
                res.event("in_requests")
                yield
                self.tp_clear()
            else:
                t_req, kind = pending
                pending = None
            retry = kind == "retry"
            # ------------------------------------------------ wait for the answer
            must_data, must_nrdy = (True, False) if retry else have_data(t_req)
            if must_data:
                res.bin("in_request_with_data")
            elif must_nrdy:
                res.bin("in_request_without_data")
            ans = yield from self.wait_answer(t_req)
            if ans is None:
                unanswered_streak += 1
                if retry and not H["in_sync"]:
                    res.unjudged += 1       # consequence of an already reported, invisible loss of sequence synchronisation
                    raise GiveUp()
                if retry and H["cur_zlp_standalone"]:
                    mech = "zlp_after_pure_ack_keeps_old_sequence_number"
                elif retry:
                    mech = "retry_request_unanswered"
                elif self.erdy_pending_at(t_req):
                    mech = "in_request_ignored_while_erdy_is_sent"
                elif kind == "ack" and must_nrdy:
                    mech = "ack_with_request_unanswered_when_no_packet_buffered"
                elif kind == "ack" and H["next"] < len(exp) and exp[H["next"]]["race"]:
                    mech = "packet_stuck_when_last_word_accepted_in_ack_cycle"
                elif kind == "ack":
                    mech = "ack_with_request_unanswered"
                else:
                    mech = "in_request_unanswered"
                self.violation(mech, "request (%s) at cycle %d, seq %d: neither data nor NRDY within %d cycles; complete packets %d, delivered %d" % (
                    kind, t_req, H["seq"], RESPONSE_WINDOW, len(exp), H["next"]))
                if unanswered_streak >= 3 or retry:
                    raise GiveUp()
                continue            # a host times out and asks again
            unanswered_streak = 0
            if ans[0] == "nrdy":
                res.event("nrdy_seen")
                self.check_hs_endpoint("nrdy", ans[2])
                if must_data:
                    if retry and not H["in_sync"]:
                        res.unjudged += 1
                        raise GiveUp()
                    if retry:
                        self.violation("zlp_after_pure_ack_keeps_old_sequence_number" if H["cur_zlp_standalone"] else "nrdy_instead_of_retransmission", "retry at %d answered with NRDY" % t_req)
                        raise GiveUp()
                    e = exp[H["next"]]
                    mech = "packet_stuck_when_last_word_accepted_in_ack_cycle" if e["race"] else "nrdy_although_packet_complete"
                    self.violation(mech, "request at %d, packet %d (%d bytes) complete since cycle %d" % (t_req, H["next"], len(e["data"]), e["t"]))
                    if e["race"]:
                        raise GiveUp()
                yield from self.wait_hs_done()
                H["flow"] = True
                H["nrdy_cycle"] = ans[1]
                continue
            # ---- a data packet started: wait for its end
            dp = yield from self.wait_dp()
            if dp is None:
                self.violation("data_packet_never_finished", "packet started at %d" % ans[1])
                raise GiveUp()
            if dp["zlp"] and H["zlp_flag"] and not retry:
                self.zlp_repeated(dp)
            if not retry and not H["in_sync"] and dp.get("data") is not None and dp["data"] == H["prev_data"]:
                res.unjudged += 1           # the previous packet again: consequence of an already reported, invisible loss of sequence sync
                raise GiveUp()
            if not retry and not dp.get("broken") and (H["next"] >= len(exp) or exp[H["next"]]["t"] >= dp["start"]):
                # (judged at the time the answer starts, not at the time of the request: a slower endpoint may legitimately
                # answer with a packet that became complete after the request)
                self.violation("data_sent_although_no_complete_packet", "request at %d, answer started at %d; %d packets complete, %d delivered; tx_length=%d, %s bytes" % (
                    t_req, dp["start"], len(exp), H["next"], dp["len"], len(dp["data"])))
                raise GiveUp()
            if not self.judge_dp(dp, retry, kind):
                raise GiveUp()
            # ------------------------------------------------ host reaction
            yield from self.idle(rng.choice([1, 1, 2, 3, 8, 25]), waiting_for_ack=True)
            if self.clean:
                # acknowledge only when the next packet is buffered (or nothing more will come)
                n = 0
                while not (H["next"] + 1 < len(exp)) and not M["producer_done"] and not M["want_reset"] and n < 5000:
                    yield from self.idle(1, waiting_for_ack=True)
                    n += 1
                yield from self.idle(SLACK + 2, waiting_for_ack=True)
            if rng.random() < self.p_retry:
                # the host did not get it: Rty=1 (bad CRC) or simply the same sequence number again (never saw the packet)
                rty = rng.random() < 0.6
                res.bin("retry_rty" if rty else "retry_repeated_seq")
                if dp["zlp"]:
                    res.bin("retry_of_zlp")
                    H["zlp_retried"] = True
                pending = (self.tp(self.ep, H["seq"], 1, int(rty)), "retry")
                res.event("acks_sent")
                yield
                self.tp_clear()
                continue
            # ---- accepted
            if dp["zlp"]:
                H["zlp_flag"] = "retried" if H["zlp_retried"] else ("standalone" if H["first_kind"] == "in" else None)
            else:
                H["zlp_flag"] = None
            H["zlp_retried"] = False
            H["prev_data"] = dp["data"]
            H["last_dp"] = None
            H["next"] += 1
            H["delivered"] += 1
            H["acks_since_reset"] += 1
            if H["seq"] == 31:
                res.bin("seq_wrap_31_0")
            H["seq"] = (H["seq"] + 1) & 31
            if H["next"] < len(exp):
                res.bin("second_buffer_filled_before_ack")
            pure = rng.random() < self.p_pure_ack
            if (self.clean and all_done()) or (M["want_reset"] and H["next"] >= len(exp)):
                pure = True
            res.event("acks_sent")
            M["last_ack_cycle"] = b.cycle + 1
            if pure:
                res.bin("pure_ack")
                self.tp(self.ep, H["seq"], 0, 0)
                yield
                self.tp_clear()
                yield from self.idle(3)
                self.drain()
                if (M["want_reset"] or rng.random() < self.p_reset) and H["next"] >= len(exp) and self.nothing_buffered(M, exp):
                    yield from self.quiet_reset(M, exp)
            else:
                res.bin("ack_and_request")
                pending = (self.tp(self.ep, H["seq"], 1, 0), "ack")
                res.event("in_requests")
                yield
                self.tp_clear()

    def cycles_to_completion(self):
        """guess of the number of idle cycles after which a TP would be sampled together with the completing word (exact for
        a dense producer that is not back-pressured)"""
        eta = self.M["eta"]
        if eta is None or eta <= self.b.cycle + 1:
            return None
        return eta - self.b.cycle - 1

    def nothing_buffered(self, M, exp):
        return M["accepted_bytes"] == sum(len(e["data"]) for e in exp)

    def quiet_reset(self, M, exp):
        """pulse ep_reset while nothing is buffered: host and endpoint sequence numbers restart at 0"""
        b = self.b
        H = self.host_state
        M["pause"] = True
        yield from self.idle(3)
        if self.nothing_buffered(M, exp) and H["next"] >= len(exp) and not M["offering"]:
            b.set(self.dut_itf.ep_reset, 1)
            self.log.append((b.cycle + 1, "ep_reset"))
            yield
            b.set(self.dut_itf.ep_reset, 0)
            H["seq"] = 0
            H["in_sync"] = True
            H["acks_since_reset"] = 0
            H["zlp_flag"] = None
            H["reset_done"] = True
            self.res.bin("ep_reset_quiet")
            yield from self.idle(2)
            M["want_reset"] = False
        M["pause"] = False

    # ---- event helpers: the host consumes the chronological event list through H["ev"]
    def next_event(self):
        H = self.host_state
        if H["ev"] < len(self.events):
            e = self.events[H["ev"]]
            H["ev"] += 1
            return e
        return None

    def drain(self):
        """everything the endpoint did while the host was not waiting for anything is unsolicited"""
        while True:
            e = self.next_event()
            if e is None:
                return
            self.spurious(e)

    def erdy_pending_at(self, t):
        """an ERDY request was being made / sent at cycle t"""
        last = None
        for e in self.events:
            if e[0] == "erdy" and e[1] <= t:
                last = e[1]
        if last is None:
            return False
        for e in self.events:
            if e[0] == "hs_done" and e[1] >= last:
                return t <= e[1] + 1
        return True

    def check_hs_endpoint(self, kind, value):
        if value != self.ep:
            if value == 0:
                self.violation("nrdy_erdy_endpoint_number_not_driven", "%s requested with handshakes_out.endpoint_number=0, endpoint is %d" % (kind.upper(), self.ep))
            else:
                self.violation("nrdy_erdy_endpoint_number_wrong", "%s requested with handshakes_out.endpoint_number=%d, endpoint is %d" % (kind.upper(), value, self.ep))

    def zlp_repeated(self, dp):
        H = self.host_state
        if H["zlp_flag"] == "retried":
            self.violation("zlp_sent_again_after_retransmitted_zlp_was_acknowledged",
                           "tx_zlp at %d: the zero-length packet had been retransmitted, then acknowledged with the next sequence number" % dp["start"])
        else:
            self.violation("zlp_after_pure_ack_keeps_old_sequence_number",
                           "tx_zlp at %d: the full packet was acknowledged with NumP=0, the zero-length packet was sent on the next IN request, "
                           "its acknowledgement produced the zero-length packet again" % dp["start"])
        raise GiveUp()

    def spurious(self, e):
        H = self.host_state
        if e[0] == "erdy":
            self.res.event("erdy_seen")
            self.check_hs_endpoint("erdy", e[2])
            self.violation("erdy_without_outstanding_nrdy", "ERDY requested at cycle %d although the host is not waiting for one" % e[1])
        elif e[0] == "nrdy":
            self.violation("nrdy_without_request", "NRDY requested at cycle %d" % e[1])
        elif e[0] == "dp":
            dp = e[1]
            if dp["zlp"] and H["zlp_flag"]:
                self.zlp_repeated(dp)
            if H.get("burst_ok"):
                self.res.unjudged += 1      # the last request offered room for more than one packet
                raise GiveUp()
            if not H["in_sync"]:
                self.res.unjudged += 1      # the endpoint takes the acknowledgement for a retry: consequence of an already reported loss of sync
                raise GiveUp()
            self.violation("data_packet_without_request", "packet at cycles %d..%d, %s bytes" % (dp["start"], dp["end"], len(dp["data"]) if dp.get("data") is not None else "?"))
            raise GiveUp()

    def wait_answer(self, t_req):
        """first tx_start / nrdy event at or after t_req; everything else that shows up before is unsolicited"""
        while True:
            e = self.next_event()
            if e is None:
                if self.b.cycle > t_req + RESPONSE_WINDOW:
                    return None
                yield from self.idle(1)
                continue
            if e[0] == "hs_done":
                continue
            if e[0] in ("nrdy", "tx_start") and e[1] >= t_req:
                return e
            self.spurious(e)

    def wait_dp(self):
        n = 0
        while True:
            e = self.next_event()
            if e is None:
                n += 1
                if n > self.mps * 8 + 400:
                    return None
                yield from self.idle(1)
                continue
            if e[0] == "dp":
                return e[1]
            if e[0] in ("hs_done", "tx_start"):
                continue
            self.spurious(e)

    def wait_hs_done(self):
        n = 0
        while True:
            e = self.next_event()
            if e is None:
                n += 1
                if n > 60:
                    return
                yield from self.idle(1)
                continue
            if e[0] == "hs_done":
                return
            if e[0] == "tx_start":
                continue
            self.spurious(e)

    def wait_erdy(self, exp, M, budget):
        """flow-controlled: wait for ERDY; judge its timing.  Returns True when the host should poll now."""
        b, res = self.b, self.res
        H = self.host_state
        deadline = None
        while True:
            i = H["next"]
            if deadline is None and i < len(exp):
                deadline = max(exp[i]["t"], H["nrdy_cycle"]) + ERDY_WINDOW + 12     # + handshake generator latency
            e = self.next_event()
            if e is None:
                if deadline is not None and b.cycle > deadline:
                    mech = "no_erdy_after_nrdy"
                    if M["erdy_blocked_by_nrdy"] >= H["nrdy_cycle"]:
                        mech = "erdy_request_lost_while_nrdy_is_sent"
                    elif exp[i]["race"]:
                        mech = "packet_stuck_when_last_word_accepted_in_ack_cycle"
                    self.violation(mech, "NRDY requested at %d, packet %d complete at %d, no ERDY until %d" % (H["nrdy_cycle"], i, exp[i]["t"], b.cycle))
                    if exp[i]["race"]:
                        raise GiveUp()
                    H["flow"] = False        # a host would eventually poll again on its own
                    return True
                if deadline is None and (M["producer_done"] or b.cycle > budget):
                    H["flow"] = False        # nothing more will come: session over
                    return False
                yield from self.idle(1)
                continue
            if e[0] == "erdy":
                res.event("erdy_seen")
                self.check_hs_endpoint("erdy", e[2])
                if not (i < len(exp) and exp[i]["t"] <= e[1]):
                    self.violation("erdy_before_packet_complete", "ERDY at %d, %d packets complete, %d delivered" % (e[1], len(exp), i))
                res.bin("nrdy_then_erdy")
                yield from self.wait_hs_done()
                H["flow"] = False
                return True
            if e[0] in ("hs_done", "tx_start"):
                continue
            self.spurious(e)

    # ---- data packet oracle
    def judge_dp(self, dp, retry, kind):
        res = self.res
        H = self.host_state
        exp = self.exp
        M = self.M
        res.event("data_packets_checked")
        if dp.get("broken"):
            why = dp["why"]
            if why == "last_word_dropped":
                self.violation("last_word_lost_when_tx_not_ready", "packet started %d: the word carrying `last` was withdrawn at cycle %d although tx.ready was low" % (dp["start"], dp["end"]))
            elif why == "word_dropped":
                self.violation("word_lost_when_tx_not_ready", "packet started %d: a word was withdrawn at cycle %d although tx.ready was low" % (dp["start"], dp["end"]))
            else:
                self.violation("tx_valid_fell_before_last", "packet started %d: valid fell at %d without a `last` word" % (dp["start"], dp["end"]))
            return False
        idx = H["next"]
        if retry:
            ref = H["last_dp"]
            res.event("retries_checked")
            want, want_seq = ref["data"], ref["seq"]
        else:
            if idx >= len(exp):
                self.violation("data_sent_although_no_complete_packet", "tx_length=%d" % dp["len"])
                return False
            want, want_seq = exp[idx]["data"], H["seq"]
            H["first_kind"] = kind
            if H.get("reset_done") and H["acks_since_reset"] == 0:
                res.bin("packet_after_ep_reset")
            H["cur_zlp_standalone"] = dp["zlp"] and kind == "in"
        single = (not dp["zlp"]) and len(dp["data"]) <= 4
        if dp["data"] != want:
            if not H["in_sync"] and (retry or dp["data"] == H["prev_data"]):
                res.unjudged += 1           # consequence of an earlier, already reported loss of sequence synchronisation
                return False
            if retry and H["cur_zlp_standalone"]:
                mech = "zlp_after_pure_ack_keeps_old_sequence_number"
            elif retry:
                mech = "retransmission_differs"
            elif dp["zlp"] and want:
                mech = "zlp_instead_of_data"
            elif not want:
                mech = "data_instead_of_zlp"
            elif len(dp["data"]) != len(want):
                mech = "packet_length_wrong"
            else:
                mech = "packet_bytes_wrong"
            self.violation(mech, "packet %d: got %d bytes %s.. expected %d bytes %s.." % (
                idx, len(dp["data"]), dp["data"][:12].hex(), len(want), want[:12].hex()))
            return False
        res.event("bytes_compared", max(1, len(want)))
        # did the previous acknowledgement arrive while nothing was buffered?  (only used to name a sequence mismatch)
        after_empty_ack = (not retry) and H["acks_since_reset"] > 0 and (exp[idx]["t"] > M["last_ack_cycle"] or exp[idx]["race"])
        undriven = dp["seq"] == 0 and dp["ep"] == 0 and dp["len"] == 0
        visible = True
        if dp["zlp"]:
            if dp["seq"] != want_seq or dp["ep"] != self.ep:
                visible = False
                if undriven:
                    self.violation("zlp_header_fields_not_driven", "tx_zlp cycle %d: tx_sequence_number=0 tx_endpoint_number=0, expected sequence %d endpoint %d" % (
                        dp["start"], want_seq, self.ep))
                else:
                    self.violation("zlp_header_fields_wrong", "tx_zlp cycle %d: sequence %d endpoint %d, expected sequence %d endpoint %d" % (
                        dp["start"], dp["seq"], dp["ep"], want_seq, self.ep))
        elif single and undriven:
            visible = False
            self.violation("header_fields_not_driven_for_single_word_packet", "first (and only) tx.valid cycle %d of a %d-byte packet: tx_length=0 "
                           "tx_sequence_number=0 tx_endpoint_number=0, expected %d / %d / %d" % (dp["start"], len(dp["data"]), len(dp["data"]), want_seq, self.ep))
        else:
            if dp["len"] != len(dp["data"]):
                self.violation("tx_length_wrong", "tx_length=%d, stream carried %d bytes" % (dp["len"], len(dp["data"])))
            if dp["ep"] != self.ep:
                self.violation("tx_endpoint_number_wrong", "tx_endpoint_number=%d" % dp["ep"])
            if dp["seq"] != want_seq:
                if retry:
                    self.violation("retransmission_sequence_number_changed", "retransmitted packet carries sequence %d, first time %d" % (dp["seq"], want_seq))
                elif not H["in_sync"]:
                    res.unjudged += 1
                elif dp["seq"] == (want_seq - 1) & 31 and after_empty_ack:
                    self.violation("sequence_not_advanced_by_ack_without_buffered_packet", "packet %d (complete at %d) carries sequence %d again; the host "
                                   "acknowledged sequence %d at cycle %d, when no further packet was buffered, and expects %d" % (
                                       idx, exp[idx]["t"], dp["seq"], dp["seq"], M["last_ack_cycle"], want_seq))
                elif dp["seq"] == (want_seq - 1) & 31:
                    self.violation("sequence_number_not_advanced", "packet %d carries sequence %d, host expects %d" % (idx, dp["seq"], want_seq))
                else:
                    self.violation("sequence_number_wrong", "packet %d carries sequence %d, host expects %d" % (idx, dp["seq"], want_seq))
                if not retry:
                    H["seq"] = dp["seq"]        # a host cannot do this; the model does, to keep judging
            if not retry:
                H["in_sync"] = True
        if not visible and not retry and after_empty_ack:
            H["in_sync"] = False                # the endpoint's own counter may be behind and nothing shows it
        if not retry:
            H["last_dp"] = {"data": dp["data"], "seq": dp["seq"]}
        return True

def run_case(rng, tier, res):
    n = rng.randint(2, 4)
    res.desc = {"sessions": []}
    res.cycles = 0
    for i in range(n):
        s = Session(rng, res, i)
        d = s.run()
        if len(res.desc["sessions"]) < 4:
            res.desc["sessions"].append(d)
    ev, bins = res.events, res.bins
    res.nontrivial = ev.get("data_packets_checked", 0) >= 3 and (ev.get("retries_checked", 0) + ev.get("nrdy_seen", 0)) >= 1
