"""C34 — word alignment places COM sequences on word boundaries without corrupting data.

DUTs (real luna classes, domain "ss"): RxWordAligner (marker = COM COM COM COM) and RxPacketAligner (marker =
SHP SHP SHP EPF or SLC SLC SLC EPF), one per case.

Workload: a symbol stream (byte, ctrl) with markers placed so that every (old offset -> new offset) pair of the four
byte offsets occurs, markers 4..40 symbols apart (TS1/TS2-like trains at a fixed offset, trains that slip by a symbol,
back-to-back packet markers), tagged filler symbols (so loss / duplication / re-ordering are distinguishable), decoys
that must not move the alignment (1-3 COMs, marker bytes whose ctrl bit is clear in one position, SHP SHP SHP END,
SLC/SHP mixtures, ...).  The stream is cut into 4-symbol words at index 0 and driven into `sink` with `valid`
gaps (none / random / placed inside and right after a marker); while `valid` is low the payload carries garbage that
contains markers.

Oracle (written from the statement, no luna code): markers are located in the accepted symbol stream by pattern
search.  The k-th marker must appear as the k-th output word that consists of the marker.  From that output word
on, consecutive valid output words must be stream[p+4m .. p+4m+3] for m = 0, 1, 2 ... (p = position of the marker)
as long as the offset is unchanged, i.e. up to the last word that ends at least 4 symbols before the next marker
with a different offset (straight through markers with the same offset).  At most 4 unjudged output words may
separate that last word from the next marker word.  At the end of the stream the output may lag by up to 2 words.
`alignment_offset` must equal p mod 4 at the fourth word of a segment (when the segment is that long).

Not judged: output before the first marker; the words around an offset change (statement: "while the offset is
unchanged"); runs of more than four COMs / overlapping markers (not generated); latency in cycles.
"""
from rv.sim import Bench

PROPERTY = "C34"
CASES = {"quick": 400, "thorough": 8000}
RULE = ("case = aligner class x 300-900 symbol stream with 10-50 markers at controlled offsets, decoys, tagged filler, "
        "cut into words, valid-gap profile (none/random/directed) with marker-laden garbage; non-trivial = >= 3 distinct "
        "offset transitions incl. one change and one decoy and one gap; distinct = hash of stream and gap pattern")
REQUIRED_BINS = (["chg_%d_%d" % (a, c) for a in range(4) for c in range(4)] +
                 ["class_word", "class_packet", "marker_shp", "marker_slc", "decoy_short_run", "decoy_ctrl_clear",
                  "gap_inside_marker", "gap_after_marker", "garbage_marker_in_gap", "markers_le_7_apart",
                  "segment_ge_8_words", "no_gap_case", "train_same_offset", "first_marker_offset_nonzero",
                  "com_run_gt4", "markers_exactly_4_apart"])
REQUIRED_EVENTS = ["markers_in", "marker_words_out", "words_in", "words_out", "segment_words_compared", "offset_checks", "com_runs_judged"]
ASSUMPTIONS = ["sink words are cut from the symbol stream at index 0; a marker is exactly four symbols (COM runs are guarded by non-COM symbols)",
               "output before the first marker and the (at most 4) words around an offset change are not judged",
               "alignment_offset is judged only at the fourth word after a marker"]

COM, SHP, SLC, EPF, END, SKP, SDP, EDB, SUB, RSD = 0xBC, 0xFB, 0xFE, 0xF7, 0xFD, 0x3C, 0x5C, 0x7C, 0x9C, 0xDC
MARKERS = {
    "word": [[(COM, 1)] * 4],
    "packet": [[(SHP, 1), (SHP, 1), (SHP, 1), (EPF, 1)], [(SLC, 1), (SLC, 1), (SLC, 1), (EPF, 1)]],
}


def make_stream(rng, kind, nsyms, res):
    syms = []
    tag = [rng.randrange(256)]
    markers = MARKERS[kind]
    if kind == "word":
        safe_k = [SKP, SDP, EDB, SUB, RSD, END, SHP, SLC, EPF]
        lookalike = [COM]
    else:
        safe_k = [SKP, SDP, EDB, SUB, RSD, END, COM]
        lookalike = [SHP, SLC, EPF]

    def fsym():
        tag[0] = (tag[0] + 1) % 253
        r = rng.random()
        if r < 0.72:
            return (tag[0], 0)
        if r < 0.82:
            return (rng.choice(lookalike), 0)          # marker byte as data
        if r < 0.95:
            return (rng.choice(safe_k), 1)
        return (tag[0], 0 if tag[0] in (COM, SHP, SLC, EPF) else 1)

    def guard():
        tag[0] = (tag[0] + 1) % 253
        return (tag[0], 0)

    def filler(n):
        return [fsym() for _ in range(n)]

    def decoy():
        r = rng.random()
        if kind == "word":
            if r < 0.5:
                res.bin("decoy_short_run")
                return [guard()] + [(COM, 1)] * rng.choice([1, 2, 3, 3]) + [guard()]
            res.bin("decoy_ctrl_clear")
            mask = rng.choice([0b0111, 0b1110, 0b1011, 0b1101, 0b0000])
            return [guard()] + [(COM, (mask >> i) & 1) for i in range(4)] + [guard()]
        if r < 0.5:
            res.bin("decoy_short_run")
            return [guard()] + rng.choice([
                [(SHP, 1), (SHP, 1), (SHP, 1), (END, 1)], [(SHP, 1), (SHP, 1), (EPF, 1)], [(SLC, 1), (SLC, 1), (EPF, 1)],
                [(SHP, 1), (SLC, 1), (SHP, 1), (EPF, 1)], [(SLC, 1), (SLC, 1), (SHP, 1), (EPF, 1)], [(EPF, 1)] * 3,
                [(SLC, 1), (SLC, 1), (SLC, 1), (SLC, 1), (END, 1)], [(SDP, 1), (SDP, 1), (SDP, 1), (EPF, 1)]]) + [guard()]
        res.bin("decoy_ctrl_clear")
        mask = rng.choice([0b0111, 0b1110, 0b1011, 0b1101, 0b0000])
        mk = rng.choice(markers)
        return [guard()] + [(mk[i][0], (mask >> i) & 1) for i in range(4)] + [guard()]

    def place_marker(offset):
        """append guard/filler so that the next marker starts at stream index == offset (mod 4)"""
        pad = (offset - (len(syms) + 1)) % 4
        syms.append(guard())
        syms.extend(filler(pad))
        syms.extend(rng.choice(markers))

    def fix(c):
        return rng.randrange(4) if c is None else c

    # leading part without marker
    syms.extend(filler(rng.choice([0, 1, 2, 3, 5, 9])))
    cur = rng.randrange(4)
    first = True
    while len(syms) < nsyms:
        r = rng.random()
        if first:
            place_marker(cur)
            first = False
        elif r < 0.22:                                  # train at the same offset (TS1/TS2: 16 symbols per set)
            res.bin("train_same_offset")
            cur = fix(cur)
            for _ in range(rng.choice([2, 3, 5])):
                place_marker(cur)
                syms.append(guard())
                syms.extend(filler(rng.choice([11, 11, 3, 7])))
        elif r < 0.40:                                  # slip by one symbol (either direction)
            cur = (fix(cur) + rng.choice([1, 3])) % 4
            place_marker(cur)
        elif r < 0.62:
            cur = rng.randrange(4)
            place_marker(cur)
        elif r < 0.74:                                  # close markers, different offsets
            for _ in range(rng.choice([2, 3])):
                cur = (fix(cur) + rng.choice([1, 2, 3])) % 4
                place_marker(cur)
        elif r < 0.80:
            syms.extend(decoy())
        elif r < 0.88:
            if kind == "word":                          # run of 5..9 COMs: any four of them may become the alignment point
                cur = rng.randrange(4)
                pad = (cur - (len(syms) + 1)) % 4
                syms.append(guard())
                syms.extend(filler(pad))
                syms.extend([(COM, 1)] * rng.choice([5, 6, 7, 8, 8, 9]))
                syms.append(guard())
                syms.extend(filler(rng.choice([12, 13, 14, 15, 22])))
                cur = None
            else:                                       # packet markers back to back (exactly 4 symbols apart)
                place_marker(cur)
                for _ in range(rng.choice([1, 1, 2])):
                    syms.extend(rng.choice(markers))
        else:
            pass
        syms.append(guard())
        syms.extend(filler(rng.choice([0, 1, 2, 3, 4, 6, 10, 17, 40])))
    syms.append(guard())
    syms.extend(filler(12))
    while len(syms) % 4:
        syms.append(guard())
    return syms


def find_markers(syms, kind):
    pats = MARKERS[kind]
    return [p for p in range(len(syms) - 3) if syms[p:p + 4] in pats]


def pack(w):
    d = c = 0
    for i, (v, k) in enumerate(w):
        d |= v << (8 * i)
        c |= k << i
    return d, c


def run_case(rng, tier, res):
    from luna.gateware.usb.usb3.physical.alignment import RxWordAligner, RxPacketAligner
    kind = rng.choice(["word", "word", "packet"])
    res.bin("class_" + kind)
    nsyms = rng.randint(300, 900)
    gap_profile = rng.choice(["none", "random", "random", "directed", "directed"])
    p_gap = rng.choice([0.1, 0.3, 0.6])
    syms = make_stream(rng, kind, nsyms, res)
    words = [syms[i:i + 4] for i in range(0, len(syms), 4)]
    marker_pos = find_markers(syms, kind)
    dut = RxWordAligner() if kind == "word" else RxPacketAligner()
    sink, source = dut.sink, dut.source
    b = Bench(dut, domain="ss", freq=125e6, max_cycles=len(words) * 12 + 200)
    b.watch(sink.valid, sink.payload, sink.ctrl, sink.ready, source.valid, source.payload, source.ctrl, dut.alignment_offset)
    res.desc = {"class": kind, "symbols": len(syms), "gap_profile": gap_profile, "p_gap": p_gap, "markers": marker_pos[:12],
                "first_words": ["%08x/%x" % pack(w) for w in words[:8]]}
    res.sig(kind, gap_profile, p_gap, syms)
    if gap_profile == "none":
        res.bin("no_gap_case")

    # words that contain the tail of a marker / the word after a marker: targets of directed gaps
    marker_word_tail = set()      # word index n such that a marker straddles words n-1 and n
    marker_word_next = set()      # word index right after the word that holds the end of a marker
    for p in marker_pos:
        if p % 4:
            marker_word_tail.add(p // 4 + 1)
        marker_word_next.add((p + 3) // 4 + 1)

    accepted = []                  # symbols accepted (in words)
    outs = []                      # (symbols, cycle, alignment_offset)
    st = {"done": False}

    def driver():
        for n, w in enumerate(words):
            gap = 0
            if gap_profile == "random" and rng.random() < p_gap:
                gap = rng.choice([1, 1, 2, 5])
            elif gap_profile == "directed":
                if n in marker_word_tail and rng.random() < 0.6:
                    gap = rng.choice([1, 2, 4])
                    res.bin("gap_inside_marker")
                elif n in marker_word_next and rng.random() < 0.6:
                    gap = rng.choice([1, 2, 4])
                    res.bin("gap_after_marker")
                elif rng.random() < 0.05:
                    gap = 1
            elif gap_profile == "random" and gap == 0:
                pass
            if gap and gap_profile == "random":
                if n in marker_word_tail:
                    res.bin("gap_inside_marker")
                elif n in marker_word_next:
                    res.bin("gap_after_marker")
            for _ in range(gap):
                b.set(sink.valid, 0)
                r = rng.random()
                if r < 0.5:
                    g = rng.choice(MARKERS[kind])
                    res.bin("garbage_marker_in_gap")
                elif r < 0.75:                          # marker tail / head fragments at every offset
                    mk = rng.choice(MARKERS[kind])
                    k = rng.randrange(1, 4)
                    g = (mk[k:] + [(rng.randrange(256), 0)] * 4)[:4] if rng.random() < 0.5 else ([(rng.randrange(256), 0)] * 4 + mk[:k])[-4:]
                else:
                    g = [(rng.randrange(256), rng.getrandbits(1)) for _ in range(4)]
                d, c = pack(g)
                b.set(sink.payload, d)
                b.set(sink.ctrl, c)
                yield
            d, c = pack(w)
            b.set(sink.valid, 1)
            b.set(sink.payload, d)
            b.set(sink.ctrl, c)
            waited = 0
            while True:
                yield
                if b.get(sink.ready):
                    break
                waited += 1
                if waited > 50:
                    res.violation("sink_not_ready", "word %d not accepted within 50 cycles" % n)
                    return
        b.set(sink.valid, 0)
        b.set(sink.payload, pack(MARKERS[kind][0])[0])
        b.set(sink.ctrl, 0xF)
        for _ in range(6):
            yield
        st["done"] = True

    def monitor(b):
        if b.get(sink.valid) and b.get(sink.ready):
            res.event("words_in")
            d, c = b.get(sink.payload), b.get(sink.ctrl)
            accepted.extend(((d >> (8 * i)) & 0xFF, (c >> i) & 1) for i in range(4))
        if b.get(source.valid):
            res.event("words_out")
            d, c = b.get(source.payload), b.get(source.ctrl)
            outs.append(([((d >> (8 * i)) & 0xFF, (c >> i) & 1) for i in range(4)], b.cycle, b.get(dut.alignment_offset)))

    b.add_driver(driver())
    b.add_monitor(monitor)
    b.run()
    res.cycles = b.cycle
    if b.hit_max_cycles or not st["done"]:
        if not res.violations:
            res.violation("sink_not_ready", "driver did not finish in %d cycles" % b.cycle)
        return
    judge(res, kind, accepted, outs)


def judge(res, kind, accepted, outs):
    pats = MARKERS[kind]
    mpos = find_markers(accepted, kind)
    # overlapping markers (a run of more than four COMs) form one cluster: the statement does not say which four
    # COMs are "the" sequence, so any of them is accepted as the alignment point
    clusters = []
    for p in mpos:
        if clusters and p - clusters[-1][-1] < 4:
            clusters[-1].append(p)
        else:
            clusters.append([p])
    res.event("markers_in", len(mpos))
    out_marker_idx = [j for j, (w, _, _) in enumerate(outs) if w in pats]
    res.event("marker_words_out", len(out_marker_idx))
    n_acc = len(accepted)
    if mpos:
        res.bin("first_marker_offset_nonzero" if mpos[0] % 4 else "first_marker_offset_zero")
        res.unjudged += out_marker_idx[0] if out_marker_idx else len(outs)
    transitions = set()
    prev_off = 0
    oi = 0                                   # output marker words consumed so far
    complete = True

    def compare_segment(j, q, bound, first_m, what):
        """outs[j+m] must be accepted[q+4m:q+4m+4] for m = first_m.. while the word ends at or before `bound`.
        returns (words matched, status) with status 'ok' | 'end' (output ended, tolerated) | 'bad'"""
        m = first_m
        while q + 4 * m + 3 <= bound:
            jj = j + m
            if jj >= len(outs):
                return m, "end"
            exp = accepted[q + 4 * m:q + 4 * m + 4]
            got, cyc, aoff = outs[jj]
            if got != exp:
                return m, ("bad", got, exp, cyc)
            m += 1
        return m, "ok"

    for k, cl in enumerate(clusters):
        p = cl[0]
        p_next = clusters[k + 1][0] if k + 1 < len(clusters) else None
        # the offset is unchanged until the next marker arrives: every word that lies wholly before it is required
        bound = n_acc - 1 if p_next is None else p_next - 1
        if oi >= len(out_marker_idx):
            if cl[-1] + 4 <= n_acc - 8:
                res.violation("marker_not_presented_as_word",
                              "marker #%d at symbol %d (offset %d, previous offset %d): only %d marker words in the output"
                              % (k, p, p % 4, prev_off, len(out_marker_idx)))
            complete = False
            break
        if len(cl) == 1:
            off = p % 4
            res.bin("chg_%d_%d" % (prev_off, off))
            transitions.add((prev_off, off))
            if accepted[p] == (SHP, 1):
                res.bin("marker_shp")
            elif accepted[p] == (SLC, 1):
                res.bin("marker_slc")
            if p_next is not None and p_next - p <= 7:
                res.bin("markers_le_7_apart")
            if p_next is not None and p_next - p == 4:
                res.bin("markers_exactly_4_apart")
            j = out_marker_idx[oi]
            oi += 1
            q = p
            m, status = compare_segment(j, q, bound, 0, "marker")
            res.event("segment_words_compared", m)
        else:
            run = cl[-1] - cl[0] + 4
            e = p + run                                   # first symbol after the COM run
            res.bin("com_run_gt4")
            found = None
            last_fail = None
            for c in range(1, run // 4 + 2):
                if oi + c - 1 >= len(out_marker_idx):
                    break
                jc = out_marker_idx[oi + c - 1]
                for qc in range(max(p, e - 7), e - 3):
                    mc, stc = compare_segment(jc, qc, bound, 1, "run")
                    if stc in ("ok", "end") and (mc > 1 or stc == "end"):
                        found = (c, jc, qc, mc, stc)
                        break
                    last_fail = (jc, qc, mc, stc)
                if found:
                    break
            if not found:
                if e + 12 <= n_acc - 8:
                    res.violation("data_after_com_run_not_contiguous",
                                  "run of %d COMs at symbol %d: no alignment on any four of them continues the stream without loss/duplication (last try %r)"
                                  % (run, p, last_fail))
                complete = False
                break
            c, j, q, m, status = found
            oi += c
            off = q % 4
            res.event("segment_words_compared", m - 1)
            res.event("com_runs_judged")
        if status not in ("ok", "end"):
            _, got, exp, cyc = status
            res.violation(classify(accepted, q + 4 * m, got, exp),
                          "marker #%d at symbol %d (offset %d, previous %d): word %d after the marker = %r expected %r (cycle %d)"
                          % (k, q, off, prev_off, m, got, exp, cyc))
            complete = False
            break
        if status == "end":
            if p_next is not None or (n_acc - (q + 4 * m)) // 4 > 2:
                res.violation("output_truncated", "segment of marker #%d at symbol %d: output ends after %d words, %d symbols still expected"
                              % (k, q, m, n_acc - (q + 4 * m)))
            complete = False
            break
        # alignment_offset: from the first word after the marker word on (its value on the marker word itself is
        # not decided by the statement)
        for mm in range(1, m):
            _, cyc, aoff = outs[j + mm]
            res.event("offset_checks")
            if aoff != off:
                res.violation("alignment_offset_wrong", "marker #%d at symbol %d: alignment_offset=%d expected %d at word %d after the marker (cycle %d)"
                              % (k, q, aoff, off, mm, cyc))
                break
        if m >= 8:
            res.bin("segment_ge_8_words")
        if p_next is not None and oi < len(out_marker_idx):
            extra = out_marker_idx[oi] - (j + m)
            same = len(clusters[k + 1]) == 1 and (p_next - q) % 4 == 0
            if same and extra != 0:
                res.violation("word_count_changed_at_same_offset", "between markers #%d and #%d (same offset %d): %d unexpected output words"
                              % (k, k + 1, off, extra))
                complete = False
                break
            if not 0 <= extra <= 2:
                res.violation("word_count_wrong_at_offset_change", "between markers #%d (offset %d) and #%d (offset %d): %d output words between the last word before the marker and the marker word"
                              % (k, off, k + 1, p_next % 4, extra))
                complete = False
                break
            res.unjudged += extra
        prev_off = off
    if complete and oi < len(out_marker_idx):
        res.violation("spurious_marker_word", "%d marker words in the output, %d explained by the %d markers in the input"
                      % (len(out_marker_idx), oi, len(mpos)))
    changes = [t for t in transitions if t[0] != t[1]]
    res.nontrivial = len(transitions) >= 3 and bool(changes)


def classify(accepted, pos, got, exp):
    if [s[0] for s in got] == [s[0] for s in exp]:
        return "ctrl_bit_wrong"
    for d in (1, 2, 3):
        if accepted[pos + d:pos + d + 4] == got:
            return "symbols_lost_offset_unchanged"
        if pos - d >= 0 and accepted[pos - d:pos - d + 4] == got:
            return "symbols_duplicated_offset_unchanged"
    if pos >= 4 and accepted[pos - 4:pos] == got:
        return "word_repeated"
    if accepted[pos + 4:pos + 8] == got:
        return "word_skipped"
    return "output_symbol_mismatch"
