"""C36 -- header / data packets are transmitted with correct framing and CRCs.

DUT: luna.gateware.usb.usb3.link.transmitter.RawPacketTransmitter (real code).  The words it gets accepted by the PHY are
  replayed (harness-side, contiguous, receivers reset before each packet) into the real RawHeaderPacketReceiver and
  DataPacketReceiver, which sit in the same harness.
Workload: sessions of 80 packets (elaborating the three CRC-32/CRC-16 users costs far more than simulating them): data headers (60 %) with payloads of every length mod 4 (0..70 mostly, some up to 300,
  1024 in the thorough tier; zero-length = no data offered), delayed data headers (DPP must be aborted), transaction /
  link-management / isochronous-timestamp headers; all header words, sequence number, reserved bits, hub depth, delayed,
  deferred random; the header's own crc16/crc5 inputs are garbage (must be ignored).  Requests the two ways the link
  layer makes them: a `generate` strobe after which the header inputs are scrambled, or a level held until `done`; back
  to back or spaced.  Also headers of reserved types with bit 4 set (10000b, 10100b, 11100b and 11000b = DATA with bit 4:
  none of them is a data header, nothing may follow the header), payload lengths 301..1020 (3.5 %) and the maximum-size
  neighbourhood 1021..1024 (1.5 %), and payload streams with bubbles (30 % of multi-word payloads: the producer drops valid
  for 1-3 cycles between two words, other fields don't-care/hostile meanwhile).  Payload stream: words valid until accepted, garbage in the unused lanes of the last word, data
  offered before or together with the request.  PHY `ready`: always / random p / pulse every k / bursty, plus stalls of 1-6
  cycles aimed at a chosen word (start framing, each header word, DPP start, first / last payload word, CRC word, END word).
Monitors / oracle (rv/ref/c35_usb3link.py, written from USB 3.2 7.2.1; bit-serial CRCs validated against recorded packets):
  wire:  the sequence of words transferred on `source` (valid & ready) must equal, word for word, the reference encoding of
         the requested packets: SHP SHP SHP EPF; DW0..2; DW3 = CRC-16 | seq<<16 | rsvd<<19 | hub<<22 | DL<<25 | DF<<26 |
         CRC-5<<27; for data headers SDP SDP SDP EPF, payload bytes, CRC-32 immediately after the last byte, END END END EPF
         immediately after the CRC, logical idle up to the word boundary; for delayed data headers SDP SDP SDP EPF then
         EDB EDB EDB EPF.  Nothing else may be transferred; every packet completes (bounded); the payload stream is
         consumed exactly (every word accepted once, none for aborted / non-data packets... the latter only observed).
  receivers: for every packet the header receiver must raise new_packet with all fields equal to what was requested and
         the CRC fields equal to the reference, and neither bad_packet nor bad_sequence; for data packets that are not
         aborted the data receiver must raise packet_good at least once, its header must match, and the bytes it offered
         before that must be the payload.
  DataPacketTransmitter (data.py, the block that turns a payload stream into data header + stream for the transmitter):
         stand-alone in the same harness, 60 packets per case (payload 1..64 bytes and send_zlp, parameters set early or with
         the first word and scrambled once the stream has started, header accepted after 0-6 cycles, data_source.ready
         random): every header offered must be DW0 = DATA | address<<25, DW1 = seq | direction<<7 | endpoint<<8 | length<<16,
         DW2 = 0 with the parameters of that packet (length 0 for send_zlp); exactly one header per packet; the words leaving
         data_source (valid & ready) == the words accepted on data_sink, in order, once (valid lanes, data in valid lanes,
         first, last).  Packets are separated by idle cycles (the block needs them to see a packet boundary).
  Scope of the receive half: the statement is about TRANSMIT framing ("receiving such a stream ... yields the same header and
         payload with good CRCs"), so the receivers are only a second decoder for what the transmitter produced.  Their
         reject paths (bad CRC, wrong sequence, damaged framing), their valid-gating and back-to-back behaviour are NOT
         exercised here on purpose: they are what C37 (header receiver) and C40 (data receiver) decide.  An
         accept-everything receiver would pass this check and fail those.
Not judged: a later packet_bad or repeated packet_good of the data receiver (C40's business), the data receiver on aborted
  packets, `done` timing beyond "not before the last word was accepted and within the bound", a payload that
  only becomes valid after the header went out (by the block's documented contract that means zero length: "late" data is
  not a defined input), `generate` while busy.
Deviation from DESIGN section 7: the statement's "END symbols padding to the word boundary followed by END-END-END-EPF" is
  read as USB 3.2 defines the DPP end framing and as the recorded packets in the repository's tests show it: END END END
  EPF follows the CRC-32 directly and the rest of the last word is logical idle.  The receivers are fed by replay and
  reset per packet so that the receiver defects found under C40 (stuck after a zero-length packet, no valid check on the
  CRC word) cannot mask or fake transmitter findings.
"""
import struct

from rv.sim import Bench
from rv.ref import c35_usb3link as L

PROPERTY = "C36"
CASES = {"quick": 16, "thorough": 160}
# elaboration of the CRC-32 users dominates the cost; generous watchdog for a loaded machine
TIMEOUT = {"quick": 3600, "thorough": 8 * 3600}
RULE = ("case = session of 80 packets (60% data headers with payload 0..300 bytes, every length mod 4; delayed data headers; "
        "TP/LMP/ITP headers), strobe or level requests, back to back or spaced, one PHY ready profile plus stalls aimed at chosen "
        "words; transmitted words replayed into the real header and data receivers; non-trivial = all four payload alignments, "
        ">=1 zero-length, >=1 aborted packet and stalls on CRC and END words; distinct = hash of all stimulus")
REQUIRED_BINS = ["payload_len_mod4_0", "payload_len_mod4_1", "payload_len_mod4_2", "payload_len_mod4_3", "zero_length_payload",
                 "single_word_payload", "long_payload", "delayed_abort", "delayed_abort_with_data_offered", "header_tp", "header_lmp", "header_itp", "header_reserved_type_bit4", "header_type_0x18",
                 "payload_301_to_1020", "payload_stream_with_bubbles", "dpt_packets", "dpt_zlp", "dpt_source_stalled", "dpt_header_accept_delayed",
                 "request_strobe_header_scrambled", "request_level", "back_to_back", "data_offered_early", "data_offered_with_request",
                 "stall_hpstart", "stall_header_word", "stall_dw3", "stall_dppstart", "stall_first_payload_word", "stall_mid_payload_word",
                 "stall_last_payload_word", "stall_crc_word", "stall_end_word", "stall_abort_word", "garbage_in_unused_lanes",
                 "rx_header_checked", "rx_payload_checked", "rx_zero_length_good"]
REQUIRED_EVENTS = ["dpt_words_out", "dpt_headers", "packets_requested", "packets_completed", "words_transferred", "words_compared", "payload_words_accepted",
                   "done_strobes", "rx_new_packet_strobes", "rx_packet_good_strobes", "rx_payload_bytes_compared", "rx_words_replayed"]
ASSUMPTIONS = ["a request is accepted when `generate` is sampled high while the transmitter is idle; the header inputs are taken from that cycle",
               "for a data header the payload stream is valid no later than the request and stays valid until each word is accepted; "
               "no data offered = zero-length payload",
               "DPP end framing follows the CRC-32 directly; the remainder of the last word is logical idle (D0.0)"]


def gen_packet(rng, tier):
    r = rng.random()
    p = {"delayed": 0, "payload": None}
    if r < 0.62:
        p["type"] = L.HDR_TYPE_DATA
    elif r < 0.72:
        p["type"] = L.HDR_TYPE_DATA
        p["delayed"] = 1
    else:
        p["type"] = rng.choice([L.HDR_TYPE_TP, L.HDR_TYPE_LMP, L.HDR_TYPE_ITP, L.HDR_TYPE_TP, L.HDR_TYPE_LMP, L.HDR_TYPE_ITP,
                                0x10, 0x14, 0x1C, 0x18, 0x18])     # reserved types with bit 4 set; 0x18 differs from DATA in bit 4 only
    n = 0
    if p["type"] == L.HDR_TYPE_DATA:
        x = rng.random()
        if x < 0.07:
            n = 0
        elif x < 0.50:
            n = rng.randint(1, 16)
        elif x < 0.90:
            n = rng.randint(17, 70)
        elif x > 0.985:    # both tiers: maximum-size boundary
            n = rng.choice([1024, 1023, 1022, 1021])
        elif x > 0.95:
            n = rng.randint(301, 1020)
        else:
            n = rng.randint(71, 300)
        p["payload"] = bytes(rng.getrandbits(8) for _ in range(n))
        if n and rng.random() < 0.08:
            p["payload"] = bytes([rng.choice([0, 0xFF, 0xFD, 0xF7, 0x5C])] * n)
    p["n"] = n
    p["dw0"] = p["type"] | (rng.getrandbits(27) << 5)
    p["dw1"] = rng.getrandbits(32)
    if p["type"] == L.HDR_TYPE_DATA:
        p["dw1"] = (p["dw1"] & 0xFFFF) | (n << 16)
    p["dw2"] = rng.getrandbits(32)
    p["seq"], p["rsvd"], p["hub"] = rng.randrange(8), rng.choice([0, 0, rng.randrange(8)]), rng.randrange(8)
    p["deferred"] = int(rng.random() < 0.15)
    if p["type"] != L.HDR_TYPE_DATA:
        p["delayed"] = int(rng.random() < 0.2)
    p["style"] = rng.choice(["strobe", "level"])
    p["idle"] = rng.choice([0, 0, 0, 1, 2, rng.randint(3, 10)])
    p["data_early"] = rng.choice([0, 0, 1, 2, 3])
    p["offer_data_when_delayed"] = rng.random() < 0.5
    # expected words + roles
    words = L.header_words(p["dw0"], p["dw1"], p["dw2"], p["seq"], p["rsvd"], p["hub"], p["delayed"], p["deferred"])
    roles = ["hpstart", "dw0", "dw1", "dw2", "dw3"]
    if p["type"] == L.HDR_TYPE_DATA:
        if p["delayed"]:
            words += [L.DPPSTART, L.DPPABORT]
            roles += ["dppstart", "abort"]
        else:
            dw = L.dpp_words(p["payload"])
            words += dw
            n_pay_words = (n + 3) // 4
            j_crc_last = (n + 3) // 4 + 1
            for j in range(len(dw)):
                if j == 0:
                    roles.append("dppstart")
                elif j == j_crc_last:
                    roles.append("crc")
                elif j > j_crc_last:
                    roles.append("end")
                elif j == n_pay_words:
                    roles.append("last_payload")
                elif j == 1:
                    roles.append("first_payload")
                else:
                    roles.append("mid_payload")
    p["words"], p["roles"] = words, roles
    # payload stream words: (data, valid lanes, first, last)
    stream = []
    if p["type"] == L.HDR_TYPE_DATA and n:
        for k in range(0, n, 4):
            chunk = p["payload"][k:k + 4]
            lanes = (1 << len(chunk)) - 1
            d = sum(bv << (8 * i) for i, bv in enumerate(chunk))
            if len(chunk) < 4:
                d |= rng.getrandbits(32) & ~((1 << (8 * len(chunk))) - 1) & 0xFFFFFFFF
                p["garbage_lanes"] = True
            stream.append((d, lanes, int(k == 0) if rng.random() < 0.9 else rng.randrange(2), int(k + 4 >= n)))
    # bubbles: the producer takes its valid away for 1-3 cycles between two words (never before the first word: a payload
    # that is not valid when the header has gone out means "zero length" by the block's contract)
    p["bubbles"] = False
    if len(stream) >= 2 and not p["delayed"] and rng.random() < 0.3:
        gappy = [stream[0]]
        for wd in stream[1:]:
            if rng.random() < 0.35:
                gappy += ["gap"] * rng.randint(1, 3)
                p["bubbles"] = True
            gappy.append(wd)
        stream = gappy
    p["stream"] = stream
    # aimed stall
    p["stall"] = None
    if rng.random() < 0.6:
        want = rng.choice(["hpstart", "dw0", "dw1", "dw2", "dw3", "dppstart", "first_payload", "mid_payload", "last_payload", "crc", "end", "abort"])
        idx = [i for i, ro in enumerate(roles) if ro == want]
        if idx:
            p["stall"] = (rng.choice(idx), rng.randint(1, 6))
    return p


def make_ready(rng, profile):
    kind = profile[0]
    if kind == "always":
        while True:
            yield 1
    elif kind == "random":
        while True:
            yield 1 if rng.random() < profile[1] else 0
    elif kind == "pulse":
        k = profile[1]
        i = rng.randrange(k)
        while True:
            i += 1
            yield 1 if i % k == 0 else 0
    else:
        while True:
            for _ in range(rng.randint(1, profile[2])):
                yield 1
            for _ in range(rng.randint(1, profile[1])):
                yield 0


def run_case(rng, tier, res):
    from amaranth import Module, Elaboratable, Signal, ResetInserter
    from luna.gateware.usb.usb3.link.transmitter import RawPacketTransmitter
    from luna.gateware.usb.usb3.link.receiver import RawHeaderPacketReceiver
    from luna.gateware.usb.usb3.link.data import DataPacketReceiver, DataPacketTransmitter

    L.selftest()

    class Harness(Elaboratable):
        def __init__(self):
            self.tx = RawPacketTransmitter()
            self.hrx = RawHeaderPacketReceiver()
            self.drx = DataPacketReceiver()
            self.dpt = DataPacketTransmitter()
            self.rx_rst = Signal()
            self.rx_valid = Signal()
            self.rx_data = Signal(32)
            self.rx_ctrl = Signal(4)

        def elaborate(self, platform):
            m = Module()
            m.submodules.tx = self.tx
            m.submodules.dpt = self.dpt
            m.submodules.hrx = ResetInserter({"ss": self.rx_rst})(self.hrx)
            m.submodules.drx = ResetInserter({"ss": self.rx_rst})(self.drx)
            for rx in (self.hrx, self.drx):
                m.d.comb += [rx.sink.valid.eq(self.rx_valid), rx.sink.data.eq(self.rx_data), rx.sink.ctrl.eq(self.rx_ctrl)]
            return m

    h = Harness()
    tx, hrx, drx = h.tx, h.hrx, h.drx
    n_packets = 80      # 16 quick cases = one round on 16 workers: elaborating 16 CRC-32 users side by side is what costs wall time
    plan = [gen_packet(rng, tier) for _ in range(n_packets)]
    profile = rng.choice([("always",), ("always",), ("random", 0.5), ("random", 0.8), ("random", 0.3), ("pulse", rng.randint(2, 4)),
                          ("bursty", 4, 6), ("bursty", 6, 3)])
    total_words = sum(len(p["words"]) for p in plan)
    b = Bench(h, domain="ss", freq=125e6, max_cycles=total_words * 14 + 4000)
    hd = tx.header
    hdr_sigs = [hd.dw0, hd.dw1, hd.dw2, hd.crc16, hd.sequence_number, hd.dw3_reserved, hd.hub_depth, hd.delayed, hd.deferred, hd.crc5]
    src = tx.source
    ds = tx.data_sink
    txs = [tx.generate, tx.done, src.valid, src.ready, src.data, src.ctrl, ds.valid, ds.ready, ds.data, ds.last]
    hp = hrx.packet
    rxs = [h.rx_valid, h.rx_rst, hrx.new_packet, hrx.bad_packet, hrx.bad_sequence,
           hp.dw0, hp.dw1, hp.dw2, hp.crc16, hp.sequence_number, hp.dw3_reserved, hp.hub_depth, hp.delayed, hp.deferred, hp.crc5,
           drx.packet_good, drx.packet_bad, drx.source.valid, drx.source.data]
    # the data receiver's header record is protocol-specific: flatten it (fields in layout order, LSB first)
    xfields = [(name, sig, len(sig)) for name, sig in drx.header.fields.items()]
    xsigs = [sig for (_, sig, _) in xfields]
    b.watch(*txs, *rxs, *xsigs)

    def drx_header():
        val, off, named = 0, 0, {}
        for name, sig, w in xfields:
            x = b.get(sig)
            val |= x << off
            off += w
            named[name] = x
        return dict(dw0=val & 0xFFFFFFFF, dw1=(val >> 32) & 0xFFFFFFFF, dw2=(val >> 64) & 0xFFFFFFFF, seq=named["sequence_number"],
                    rsvd=named["dw3_reserved"], hub=named["hub_depth"], delayed=named["delayed"], deferred=named["deferred"])
    res.desc = {"ready_profile": list(profile),
                "packets": [("%02x" % p["type"], p["n"], p["delayed"], p["style"], p["idle"], p["stall"]) for p in plan[:8]]}
    res.sig(profile, [(p["dw0"], p["dw1"], p["dw2"], p["seq"], p["rsvd"], p["hub"], p["delayed"], p["deferred"], p["payload"], p["style"],
                       p["idle"], p["data_early"], p["stall"]) for p in plan])

    # ------------------------------------------------------------------------------------------ shared state
    T = {"idle": True, "k": -1, "cur": None, "pos": 0, "feed": [], "feed_active": False, "stuck": False, "stall_left": 0,
         "observed": [], "accepted_words": 0}
    rxq = []          # replay jobs: dict(packet, words)
    RX = {"job": None, "results": []}

    def set_header(p, garbage=False):
        if garbage:
            vals = [rng.getrandbits(32), rng.getrandbits(32), rng.getrandbits(32), rng.getrandbits(16), rng.randrange(8), rng.randrange(8),
                    rng.randrange(8), rng.randrange(2), rng.randrange(2), rng.randrange(32)]
        else:
            vals = [p["dw0"], p["dw1"], p["dw2"], rng.getrandbits(16), p["seq"], p["rsvd"], p["hub"], p["delayed"], p["deferred"], rng.randrange(32)]
        for s, v in zip(hdr_sigs, vals):
            b.set(s, v)

    def classify(p, i, data, ctrl, wd, wc):
        role = p["roles"][i]
        if role == "hpstart":
            return "hpstart_wrong"
        if role in ("dw0", "dw1", "dw2"):
            return "header_word_wrong_not_latched" if p.get("scrambled") else "header_word_wrong"
        if role == "dw3":
            if ctrl != 0:
                return "dw3_ctrl_set"
            if (data & 0xFFFF) != (wd & 0xFFFF):
                return "header_crc16_wrong"
            if ((data >> 16) & 0x7FF) != ((wd >> 16) & 0x7FF):
                return "link_control_word_fields_wrong"
            return "link_control_word_crc5_wrong"
        if role == "dppstart":
            return "dppstart_wrong"
        if role == "abort":
            return "dpp_abort_framing_wrong"
        if role in ("first_payload", "mid_payload"):
            return "payload_word_wrong"
        n = p["n"]
        if role == "last_payload":
            lanes = n % 4 or 4
            mask = (1 << (8 * lanes)) - 1
            if ctrl != wc:
                return "payload_word_ctrl_wrong"
            if (data & mask) != (wd & mask):
                return "last_payload_bytes_wrong"
            return "crc32_wrong_in_last_payload_word_%dB" % lanes
        if role == "crc":
            lanes = n % 4
            if lanes == 0:
                return "crc32_wrong_aligned" if ctrl == wc else "crc32_word_ctrl_wrong"
            mask = (1 << (8 * lanes)) - 1
            if (data & mask) != (wd & mask):
                return "crc32_wrong_tail_%dB_payload" % lanes
            return "end_framing_wrong_after_crc_%dB_payload" % lanes
        if role == "end":
            return "end_framing_wrong"
        return "word_wrong"

    def viol(p, i, mech, detail):
        """narrow classification of the two known transmitter findings; everything else keeps its own mechanism"""
        if p is not None and p.get("bubble_hit") and (i is None or i >= 6):
            mech = "payload_stream_bubble_corrupts_packet"
        elif p is not None and p["type"] == 0x18 and mech == "unexpected_word" and T["pos"] >= 5:
            mech = "dpp_appended_to_header_of_reserved_type_0x18"
        else:
            res.violation(mech, detail)
            return
        if not p.get("known_reported"):          # one witness per packet is enough (the per-case list is capped)
            p["known_reported"] = True
            res.violation(mech, detail)

    def tx_monitor(b):
        generate, done, valid, ready, data, ctrl, dsv, dsr, dsd, dsl = (b.get(s) for s in txs)
        t = b.cycle
        was_idle = T["idle"]
        p = T["cur"]
        if valid and not ready and p is not None and T["pos"] < len(p["words"]):
            role = p["roles"][T["pos"]]
            res.bin({"hpstart": "stall_hpstart", "dw0": "stall_header_word", "dw1": "stall_header_word", "dw2": "stall_header_word",
                     "dw3": "stall_dw3", "dppstart": "stall_dppstart", "first_payload": "stall_first_payload_word",
                     "mid_payload": "stall_mid_payload_word", "last_payload": "stall_last_payload_word", "crc": "stall_crc_word",
                     "end": "stall_end_word", "abort": "stall_abort_word"}[role])
        if dsv and dsr:
            res.event("payload_words_accepted")
            T["accepted_words"] += 1
            if not T["feed"]:
                res.violation("payload_word_accepted_but_none_offered", "cycle %d" % t)
            else:
                while T["feed"] and T["feed"][0] == "gap":
                    T["feed"].pop(0)
                if T["feed"]:
                    T["feed"].pop(0)
        if valid and ready:
            res.event("words_transferred")
            if p is None or T["pos"] >= len(p["words"]):
                viol(p, None, "unexpected_word", "cycle %d: word %#010x ctrl=%x transferred, no packet word is due (packet %d)" % (t, data, ctrl, T["k"]))
            else:
                i = T["pos"]
                wd, wc = p["words"][i]
                res.event("words_compared")
                if (data, ctrl) != (wd, wc):
                    viol(p, i, classify(p, i, data, ctrl, wd, wc),
                                  "cycle %d packet#%d type=%#x len=%d delayed=%d word %d/%d (%s): got %#010x ctrl=%x expected %#010x ctrl=%x; stall=%r ready=%r" % (
                                      t, T["k"], p["type"], p["n"], p["delayed"], i, len(p["words"]), p["roles"][i], data, ctrl, wd, wc, p["stall"], profile))
                T["observed"].append((data, ctrl))
                T["pos"] += 1
        if done:
            res.event("done_strobes")
            if p is None or p.get("done"):
                res.violation("done_without_packet", "cycle %d" % t)
            else:
                if T["pos"] < len(p["words"]):
                    viol(p, T["pos"], "done_before_last_word", "cycle %d packet#%d: done with %d of %d words transferred (next role %s)" % (
                        t, T["k"], T["pos"], len(p["words"]), p["roles"][T["pos"]]))
                p["done"] = True
                res.event("packets_completed")
                T["idle"] = True
                rxq.append({"p": p, "k": T["k"], "words": list(T["observed"])})
                T["observed"] = []
                if p["type"] == L.HDR_TYPE_DATA and not p["delayed"] and T["feed"]:
                    viol(p, None, "payload_words_not_consumed", "packet#%d len=%d: %d payload words left when done" % (T["k"], p["n"], len(T["feed"])))
        if generate and was_idle:
            T["k"] += 1
            res.event("packets_requested")
            if T["k"] < len(plan):
                T["cur"] = plan[T["k"]]
                T["pos"] = 0
                T["idle"] = False

    def tx_driver():
        yield
        for k, p in enumerate(plan):
            # offer the payload stream (early or with the request)
            offer = bool(p["stream"]) and (not p["delayed"] or p["offer_data_when_delayed"])
            early = p["data_early"] if offer else 0
            idle = max(p["idle"], early)
            for j in range(idle):
                b.set(tx.generate, 0)
                if rng.random() < 0.5:
                    set_header(p, garbage=True)
                if offer and idle - j == early:
                    T["feed"] = list(p["stream"])
                    res.bin("data_offered_early")
                yield
            if p["idle"] == 0 and early == 0 and k:
                res.bin("back_to_back")
            if offer and not early:
                T["feed"] = list(p["stream"])
                res.bin("data_offered_with_request")
            if not offer:
                T["feed"] = []
            set_header(p)
            b.set(tx.generate, 1)
            yield
            if p["style"] == "strobe":
                b.set(tx.generate, 0)
                res.bin("request_strobe_header_scrambled")
            else:
                res.bin("request_level")
            bound = 16 * len(p["words"]) + 300
            waited = 0
            while True:
                if p["style"] == "strobe":
                    set_header(p, garbage=True)
                    p["scrambled"] = True
                if b.get(tx.done):
                    break
                waited += 1
                if waited > bound:
                    res.violation("packet_never_completes", "packet#%d type=%#x len=%d delayed=%d: no done within %d cycles, %d/%d words out (ready %r)" % (
                        k, p["type"], p["n"], p["delayed"], bound, T["pos"], len(p["words"]), profile))
                    T["stuck"] = True
                    return
                yield
            if p["delayed"] or p["type"] != L.HDR_TYPE_DATA:
                T["feed"] = []
        b.set(tx.generate, 0)
        # wait for the replay to finish
        for _ in range(6000):
            if not rxq and RX["job"] is None:
                break
            yield
        for _ in range(4):
            yield

    def update_feed():
        if T["feed"] and T["feed"][0] == "gap":
            # one bubble cycle: not valid, every other field is a don't-care (driven hostile)
            T["feed"].pop(0)
            T["bubble_cycles"] = T.get("bubble_cycles", 0) + 1
            if T["cur"] is not None:
                T["cur"]["bubble_hit"] = True
            b.set(ds.valid, 0); b.set(ds.data, rng.getrandbits(32)); b.set(ds.last, rng.randrange(2)); b.set(ds.first, rng.randrange(2))
        elif T["feed"]:
            d, lanes, first, last = T["feed"][0]
            b.set(ds.valid, lanes); b.set(ds.data, d); b.set(ds.first, first); b.set(ds.last, last)
        else:
            b.set(ds.valid, 0); b.set(ds.data, rng.getrandbits(32)); b.set(ds.last, rng.randrange(2)); b.set(ds.first, 0)

    def feed_driver():
        while True:
            update_feed()
            yield

    def ready_driver():
        g = make_ready(rng, profile)
        stalled_for = None
        left = 0
        while True:
            r = next(g)
            p = T["cur"]
            if p is not None and p["stall"] and not T["idle"]:
                idx, d = p["stall"]
                if T["pos"] == idx and stalled_for != (T["k"], idx):
                    stalled_for = (T["k"], idx)
                    left = d
                if left and stalled_for == (T["k"], idx) and T["pos"] == idx:
                    r = 0
                    left -= 1
            b.set(src.ready, r)
            yield

    # ------------------------------------------------------------------------------------------ receive side
    def rx_driver():
        while True:
            if not rxq:
                b.set(h.rx_valid, 0); b.set(h.rx_rst, 0)
                yield
                continue
            job = rxq.pop(0)
            RX["job"] = job
            job.update(new_packet=[], bad=0, badseq=0, good=[], drx_bad=0, bytes=[], t0=None)
            b.set(h.rx_valid, 0); b.set(h.rx_rst, 1); b.set(hrx.expected_sequence, job["p"]["seq"])
            yield
            b.set(h.rx_rst, 0)
            for (d, c) in job["words"]:
                b.set(h.rx_valid, 1); b.set(h.rx_data, d); b.set(h.rx_ctrl, c)
                res.event("rx_words_replayed")
                yield
            for _ in range(5):
                b.set(h.rx_valid, 1); b.set(h.rx_data, 0); b.set(h.rx_ctrl, 0)
                yield
            b.set(h.rx_valid, 0)
            yield
            judge_rx(job)
            RX["job"] = None

    def rx_monitor(b):
        job = RX["job"]
        if job is None:
            return
        v = [b.get(s) for s in rxs]
        (rv, rst, newp, badp, badseq, dw0, dw1, dw2, c16, seq, rsvd, hub, dl, df, c5, good, bad, sv, sd) = v
        if rst:
            return
        t = b.cycle
        if newp:
            res.event("rx_new_packet_strobes")
            job["new_packet"].append((t, dict(dw0=dw0, dw1=dw1, dw2=dw2, crc16=c16, seq=seq, rsvd=rsvd, hub=hub, delayed=dl, deferred=df, crc5=c5)))
        job["bad"] += badp
        job["badseq"] += badseq
        if good:
            res.event("rx_packet_good_strobes")
            if not job["good"]:
                job["good"].append((t, drx_header(), len(job["bytes"])))
        job["drx_bad"] += bad
        if sv:
            for i in range(4):
                if (sv >> i) & 1:
                    job["bytes"].append((sd >> (8 * i)) & 0xFF)

    def judge_rx(job):
        p = job["p"]
        want = dict(dw0=p["dw0"], dw1=p["dw1"], dw2=p["dw2"], seq=p["seq"], rsvd=p["rsvd"], hub=p["hub"], delayed=p["delayed"], deferred=p["deferred"])
        ctx = "packet#%d type=%#x len=%d delayed=%d words=%s" % (job["k"], p["type"], p["n"], p["delayed"],
                                                                 " ".join("%08x/%x" % w for w in job["words"][:10]))
        if job["bad"] or job["badseq"]:
            res.violation("rx_header_rejected", ctx + " bad_packet=%d bad_sequence=%d" % (job["bad"], job["badseq"]))
        elif not job["new_packet"]:
            res.violation("rx_header_not_received", ctx)
        else:
            got = dict(job["new_packet"][0][1])
            res.bin("rx_header_checked")
            dw3 = L.header_dw3(p["dw0"], p["dw1"], p["dw2"], p["seq"], p["rsvd"], p["hub"], p["delayed"], p["deferred"])
            c16, c5 = got.pop("crc16"), got.pop("crc5")
            if got != want:
                res.violation("rx_header_fields_differ", ctx + " got=%r want=%r" % (got, want))
            elif (c16, c5) != (dw3 & 0xFFFF, dw3 >> 27):
                res.violation("rx_header_crc_fields_differ", ctx + " crc16=%#x crc5=%#x" % (c16, c5))
        if p["type"] == L.HDR_TYPE_DATA and not p["delayed"]:
            if not job["good"]:
                viol(p, None, "rx_data_packet_not_good", ctx + " packet_bad strobes=%d bytes=%d" % (job["drx_bad"], len(job["bytes"])))
            else:
                t, hdr, nbytes = job["good"][0]
                got = bytes(job["bytes"][:nbytes])
                res.event("rx_payload_bytes_compared", len(got) + 1)
                res.bin("rx_payload_checked")
                if p["n"] == 0:
                    res.bin("rx_zero_length_good")
                if got != p["payload"]:
                    viol(p, None, "rx_payload_differs", ctx + " got %d bytes %s want %d bytes %s" % (len(got), got[:16].hex(), p["n"], p["payload"][:16].hex()))
                if hdr != want:
                    res.violation("rx_data_header_differs", ctx + " got=%r want=%r" % (hdr, want))
        elif p["type"] != L.HDR_TYPE_DATA and job["good"]:
            res.violation("rx_good_for_non_data_header", ctx)

    # ------------------------------------------------------------------------------------------ DataPacketTransmitter
    # (the block that produces the data header for a payload stream and hands the stream on; stand-alone, own drivers)
    dpt = h.dpt
    dsi, dso, dhs = dpt.data_sink, dpt.data_source, dpt.header_source
    dpt_sigs = [dsi.valid, dsi.ready, dsi.data, dsi.first, dsi.last, dso.valid, dso.ready, dso.data, dso.first, dso.last,
                dhs.valid, dhs.ready, dhs.header.dw0, dhs.header.dw1, dhs.header.dw2]
    b.watch(*dpt_sigs)
    dpt_plan = []
    for _ in range(60):
        n = rng.choice([0, rng.randint(1, 12), rng.randint(1, 12), rng.randint(13, 64)])
        dpt_plan.append({"n": n, "payload": bytes(rng.getrandbits(8) for _ in range(n)), "seq": rng.randrange(32), "ep": rng.randrange(16),
                         "addr": rng.randrange(128), "dir": rng.randrange(2), "params_early": rng.randrange(3), "hdr_delay": rng.choice([0, 0, 1, 3, 6])})
    res.sig([(q["n"], q["payload"], q["seq"], q["ep"], q["addr"], q["dir"]) for q in dpt_plan])
    P = {"queue": [], "hdr_k": 0, "cur": None, "src_ready_p": rng.choice([1.0, 0.7, 0.4])}

    def lanes_mask(v):
        return sum(0xFF << (8 * i) for i in range(4) if (v >> i) & 1)

    def dpt_monitor(b):
        (iv, ir, idat, ifirst, ilast, ov, ordy, odat, ofirst, olast, hv, hr, hdw0, hdw1, hdw2) = (b.get(x) for x in dpt_sigs)
        t = b.cycle
        if ov and not ordy:
            res.bin("dpt_source_stalled")
        if ov and ordy:
            res.event("dpt_words_out")
            if not P["queue"]:
                res.violation("dpt_payload_word_unexpected", "cycle %d: word %#010x lanes=%x on data_source, nothing pending" % (t, odat, ov))
            else:
                want = P["queue"].pop(0)
                got = (odat & lanes_mask(ov), ov, ofirst, olast)
                if got != want:
                    res.violation("dpt_payload_word_wrong", "cycle %d: data_source word %r, expected %r (data&lanes, lanes, first, last)" % (t, got, want))
        if iv and ir:
            P["queue"].append((idat & lanes_mask(iv), iv, ifirst, ilast))
        if hv and hr:
            res.event("dpt_headers")
            k = P["hdr_k"]
            P["hdr_k"] += 1
            if k >= len(dpt_plan):
                res.violation("dpt_header_extra", "cycle %d: header #%d but only %d packets were offered" % (t, k, len(dpt_plan)))
            else:
                q = dpt_plan[k]
                # USB 3.2 8.6 data packet header: DW0 type[4:0]=01000b, route string 0 (device -> host), address[31:25];
                # DW1 seq[4:0], direction[7], endpoint[11:8], data length[31:16]; DW2 0
                want = (L.HDR_TYPE_DATA | (q["addr"] << 25), q["seq"] | (q["dir"] << 7) | (q["ep"] << 8) | (q["n"] << 16), 0)
                if (hdw0, hdw1, hdw2) != want:
                    res.violation("dpt_header_field_wrong", "cycle %d packet#%d %r: header %08x %08x %08x expected %08x %08x %08x" % (
                        (t, k, {kk: q[kk] for kk in ("n", "seq", "ep", "addr", "dir")}, hdw0, hdw1, hdw2) + want))
                q["hdr_done"] = True

    def dpt_driver():
        yield
        for k, q in enumerate(dpt_plan):
            def params():
                b.set(dpt.sequence_number, q["seq"]); b.set(dpt.endpoint_number, q["ep"]); b.set(dpt.data_length, q["n"])
                b.set(dpt.address, q["addr"]); b.set(dpt.direction, q["dir"])
            for _ in range(q["params_early"]):
                params()
                yield
            params()
            if q["n"] == 0:
                res.bin("dpt_zlp")
                b.set(dpt.send_zlp, 1)
                yield
                b.set(dpt.send_zlp, 0)
            else:
                res.bin("dpt_packets")
                n = q["n"]
                for off in range(0, n, 4):
                    chunk = q["payload"][off:off + 4]
                    d = sum(bv << (8 * i) for i, bv in enumerate(chunk)) | (rng.getrandbits(32) & ~((1 << (8 * len(chunk))) - 1) & 0xFFFFFFFF)
                    b.set(dsi.valid, (1 << len(chunk)) - 1); b.set(dsi.data, d); b.set(dsi.first, int(off == 0)); b.set(dsi.last, int(off + 4 >= n))
                    for _w in range(400):
                        yield
                        if b.get(dsi.ready) and b.get(dsi.valid):
                            break
                    else:
                        res.violation("dpt_payload_word_never_accepted", "packet#%d word at offset %d" % (k, off))
                        return
                    if off == 0:
                        # parameters are latched when the stream starts; everything but the (live) address may change now
                        b.set(dpt.sequence_number, rng.randrange(32)); b.set(dpt.endpoint_number, rng.randrange(16))
                        b.set(dpt.data_length, rng.randrange(1025)); b.set(dpt.direction, rng.randrange(2))
                b.set(dsi.valid, 0)
            # wait until the header was taken and the stream has drained, then leave the mandatory gap between packets
            for _w in range(600):
                if q.get("hdr_done") and not P["queue"]:
                    break
                yield
            else:
                res.violation("dpt_packet_never_completes", "packet#%d n=%d: header taken=%r, %d words pending" % (k, q["n"], q.get("hdr_done"), len(P["queue"])))
                return
            for _ in range(rng.randint(3, 6)):
                yield

    def dpt_consumer():
        wait = None
        while True:
            b.set(dso.ready, 1 if rng.random() < P["src_ready_p"] else 0)
            hv, hr = b.get(dhs.valid), b.get(dhs.ready)
            if hv and hr:
                b.set(dhs.ready, 0)
                wait = None
            elif hv:
                if wait is None:
                    k = min(P["hdr_k"], len(dpt_plan) - 1)
                    wait = dpt_plan[k]["hdr_delay"]
                    if wait:
                        res.bin("dpt_header_accept_delayed")
                if wait == 0:
                    b.set(dhs.ready, 1)
                else:
                    wait -= 1
            else:
                b.set(dhs.ready, 0)
            yield

    b.add_monitor(dpt_monitor)
    b.add_driver(dpt_driver(), main=True)
    b.add_driver(dpt_consumer(), main=False)
    b.add_monitor(tx_monitor)
    b.add_monitor(rx_monitor)
    b.add_driver(tx_driver(), main=True)
    b.add_driver(feed_driver(), main=False)
    b.add_driver(ready_driver(), main=False)
    b.add_driver(rx_driver(), main=False)
    b.run()
    res.cycles = b.cycle
    if b.hit_max_cycles:
        res.violation("case_did_not_finish", "simulation hit max_cycles")
    if P["hdr_k"] != len(dpt_plan) and not any(v["mechanism"].startswith("dpt_") for v in res.violations):
        res.violation("dpt_header_missing", "%d packets offered, %d headers produced" % (len(dpt_plan), P["hdr_k"]))
    if not T["stuck"]:
        p = T["cur"]
        if p is not None and T["pos"] < len(p["words"]):
            viol(p, None, "words_missing", "end of case: packet#%d has %d of %d words transferred" % (T["k"], T["pos"], len(p["words"])))
        if T["k"] + 1 != len(plan):
            res.violation("request_ignored", "%d packets requested while idle, %d accepted" % (len(plan), T["k"] + 1))
        if rxq or RX["job"] is not None:
            res.violation("harness_replay_incomplete", "%d replay jobs left" % len(rxq))
    # ---- bins from the plan
    for p in plan:
        if not p.get("done"):
            continue
        if p["type"] == L.HDR_TYPE_DATA:
            if p["delayed"]:
                res.bin("delayed_abort")
                if p["stream"] and p["offer_data_when_delayed"]:
                    res.bin("delayed_abort_with_data_offered")
            else:
                res.bin("payload_len_mod4_%d" % (p["n"] % 4) if p["n"] else "zero_length_payload")
                if 1 <= p["n"] <= 4:
                    res.bin("single_word_payload")
                if p["n"] > 70:
                    res.bin("long_payload")
                if p.get("garbage_lanes"):
                    res.bin("garbage_in_unused_lanes")
            if p["n"] > 300 and not p["delayed"]:
                res.bin("payload_301_to_1020" if p["n"] <= 1020 else "payload_max_size")
            if p["bubbles"] and not p["delayed"]:
                res.bin("payload_stream_with_bubbles")
        else:
            res.bin({L.HDR_TYPE_TP: "header_tp", L.HDR_TYPE_LMP: "header_lmp", L.HDR_TYPE_ITP: "header_itp", 0x10: "header_reserved_type_bit4",
                     0x14: "header_reserved_type_bit4", 0x1C: "header_reserved_type_bit4", 0x18: "header_type_0x18"}[p["type"]])
    bn = res.bins
    res.nontrivial = bool(all(bn.get("payload_len_mod4_%d" % i) for i in range(4)) and bn.get("zero_length_payload") and bn.get("delayed_abort")
                          and bn.get("stall_crc_word") and bn.get("stall_end_word"))
