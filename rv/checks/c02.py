"""C02 — USB2 data packets are accepted iff their CRC16 is valid, payload intact.

DUTs (one per case, chosen by the case rng):
  * `USBDataPacketReceiver(utmi=UTMIInterface(), standalone=True)` (own CRC unit + interpacket timer, full speed),
  * the receiver wired by a small wrapper to a real `USBDataPacketCRC` and `USBInterpacketTimer` exactly as USBDevice does,
    with speed = HIGH (1-cycle inter-packet delay, packets 4 cycles apart); `standalone=True` cannot select HIGH,
  * the receiver inside a real `USBDevice` (12 MHz full-speed tables and the 60 MHz tables with `full_speed_only`), observed
    through a spy endpoint added with `add_endpoint()` (`rx.valid/next/payload`, `rx_complete`, `rx_invalid`,
    `rx_ready_for_response`, `rx_pid_toggle`) plus `packet_id` of the receiver instance (harness registry).  In the device
    the CRC unit and the interpacket timer are shared with the transmit path, so the spy endpoint also makes the device
    transmit (handshakes and short data packets) between the received packets.

Workload: a session of 30-70 UTMI receive packets, each built by a directed-random generator: good DATA0/1/2/MDATA packets
(lengths 0,1,2,3,7,8,9,63,64,65 and random up to 70, position-tagged / random / PID-look-alike payloads), single- and
multi-bit corruption in payload or either CRC byte, swapped / non-inverted / one-byte-late CRC, PID only, PID + 1 byte, 2 bytes that
are not the CRC of the empty payload, truncated and over-long packets, "nested" packets (a valid packet whose payload ends
in a valid CRC, i.e. a prefix that already looks complete), non-data PIDs followed by a body that is a valid data packet,
damaged PID check nibbles, rx_active pulses without any byte; rx_valid gap patterns none / fixed / random / one long stall,
plus stalls placed on purpose after the PID, before the first and before the second CRC byte, and trailing rx_active cycles;
inter-packet idle from the minimum the configured speed allows up to long pauses.

Monitors: one passive per-cycle monitor reconstructs every packet from the UTMI pins the DUT saw (rx_active edges, bytes
with rx_valid), and logs every stream transfer (`valid & next`), every `packet_complete`, `crc_mismatch`,
`ready_for_response` strobe and `packet_id` / `rx_pid_toggle` with its cycle.

Oracle (independent: reference PID check and bit-serial CRC16 from rv.ref): per packet, with D = bytes seen and n = len(D)-1,
  * streamed bytes == D[1:-2] iff D[0] is a valid DATA0/1/2/MDATA PID and n >= 2, otherwise none;
  * exactly one `packet_complete` iff valid data PID, n >= 2 and CRC16(D[1:-2]) == D[-2:]; exactly one `crc_mismatch` iff valid
    data PID, n >= 2 and CRC differs; n < 2: complete forbidden, mismatch not judged; non-data / damaged PID: neither;
    never both; strobes only after the last byte of the packet and after all of its stream bytes;
  * `ready_for_response` at most once per packet, never without / before the `packet_complete` of that packet, and (bounded
    liveness, only where >= 150 idle cycles follow) at least once after a completed packet;
  * `packet_id` (and `rx_pid_toggle` for DATA0/1) equals the PID at the completion strobe (or one cycle later).
Events are attributed to packet k when they occur between the rise of rx_active of packet k and that of packet k+1: no
latency is assumed beyond "before the next packet starts".

Not judged: behaviour when a new packet starts before the receive-to-transmit minimum delay of the configured speed has
elapsed (the receiver is then still in its inter-packet state; a USB bus cannot deliver a new SYNC that early), rx_valid
outside rx_active, rx_error, crc_mismatch for packets with fewer than two bytes after the PID, low speed.
(Probe, not part of the verdict: with idles shorter than that minimum the receiver is still waiting for `tx_allowed`, misses the
PID of the next packet and may take a payload byte for a PID; not reachable on a bus that obeys the inter-packet delays.)

Validation (tools/mut.py, 93 repository tests green unless noted): caught — SECOND_BYTE / FIRST_BYTE without return to IDLE,
device CRC advancing on rx_active, ready_for_response after a mismatch, rx_pid_toggle from active_pid[2], packet_id from
rx_data, last_word_crc updated outside rx_valid, mismatch suppressed when the last byte is 0, IRRELEVANT left on rx_valid low,
compare on 15 bits, PID check on 3 bits, no PID check, is_data on 1 bit, rx_complete gated by stream.valid, complete
pulsed together with mismatch.  Killed by the repository tests (and also caught): compare last_byte_crc, emit from
data_pipeline[8:], missing last_word_crc / last_byte_crc capture in the first two states, level ready_for_response.
Not a violation (held, as it should): active_pid written on every PID byte.
"""
from rv.sim import Bench, Registry
from rv.usb2host import UTMIHost, init_device_signals
from rv.ref import usb2 as U
from rv.ref.crc import usb2_crc16

PROPERTY = "C02"
CASES = {"quick": 400, "thorough": 6400}
RULE = ("case = one DUT configuration (standalone FS/HS, in-device 12 MHz / 60 MHz tables) + a session of 30-70 receive packets "
        "(good / corrupted / short / truncated / over-long / nested / non-data / damaged PID / empty activation) with directed-random "
        "rx_valid gap patterns and inter-packet idles, in-device with device transmissions in between; non-trivial = the session "
        "contains accepted, CRC-rejected and short or non-data packets; distinct = hash of configuration, packet bytes, gaps and idles")
REQUIRED_BINS = [
    "mode_standalone_fs", "mode_wrapped_hs", "mode_device_fs12", "mode_device_fs60",
    "accept_DATA0", "accept_DATA1", "accept_DATA2", "accept_MDATA",
    "accept_zlp", "accept_len1", "accept_len2", "accept_len_ge64",
    "reject_payload_bit", "reject_crc_byte0_bit", "reject_crc_byte1_bit", "reject_crc_swapped", "reject_bad_zlp",
    "reject_truncated", "reject_extended", "accept_nested",
    "short_pid_only", "short_one_byte", "empty_activation",
    "non_data_pid", "non_data_with_data_body", "damaged_pid_nibble",
    "good_after_reject", "good_after_short", "good_after_non_data", "reject_after_good",
    "gaps_none", "gaps_random", "gaps_fixed", "gaps_onestall",
    "stall_after_pid", "stall_before_crc0", "stall_before_crc1", "trailing_active_cycles",
    "minimum_idle_before_packet", "device_tx_between_packets",
]
REQUIRED_EVENTS = ["packets_judged", "stream_bytes_compared", "complete_strobes", "mismatch_strobes", "ready_strobes",
                   "packet_id_compared", "pid_toggle_compared", "ready_liveness_judged", "cycles_monitored"]
ASSUMPTIONS = [
    "rx_valid only while rx_active; rx_active rises >= 1 cycle before the first byte",
    "a new packet does not start before the receive-to-transmit minimum delay of the configured speed has elapsed "
    "(idle >= 14 cycles with the 60 MHz FS table, >= 4 at HS, >= 6 with the 12 MHz FS table)",
    "crc_mismatch is not judged for data packets with fewer than two bytes after the PID",
    "events are attributed to the packet whose rx_active rise precedes them; no other latency bound",
    "in-device: the host never transmits while the device does",
]

PIDNAME = {U.DATA0: "DATA0", U.DATA1: "DATA1", U.DATA2: "DATA2", U.MDATA: "MDATA"}
LENGTHS = [0, 0, 1, 1, 2, 2, 3, 4, 7, 8, 9, 16, 31, 32, 33, 63, 64, 64, 65, 70]
MIN_IDLE = {"standalone_fs": 14, "wrapped_hs": 4, "device_fs12": 6, "device_fs60": 14}


# ----------------------------------------------------------------------------- packet generator

def gen_payload(rng, n):
    style = rng.random()
    if style < 0.45:
        salt = rng.randrange(256)
        return bytes((salt + 37 * i + (i >> 8)) & 0xFF for i in range(n))   # every position distinct within 256 bytes
    if style < 0.75:
        return bytes(rng.randrange(256) for _ in range(n))
    if style < 0.85:
        return bytes([rng.choice([0x00, 0xFF])] * n)
    if style < 0.95:
        # bytes that look like PIDs
        return bytes(rng.choice([0xC3, 0x4B, 0x87, 0x0F, 0xD2, 0x69, 0xE1, 0x2D, 0xA5]) for _ in range(n))
    # payload which itself is a complete data packet
    inner = U.data(rng.choice(U.DATA_PIDS), bytes(rng.randrange(256) for _ in range(max(0, n - 3))))
    return inner[:n] if n else b""


def gen_packet(rng, tier="quick"):
    """returns (kind, bytes)"""
    r = rng.random()
    pid = rng.choice(U.DATA_PIDS)
    n = rng.choice(LENGTHS) if rng.random() < 0.7 else rng.randint(0, 70)
    if rng.random() < (0.02 if tier == "thorough" else 0.008):     # both tiers: byte-counter / maximum-size boundaries
        n = rng.choice([511, 512, 513, 1023, 1024])                  # high-speed bulk / isochronous sizes
    payload = gen_payload(rng, n)
    good = bytearray(U.data(pid, payload))
    if r < 0.30:
        return "good", bytes(good)
    if r < 0.50:
        k = rng.random()
        pkt = bytearray(good)
        if k < 0.30 and n:
            pkt[1 + rng.randrange(n)] ^= 1 << rng.randrange(8)
            return "payload_bit", bytes(pkt)
        if k < 0.45:
            pkt[-2] ^= 1 << rng.randrange(8)
            return "crc_byte0_bit", bytes(pkt)
        if k < 0.60:
            pkt[-1] ^= 1 << rng.randrange(8)
            return "crc_byte1_bit", bytes(pkt)
        if k < 0.70:
            if pkt[-1] == pkt[-2]:
                pkt[-1] ^= 0x80
            else:
                pkt[-1], pkt[-2] = pkt[-2], pkt[-1]
            return "crc_swapped", bytes(pkt)
        if k < 0.78:
            pkt[-1] ^= 0xFF
            pkt[-2] ^= 0xFF
            return "crc_not_inverted", bytes(pkt)
        if k < 0.86:
            # CRC of everything but the last payload byte (a CRC pipeline that is one byte late would accept this)
            c = usb2_crc16(payload[:-1]) if n else b"\x12\x34"
            if bytes(pkt[-2:]) == c:
                c = bytes([c[0] ^ 1, c[1]])
            pkt[-2:] = c
            return "crc_one_byte_late", bytes(pkt)
        if k < 0.93:
            for _ in range(rng.randint(2, 5)):
                pkt[rng.randrange(1, len(pkt))] ^= 1 << rng.randrange(8)
            return "multi_bit", bytes(pkt)
        # two flips in the same byte of the CRC field and payload (burst)
        i = rng.randrange(1, len(pkt))
        pkt[i] ^= 0x03 << rng.randrange(7)
        return "multi_bit", bytes(pkt)
    if r < 0.56:
        if rng.random() < 0.5:
            return "pid_only", bytes(good[:1])
        return "one_byte", bytes(good[:1]) + bytes([rng.choice([0x00, rng.randrange(256)])])
    if r < 0.60:
        b0, b1 = rng.randrange(256), rng.randrange(256)
        if (b0, b1) == (0, 0):
            b1 = 1 << rng.randrange(8)
        if rng.random() < 0.5:
            b0, b1 = rng.choice([(0, 1 << rng.randrange(8)), (1 << rng.randrange(8), 0), (0xFF, 0xFF)])
        return "bad_zlp", bytes([good[0], b0, b1])
    if r < 0.66:
        cut = rng.randint(1, min(3, len(good) - 1))
        return "truncated", bytes(good[:len(good) - cut])
    if r < 0.72:
        extra = bytes(rng.choice([0x00, rng.randrange(256)]) for _ in range(rng.randint(1, 3)))
        return "extended", bytes(good) + extra
    if r < 0.77:
        # payload' = payload + CRC(payload); packet = PID payload' CRC(payload'): valid, and its prefix is a valid packet too
        inner = payload[:min(n, 60)] if n <= 70 else payload
        p2 = inner + usb2_crc16(inner)
        return "nested", U.data(pid, p2)
    if r < 0.87:
        k = rng.random()
        if k < 0.35:
            return "non_data", U.token(rng.choice(U.TOKEN_PIDS), rng.randrange(128), rng.randrange(16))
        if k < 0.5:
            return "non_data", U.handshake(rng.choice(U.HANDSHAKE_PIDS))
        if k < 0.6:
            return "non_data", U.sof(rng.randrange(2048))
        # a non-data PID followed by what would be a perfectly valid data packet body
        npid = rng.choice(list(U.TOKEN_PIDS) + list(U.HANDSHAKE_PIDS) + [U.SOF, U.PRE, U.SPLIT, U.RESERVED])
        return "non_data_body", bytes([U.pid_byte(npid)]) + bytes(good[1:])
    if r < 0.94:
        pkt = bytearray(good)
        if rng.random() < 0.7:
            pkt[0] ^= 1 << rng.randrange(4, 8)          # check nibble damaged, low nibble still says DATAx
        else:
            pkt[0] ^= 1 << rng.randrange(2, 4)          # PID nibble damaged in the bits that select DATA0/1/2/M
        return "damaged_pid", bytes(pkt)
    if r < 0.97:
        return "empty", b""
    # valid packet whose payload ends with the data PID byte and zeros (alias attempts)
    p2 = payload + bytes([good[0], 0, 0])
    return "good", U.data(pid, p2[:70])


def gen_gaps(rng, n, profile):
    if profile == "none":
        g = [0] * n
    elif profile == "random":
        g = [rng.choice([0, 0, 1, 2, 3, 6]) for _ in range(n)]
    elif profile == "fixed":
        k = rng.randint(1, 4)
        g = [k] * n
    else:
        g = [0] * n
        if n:
            g[rng.randrange(n)] = rng.randint(5, 20)
    return g


# ----------------------------------------------------------------------------- DUT construction

def build_standalone():
    from luna.gateware.interface.utmi import UTMIInterface
    from luna.gateware.usb.usb2.packet import USBDataPacketReceiver
    utmi = UTMIInterface()
    dut = USBDataPacketReceiver(utmi=utmi, standalone=True)       # full speed, 60 MHz tables
    return dut, dut, utmi


def build_wrapped_hs():
    """The receiver with a real CRC unit and a real interpacket timer wired as USBDevice wires them, speed = HIGH.
    (standalone=True cannot select high speed: `if not self.speed` treats USBSpeed.HIGH == 0 as "not given".)"""
    from amaranth import Elaboratable, Module, Signal
    from luna.gateware.interface.utmi import UTMIInterface
    from luna.gateware.usb.usb2.packet import USBDataPacketReceiver, USBDataPacketCRC, USBInterpacketTimer

    class Wrapped(Elaboratable):
        def __init__(self):
            self.utmi = UTMIInterface()
            self.rcv = USBDataPacketReceiver(utmi=self.utmi)
            self.speed = Signal(2)        # reset value 0 = USBSpeed.HIGH; never driven

        def elaborate(self, platform):
            m = Module()
            m.submodules.rcv = self.rcv
            m.submodules.crc = crc = USBDataPacketCRC()
            m.submodules.timer = timer = USBInterpacketTimer()
            crc.add_interface(self.rcv.data_crc)
            timer.add_interface(self.rcv.timer)
            m.d.comb += [crc.rx_data.eq(self.utmi.rx_data), crc.rx_valid.eq(self.utmi.rx_valid), crc.tx_valid.eq(0),
                         timer.speed.eq(self.speed)]
            return m

    w = Wrapped()
    return w, w.rcv, w.utmi


def build_device(tables):
    from amaranth import Elaboratable, Module
    from luna.gateware.interface.utmi import UTMIInterface
    from luna.gateware.usb.usb2.device import USBDevice
    from luna.gateware.usb.usb2.endpoint import EndpointInterface

    class SpyEndpoint(Elaboratable):
        def __init__(self):
            self.interface = EndpointInterface()

        def elaborate(self, platform):
            return Module()

    utmi = UTMIInterface()
    dev = USBDevice(bus=utmi)
    if tables == "fs60":
        dev.always_fs = False
        dev.data_clock = 60e6
    other = SpyEndpoint()
    spy = SpyEndpoint()
    dev.add_endpoint(other)
    dev.add_endpoint(spy)
    return dev, utmi, spy


class Pkt:
    __slots__ = ("start", "end", "last_valid", "data", "kind", "idle_before")

    def __init__(self, start):
        self.start = start
        self.end = None
        self.last_valid = None
        self.data = bytearray()
        self.kind = None
        self.idle_before = None


# ----------------------------------------------------------------------------- the case

def run_case(rng, tier, res):
    mode = rng.choice(["standalone_fs", "wrapped_hs", "device_fs12", "device_fs60"])
    res.bin("mode_" + mode)
    in_device = mode.startswith("device")
    pid_sig = None
    toggle_sig = None
    if not in_device:
        top, dut, utmi = build_standalone() if mode == "standalone_fs" else build_wrapped_hs()
        b = Bench(top, domain="usb", freq=60e6, max_cycles=120000)
        host = UTMIHost(b, utmi, rng, timing="fs60", ready_profile="always")
        s_valid, s_next, s_payload = dut.stream.valid, dut.stream.next, dut.stream.payload
        complete, mismatch, ready = dut.packet_complete, dut.crc_mismatch, dut.ready_for_response
        pid_sig = dut.packet_id
        dev = spy = None
    else:
        from luna.gateware.usb.usb2.packet import USBDataPacketReceiver
        dev, utmi, spy = build_device(mode[-4:])
        with Registry(USBDataPacketReceiver) as reg:
            b = Bench(dev, domain="usb", freq=60e6, max_cycles=120000)
        rp = rng.choice(["always", "always", ("random", 0.6), ("every", 2)])
        host = UTMIHost(b, utmi, rng, timing=mode[-4:], ready_profile=rp)
        i = spy.interface
        s_valid, s_next, s_payload = i.rx.valid, i.rx.next, i.rx.payload
        complete, mismatch, ready = i.rx_complete, i.rx_invalid, i.rx_ready_for_response
        toggle_sig = i.rx_pid_toggle
        rcv = reg.one(USBDataPacketReceiver)
        if rcv is not None:
            pid_sig = rcv.packet_id
    watched = [utmi.rx_active, utmi.rx_valid, utmi.rx_data, s_valid, s_next, s_payload, complete, mismatch, ready]
    if pid_sig is not None:
        watched.append(pid_sig)
    if toggle_sig is not None:
        watched.append(toggle_sig)
    b.watch(*watched)
    if in_device:
        i = spy.interface
        b.watch(i.tx.valid, i.tx.ready)

    min_idle = MIN_IDLE[mode]
    gap_profile = rng.choice(["none", "random", "fixed", "onestall", "mixed", "mixed"])
    res.desc = {"mode": mode, "gap_profile": gap_profile, "packets": []}
    res.sig(mode, gap_profile)

    packets = []            # Pkt, reconstructed from the pins
    stream_ev = []          # (cycle, byte)
    strobes = {"c": [], "m": [], "r": []}
    pid_at = {}             # cycle -> packet_id value
    tog_at = {}
    st = {"prev_act": 0, "cur": None}
    sent_kinds = []         # generator's view, in order (kind, idle_before, gap notes)

    def monitor(b):
        cyc = b.cycle
        act, val = b.get(utmi.rx_active), b.get(utmi.rx_valid)
        res.event("cycles_monitored")
        if act and not st["prev_act"]:
            st["cur"] = Pkt(cyc)
            packets.append(st["cur"])
        if act and val:
            st["cur"].data.append(b.get(utmi.rx_data))
            st["cur"].last_valid = cyc
        if not act and st["prev_act"]:
            st["cur"].end = cyc
        st["prev_act"] = act
        if b.get(s_valid) and b.get(s_next):
            stream_ev.append((cyc, b.get(s_payload)))
        if b.get(complete):
            strobes["c"].append(cyc)
            res.event("complete_strobes")
        if b.get(mismatch):
            strobes["m"].append(cyc)
            res.event("mismatch_strobes")
        if b.get(ready):
            strobes["r"].append(cyc)
            res.event("ready_strobes")
        if pid_sig is not None:
            pid_at[cyc] = b.get(pid_sig)
        if toggle_sig is not None:
            tog_at[cyc] = b.get(toggle_sig)

    def device_transmit():
        """In-device: make the device transmit something (shared CRC unit / timer get used by the transmit path)."""
        i = spy.interface
        n0 = len(host.tx_packets)
        k = rng.random()
        if k < 0.35:
            sig = rng.choice([i.handshakes_out.ack, i.handshakes_out.nak, i.handshakes_out.stall])
            b.set(sig, 1)
            yield
            b.set(sig, 0)
        else:
            n = rng.choice([0, 1, 2, 3, 8, rng.randint(1, 12)])
            b.set(i.tx_pid_toggle, rng.randrange(4))
            if n == 0:
                b.set(i.tx.valid, 1); b.set(i.tx.last, 1); b.set(i.tx.first, 0)
                yield
                b.set(i.tx.valid, 0); b.set(i.tx.last, 0)
            else:
                data = [rng.randrange(256) for _ in range(n)]
                idx = 0
                b.set(i.tx.valid, 1); b.set(i.tx.first, 1); b.set(i.tx.last, n == 1); b.set(i.tx.payload, data[0])
                yield
                for _ in range(600):
                    if b.get(i.tx.valid) and b.get(i.tx.ready):
                        idx += 1
                        if idx >= n:
                            break
                        b.set(i.tx.payload, data[idx]); b.set(i.tx.first, 0); b.set(i.tx.last, idx == n - 1)
                    yield
                b.set(i.tx.valid, 0); b.set(i.tx.first, 0); b.set(i.tx.last, 0)
        for _ in range(400):
            if len(host.tx_packets) > n0 and host._cur is None:
                break
            yield
        if len(host.tx_packets) > n0:
            res.bin("device_tx_between_packets")
        yield from host.idle(rng.randint(2, 6))

    def driver():
        if in_device:
            init_device_signals(b, dev, utmi)
            if mode == "device_fs60":
                b.set(dev.full_speed_only, 1)
        yield from host.idle(rng.randint(3, 8))
        npk = rng.randint(30, 70)
        for k in range(npk):
            kind, pkt = gen_packet(rng, tier)
            n = len(pkt)
            prof = gap_profile if gap_profile != "mixed" else rng.choice(["none", "random", "fixed", "onestall"])
            gaps = gen_gaps(rng, n, prof)
            notes = [prof]
            # stalls placed at the positions where the receiver changes state
            if n >= 2 and rng.random() < 0.2:
                gaps[1] = rng.randint(1, 9); notes.append("after_pid")
            if n >= 3 and rng.random() < 0.2:
                gaps[n - 2] = rng.randint(1, 9); notes.append("before_crc0")
            if n >= 3 and rng.random() < 0.2:
                gaps[n - 1] = rng.randint(1, 9); notes.append("before_crc1")
            lead = rng.choice([1, 1, 1, 2, 3, 5])
            trail = rng.choice([0, 0, 0, 1, 2, 3, 7])
            if trail:
                notes.append("trail")
            sent_kinds.append((kind, notes))
            res.sig(kind, pkt, gaps, lead, trail)
            if len(res.desc["packets"]) < 10:
                res.desc["packets"].append([kind, pkt.hex(), lead, trail])
            yield from host.send_raw(pkt, gaps=gaps, lead=lead, trail=trail)
            # idle: send_raw already spent one cycle with rx_active low
            r = rng.random()
            if r < 0.45:
                idle = min_idle
            elif r < 0.85:
                idle = min_idle + rng.randint(1, 12)
            elif r < 0.95:
                idle = rng.randint(160, 220)         # long pause: ready_for_response liveness is judged here
            else:
                idle = min_idle + rng.randint(13, 60)
            if in_device and rng.random() < 0.3:
                # let the receiver finish its inter-packet wait, then have the device transmit
                yield from host.idle(max(idle, 40) - 1)
                yield from device_transmit()
                idle = min_idle + rng.randint(0, 6)
            res.sig(idle)
            yield from host.idle(idle - 1)
        yield from host.idle(200)

    b.add_monitor(monitor)
    b.add_driver(driver())
    b.run()
    res.cycles = b.cycle
    if b.hit_max_cycles:
        res.violation("harness_max_cycles", "case did not finish in %d cycles" % b.max_cycles)
        return
    judge(res, mode, packets, sent_kinds, stream_ev, strobes, pid_at, tog_at, min_idle, b.cycle)


# ----------------------------------------------------------------------------- oracle

def judge(res, mode, packets, sent_kinds, stream_ev, strobes, pid_at, tog_at, min_idle, end_cycle):
    if len(packets) != len(sent_kinds):
        res.violation("harness_packet_count", "monitor reconstructed %d packets, driver sent %d" % (len(packets), len(sent_kinds)))
        return
    first_start = packets[0].start if packets else end_cycle
    for name, key in (("stream byte", None), ("packet_complete", "c"), ("crc_mismatch", "m"), ("ready_for_response", "r")):
        evs = [c for c, _ in stream_ev] if key is None else strobes[key]
        early = [c for c in evs if c < first_start]
        if early:
            res.violation("event_before_any_packet", "%s at cycle %d before the first packet" % (name, early[0]))

    prev_class = None
    seen = {"accept": 0, "reject": 0, "other": 0}
    for k, p in enumerate(packets):
        kind, notes = sent_kinds[k]
        lo = p.start
        hi = packets[k + 1].start if k + 1 < len(packets) else end_cycle + 1
        D = bytes(p.data)
        n = len(D) - 1
        sb = [(c, v) for c, v in stream_ev if lo <= c < hi]
        nc = [c for c in strobes["c"] if lo <= c < hi]
        nm = [c for c in strobes["m"] if lo <= c < hi]
        nr = [c for c in strobes["r"] if lo <= c < hi]
        res.event("packets_judged")
        ctx = "mode=%s packet#%d kind=%s bytes=%s (cycles %d..%s) stream=%s complete@%s mismatch@%s ready@%s" % (
            mode, k, kind, D.hex(), lo, p.end, bytes(v for _, v in sb).hex(), nc, nm, nr)

        # ---- reference decision
        is_data = len(D) >= 1 and U.pid_valid(D[0]) and (D[0] & 0xF) in U.DATA_PIDS
        if is_data and n >= 2:
            exp_stream = D[1:-2]
            crc_ok = usb2_crc16(exp_stream) == D[-2:]
        else:
            exp_stream = b""
            crc_ok = False
        exp_complete = is_data and n >= 2 and crc_ok
        exp_mismatch = is_data and n >= 2 and not crc_ok

        # ---- stream content
        got = bytes(v for _, v in sb)
        res.event("stream_bytes_compared", len(exp_stream))
        if got != exp_stream:
            if not is_data:
                mech = "stream_bytes_for_non_data_packet"
            elif n < 2:
                mech = "stream_bytes_for_short_packet"
            elif len(got) < len(exp_stream):
                mech = "stream_bytes_missing"
            elif len(got) > len(exp_stream):
                mech = "stream_bytes_extra"
            else:
                mech = "stream_bytes_wrong"
            res.violation(mech, "%s expected stream=%s" % (ctx, exp_stream.hex()))

        # ---- strobes
        if nc and nm:
            res.violation("both_complete_and_mismatch", ctx)
        if exp_complete:
            if len(nc) == 0:
                res.violation("complete_missing_on_good_packet", ctx)
            elif len(nc) > 1:
                res.violation("complete_repeated", ctx)
            if nm:
                res.violation("mismatch_on_good_packet", ctx)
        elif exp_mismatch:
            if nc:
                res.violation("complete_on_bad_crc", ctx)
            if len(nm) == 0:
                res.violation("mismatch_missing_on_bad_crc", ctx)
            elif len(nm) > 1:
                res.violation("mismatch_repeated", ctx)
        elif is_data:
            if nc:
                res.violation("complete_on_short_packet", ctx)
        else:
            if nc:
                res.violation("complete_on_non_data_packet", ctx)
            if nm:
                res.violation("mismatch_on_non_data_packet", ctx)
        # order: strobes after the packet's last byte and after its stream bytes
        for c in nc + nm:
            if p.last_valid is not None and c <= p.last_valid:
                res.violation("strobe_before_packet_end", ctx)
            if sb and c < sb[-1][0]:
                res.violation("stream_byte_after_strobe", ctx)

        # ---- ready for response
        if len(nr) > 1:
            res.violation("ready_for_response_repeated", ctx)
        if nr:
            if not nc:
                res.violation("ready_for_response_without_complete", ctx)
            elif nr[0] < nc[0]:
                res.violation("ready_for_response_before_complete", ctx)
        elif exp_complete and nc and p.end is not None and hi - p.end >= 150:
            res.violation("ready_for_response_missing", ctx)
        if exp_complete and p.end is not None and hi - p.end >= 150:
            res.event("ready_liveness_judged")

        # ---- packet id / toggle at the completion strobe
        if exp_complete and len(nc) == 1:
            c = nc[0]
            pid = D[0] & 0xF
            if pid_at:
                res.event("packet_id_compared")
                if pid_at.get(c) != pid and pid_at.get(c + 1) != pid:
                    res.violation("packet_id_wrong", "%s packet_id=%s expected=%d" % (ctx, pid_at.get(c), pid))
            if tog_at and pid in (U.DATA0, U.DATA1):
                res.event("pid_toggle_compared")
                want = 1 if pid == U.DATA1 else 0
                if (tog_at.get(c, 0) & 1) != want and (tog_at.get(c + 1, 0) & 1) != want:
                    res.violation("rx_pid_toggle_wrong", "%s rx_pid_toggle=%s expected=%d" % (ctx, tog_at.get(c), want))

        # ---- coverage
        idle_before = (p.start - packets[k - 1].end) if k and packets[k - 1].end is not None else None
        if idle_before is not None and idle_before <= min_idle:
            res.bin("minimum_idle_before_packet")
        for nt in notes:
            if nt in ("none", "random", "fixed", "onestall"):
                if len(D) >= 4:
                    res.bin("gaps_" + nt)
            elif nt == "after_pid":
                res.bin("stall_after_pid")
            elif nt == "before_crc0":
                res.bin("stall_before_crc0")
            elif nt == "before_crc1":
                res.bin("stall_before_crc1")
            elif nt == "trail":
                res.bin("trailing_active_cycles")
        if exp_complete:
            cls = "accept"
            res.bin("accept_" + PIDNAME[D[0] & 0xF])
            ln = len(exp_stream)
            if ln == 0:
                res.bin("accept_zlp")
            elif ln == 1:
                res.bin("accept_len1")
            elif ln == 2:
                res.bin("accept_len2")
            elif ln >= 64:
                res.bin("accept_len_ge64")
            if kind == "nested":
                res.bin("accept_nested")
            if prev_class == "reject":
                res.bin("good_after_reject")
            elif prev_class == "short":
                res.bin("good_after_short")
            elif prev_class == "nondata":
                res.bin("good_after_non_data")
        elif exp_mismatch:
            cls = "reject"
            sub = {"payload_bit": "reject_payload_bit", "crc_byte0_bit": "reject_crc_byte0_bit", "crc_byte1_bit": "reject_crc_byte1_bit",
                   "crc_swapped": "reject_crc_swapped", "bad_zlp": "reject_bad_zlp", "truncated": "reject_truncated",
                   "extended": "reject_extended"}.get(kind)
            if sub:
                res.bin(sub)
            res.bin("reject_any")
            if prev_class == "accept":
                res.bin("reject_after_good")
        elif is_data:
            cls = "short"
            res.bin("short_pid_only" if n == 0 else "short_one_byte")
        elif len(D) == 0:
            cls = "nondata"
            res.bin("empty_activation")
        else:
            cls = "nondata"
            if U.pid_valid(D[0]):
                res.bin("non_data_pid")
                if kind == "non_data_body":
                    res.bin("non_data_with_data_body")
            else:
                res.bin("damaged_pid_nibble")
        seen["accept" if cls == "accept" else "reject" if cls == "reject" else "other"] += 1
        prev_class = cls
    res.nontrivial = all(seen.values())
