"""C57 - the ready-made USB serial (CDC-ACM) device carries bytes both ways and answers CDC requests.

DUT: the real `USBSerialDevice(bus=UTMIInterface(), idVendor, idProduct, manufacturer/product/serial strings,
max_packet_size in {8,16,32,64,256,512})` (12 MHz full-speed tables; imported through
`luna.full_devices` or `luna.gateware.usb.devices.acm`; `connect` high from the start or after 20..120 cycles low), inside a 10-line harness wrapper that either leaves the
`rx` / `tx` streams to the testbench ("separate": the testbench produces the tx stream and consumes the rx stream) or
wires rx -> tx the way luna's own acm_serial example does ("loopback", with a harness `pause` input gating both
valid and ready).

Workload: one case = one host session on one freshly elaborated device, driven at the UTMI boundary by the USB2
host model: (optional bus reset) - 0..2 GET_DESCRIPTOR(device, 8/18/64) at address 0 - SET_ADDRESS - a shuffled
enumeration script (device / configuration 9, total, 255, 64 / string 0 and every string index, read with 255 or
2-then-bLength / device qualifier / GET_STATUS / GET_CONFIGURATION / class and vendor requests) with
SET_CONFIGURATION at a random place - then a data phase of 50..130 randomly scheduled actions:
  bulk OUT packets of a byte plan cut into transfers aimed at the packet size (0, 1, mps-1, mps, mps+1, 2*mps, random,
  with/without terminating ZLP), sent good, CRC-corrupted or truncated (then retried), or with the device's ACK
  "lost" (same packet sent again); bulk IN polls answered with ACK, with no ACK because the host saw garbage, or with
  the ACK lost (host took the data, device must repeat, host discards the repeat); polls of the notification
  endpoint; SOFs; tokens / SETUP / ACKs for other device addresses (old address 0, one-bit neighbours); SET_LINE_CODING
  with 7 data bytes (data packet corrupted / its ACK lost / status ZLP not ACKed and fetched again); every other CDC
  request of the catalogue, random class requests, vendor requests (with the SET_LINE_CODING request code and one-bit
  neighbours of it), with no data stage, IN data stage and OUT data stage; GET_DESCRIPTOR / GET_CONFIGURATION again;
  CLEAR_FEATURE(ENDPOINT_HALT) on the data endpoints; SET_LINE_CODING while the receive FIFO is full, with bulk OUT packets
  (to be NAKed) between its SETUP and its data packet; and the packets of every control transfer interleaved with bulk
  transactions.  The data endpoints share one endpoint number, so "IN data not ACKed, then OUT to the same number, then
  the IN retry" is generated on purpose.  Stream side: producer gaps (full rate / sparse / bursty), `last` at transfer
  ends (aimed at full packets so that ZLPs occur), consumer ready profiles and directed long blocks (so that the
  receive FIFO fills and OUT packets are NAKed and retried).  35 % of the sessions end with a re-configuration
  (SET_CONFIGURATION again, or bus reset + SET_ADDRESS + SET_CONFIGURATION) followed by more data: the host then
  restarts all data toggles at DATA0 (USB 2.0 9.1.1.5).  Finally everything is drained.

Monitors: UTMI transmit capture of the host model (every packet the device sends), a per-cycle monitor of the
rx and tx stream handshakes (a beat is valid & ready).

Oracle (independent; nothing is taken from luna):
  * descriptors: parsed with a chapter-9 walker and validated for meaning (rv/ref/c57_acm.py): VID/PID/strings are
    the constructor's, one configuration, CDC communications interface (ACM) with header / union / call management
    functional descriptors naming the data interface and one interrupt IN endpoint, data interface with one bulk IN
    and one bulk OUT endpoint whose wMaxPacketSize is the constructor's; every shorter read is a prefix of the full
    one.  The host then talks to the endpoint addresses *the descriptors announce* - a device whose descriptors and
    endpoints disagree cannot pass.
  * SET_ADDRESS / SET_CONFIGURATION complete with a DATA1 ZLP, the device answers at the new address only,
    GET_CONFIGURATION returns the value set.
  * SET_LINE_CODING (class, host-to-device, bRequest 0x20, 7 bytes): SETUP ACK, data ACK, status DATA1 ZLP.
  * every other class request and every vendor request: never an ACK to its data packet, never data, never a ZLP
    status; STALL at the first data-stage IN or at the status IN (a host-to-device data packet may be left
    unanswered or STALLed - same reading as C10).
  * rx stream == the bytes of the OUT packets the device ACKed, once, in order; no byte of a damaged or NAKed packet;
    a good OUT data packet gets ACK or NAK; after the drain nothing is missing.
  * host-side reassembly of the IN endpoint (one packet per toggle) == the bytes accepted on the tx stream, in order;
    packets <= wMaxPacketSize with good CRC; a packet the host did not ACK is repeated unchanged; every IN token is
    answered by data or NAK; after the drain nothing is missing.
  * the notification endpoint answers NAK; nothing is transmitted for other addresses.
  * while `connect` is high the device presents itself to the host (UTMI term_select high = full-speed pull-up).
  * the endpoints the descriptor announces (direction, number, wMaxPacketSize - notification endpoint included) are the
    stream endpoints the device really built (constructor arguments captured by the harness registry); tokens for
    endpoint numbers that are not announced get no answer.
  * rx `last` is set exactly on the final byte of an OUT packet shorter than the announced wMaxPacketSize (this is what
    makes the receive endpoint's max_packet_size observable; luna's own loopback example relies on it).
  * SET_LINE_CODING-like requests the statement does not pin down (wLength 0/1/6/8/16/64, recipient device / endpoint /
    other): accepted or refused, but consistently (data ACKed -> DATA1 ZLP status, otherwise STALL at the status IN).

Mechanism names describe the symptom.  Three history patterns have their own names because they are defects of the
unchanged tree (findings/C57.md, known_findings.d/C57.json):
  out_toggle_not_reset_by_<set_configuration|bus_reset>, in_toggle_not_reset_by_<set_configuration|bus_reset>
      the failing packet is the first data packet on that endpoint after a re-configuration that found the endpoint's
      toggle at DATA1 (OUT: exactly the bytes of the first packet ACKed after it are missing from rx; IN: the first
      packet after it carries the toggle the host does not expect although nothing was left un-ACKed);
  refused_request_not_stalled_class_0x20_device_to_host
      class request with the SET_LINE_CODING code but device-to-host direction (it is an "other class request").
Both tails (re-configuration, the 0xA1/0x20 probe) run after the final drain of the session, i.e. after everything else
has been judged, so that they cannot mask anything.  The session stops at the first contradiction (device state unknown).

Deviations from DESIGN section 7: descriptors are judged by meaning instead of against `create_descriptors()`
(that is luna code); packet sizes 16 and 32, the loopback composition, re-configuration, CLEAR_FEATURE(ENDPOINT_HALT) and
the `connect` -> pull-up check were added.  DESIGN section-10 mutation "STALL handler claims class requests too" is an
equivalent mutant (StallOnlyRequestHandler never drives `claim`, the multiplexer's fallback handler does the stalling).

Not judged: rx `first` and the tx flags (C13), behaviour while `connect` is low, reserved-type requests (sent, any answer
accepted, the session must go on), bInterval beyond 1..255, IAD / call-management presence, exact NAK conditions and latencies (C11/C13), content of GET_STATUS, the
device-qualifier answer, behaviour with data in flight across a bus reset / SET_CONFIGURATION (the streams are drained
first, so a device that flushes its buffers there and one that keeps them both pass), timing other than the 60 MHz clock
with luna's 12 MHz full-speed tables (USBSerialDevice builds its USBDevice internally).
"""
from rv.sim import Bench
from rv.usb2host import UTMIHost, init_device_signals
from rv.ref import usb2 as U
from rv.ref import c57_acm as A

PROPERTY = "C57"
CASES = {"quick": 150, "thorough": 2400}
RULE = ("case = one host session on a fresh USBSerialDevice (packet size, strings, ids, separate|loopback streams, rx gap and "
        "tx_ready profiles): shuffled enumeration, then 50-130 scheduled actions (bulk OUT/IN packets with damaged / lost-ACK / "
        "no-ACK outcomes, CDC and vendor requests interleaved with bulk traffic, foreign traffic, stream back-pressure), optional "
        "re-configuration, drain; non-trivial = >= 4 OUT packets ACKed, >= 4 IN packets accepted, >= 1 SET_LINE_CODING and >= 2 "
        "stalled requests; distinct = hash of configuration and every step")
REQUIRED_BINS = ["mps_8", "mps_16", "mps_32", "mps_64", "mode_separate", "mode_loopback",
                 "enum_descriptor_at_address_0", "enum_config_9_then_total", "enum_config_255", "enum_string_2_then_length",
                 "enum_class_request_before_configuration", "enum_bus_reset_first",
                 "set_line_coding_ok", "slc_data_corrupt_then_retry", "slc_data_ack_lost", "slc_status_unacked", "slc_interleaved",
                 "stall_class_nodata", "stall_class_in", "stall_class_out", "stall_vendor_nodata", "stall_vendor_in", "stall_vendor_out",
                 "stall_near_miss_request", "stall_interleaved",
                 "out_zlp", "out_full_packet", "out_short_packet", "out_nak", "out_corrupt", "out_truncated", "out_lost_ack_repeat",
                 "in_zlp", "in_full_packet", "in_short_packet", "in_nak", "in_garbage_retry", "in_lost_ack_duplicate",
                 "unacked_in_then_out_same_number", "unacked_in_then_control", "unacked_in_then_foreign_ack",
                 "slc_while_out_endpoint_naks", "notify_poll", "sof", "foreign_address", "old_address_probe", "sink_blocked", "clear_halt",
                 "reconf_set_configuration", "reconf_bus_reset", "descriptor_reread_in_data_phase", "class_0x20_device_to_host",
                 "mps_256", "mps_512", "rx_last_seen", "unannounced_endpoint_probe", "slc_variant_wlength_0", "slc_variant_with_data",
                 "reserved_type_request", "connect_low_first", "import_full_devices", "import_acm"]
REQUIRED_EVENTS = ["sessions", "descriptors_validated", "strings_validated", "control_transfers", "stalls_judged",
                   "set_line_codings_judged", "out_packets_acked", "rx_bytes_checked", "tx_bytes_accepted", "in_packets_accepted",
                   "in_bytes_checked", "notify_naks", "device_packets_seen", "drains_completed", "cycles_monitored", "cycles_presented_to_host",
                   "rx_last_flags_judged", "built_endpoints_compared", "slc_variants_judged"]
ASSUMPTIONS = [
    "legal host: one transaction at a time, waits for the answer or the response window, bulk traffic only while configured",
    "host timing: 2-8 idle cycles between transactions, ACK 1-4 cycles after a device packet, device answers within 40 cycles",
    "a request that must be STALLed may leave a host-to-device data packet unanswered (no handshake) as long as it is never "
    "ACKed and the status IN is STALLed (the reading C10 uses)",
    "descriptors are judged for meaning (USB 2.0 ch. 9, CDC 1.2), not for a byte image",
    "after a re-configuration the host restarts the toggles of both data endpoints at DATA0 [USB 2.0 9.1.1.5]",
    "the session stops at its first contradiction",
    "rx `last` follows the documented stream semantics of the OUT endpoint: final byte of a packet shorter than wMaxPacketSize",
    "max_packet_size 256 and 512 (the values the class docstring names) are run on the same full-speed timing; luna does not restrict them to high speed",
    "the comparison descriptor <-> built endpoints reads the constructor arguments (_endpoint_number, _max_packet_size) of the real "
    "USBStreamInEndpoint / USBStreamOutEndpoint objects; if they cannot be read the run is inconclusive, not held",
]
TIMEOUT = {"quick": 3000, "thorough": 6 * 3600}

WORDS = ["LUNA", "USB-to-serial", "ACM", "Great Scott Gadgets", "x", "serial éüΩ", "0001", "A" * 31, "port-7", "串口"]


# ---------------------------------------------------------------------------------------------- DUT
def build(cfg):
    from amaranth import Elaboratable, Module, Signal
    from luna.gateware.interface.utmi import UTMIInterface
    if cfg["import_path"] == "full_devices":
        from luna.full_devices import USBSerialDevice          # the documented shortcut
    else:
        from luna.gateware.usb.devices.acm import USBSerialDevice

    utmi = UTMIInterface()
    dev = USBSerialDevice(bus=utmi, idVendor=cfg["vid"], idProduct=cfg["pid"], manufacturer_string=cfg["manufacturer"],
                          product_string=cfg["product"], serial_number=cfg["serial"], max_packet_size=cfg["mps"])

    class Top(Elaboratable):
        """harness glue: optional loopback of rx into tx (as luna's acm_serial example), gated by `pause`"""

        def __init__(self):
            self.pause = Signal()
            self.connect = dev.connect

        def elaborate(self, platform):
            m = Module()
            m.submodules.serial = dev
            if cfg["mode"] == "loopback":
                m.d.comb += [
                    dev.tx.payload.eq(dev.rx.payload),
                    dev.tx.valid.eq(dev.rx.valid & ~self.pause),
                    dev.tx.first.eq(dev.rx.first),
                    dev.tx.last.eq(dev.rx.last),
                    dev.rx.ready.eq(dev.tx.ready & ~self.pause),
                ]
            return m

    return Top(), dev, utmi


def draw_config(rng):
    mps = rng.choice([8, 8, 16, 32, 64, 64, 256, 512, rng.choice([256, 512])])
    return {
        "mps": mps,
        "import_path": rng.choice(["acm", "full_devices"]),
        "connect_low_first": rng.choice([0, 0, 0, rng.randint(20, 120)]),
        "mode": rng.choice(["separate", "separate", "loopback"]),
        "vid": rng.choice([0x1209, 0x16D0, rng.randrange(1, 0x10000)]),
        "pid": rng.randrange(1, 0x10000),
        "manufacturer": rng.choice(WORDS),
        "product": rng.choice(WORDS),
        "serial": rng.choice(["", "", rng.choice(WORDS), "%08x" % rng.randrange(1 << 32)]),
        "gap_profile": rng.choice(["none", "none", "random", "fixed4", "onestall"]),
        "ready_profile": rng.choice(["always", "always", ("random", 0.7), ("every", 2), ("bursty", 3, 6)]),
        "sink_profile": rng.choice(["always", "always", ("random", 0.5), ("random", 0.15), ("bursty", 120, 30), ("bursty", 20, 20)]),
        "p_inter": rng.choice([0.0, 0.3, 0.6]),
    }


def make_out_plan(rng, mps):
    """list of packet lengths (transfers cut into packets) and the byte string"""
    packets = []
    total = 0
    budget = rng.choice([0, 40, 120, 200, 300, 300]) if mps <= 64 else rng.choice([mps, mps + 1, 2 * mps + 3, 2 * mps - 1])
    while total < budget or not packets:
        n = rng.choice([0, 1, 2, mps - 1, mps, mps + 1, 2 * mps, 2 * mps + 1, 3 * mps, rng.randint(1, 4 * mps), rng.randint(1, 300)])
        n = min(n, max(budget - total, 0)) if budget else 0
        k = n
        while k >= mps:
            packets.append(mps)
            k -= mps
        if k or n == 0 or rng.random() < 0.5:
            packets.append(k)          # short packet, or a terminating ZLP after full packets
        total += n
        if budget == 0:
            break
    data = bytes(rng.randrange(256) for _ in range(total))
    return packets, data


def make_tx_plan(rng, mps):
    """list of [byte, last, gap]"""
    plan = []
    budget = rng.choice([0, 30, 100, 200, 300, 300]) if mps <= 64 else rng.choice([mps, mps + 1, 2 * mps + 3, 2 * mps - 1])
    gap_mode = rng.choice(["full", "full", "sparse", "bursty"])
    burst = 0
    while len(plan) < budget:
        n = rng.choice([1, 2, mps - 1, mps, mps, mps + 1, 2 * mps, 2 * mps + 1, rng.randint(1, 4 * mps), rng.randint(1, 300)])
        n = min(n, budget - len(plan))
        use_last = rng.random() < 0.8
        for i in range(n):
            if gap_mode == "full":
                g = 0 if rng.random() < 0.97 else rng.randint(1, 5)
            elif gap_mode == "sparse":
                g = rng.randint(0, 9)
            else:
                if burst == 0:
                    g, burst = rng.randint(10, 120), rng.randint(1, 2 * mps)
                else:
                    g = 0
                burst -= 1
            plan.append([rng.randrange(256), 1 if (use_last and i == n - 1) else 0, g])
    if plan:
        plan[-1][1] = 1          # the stream ends with `last`, so that everything can be drained
    return plan, gap_mode


# ---------------------------------------------------------------------------------------------- session
class Session:
    def __init__(self, b, host, rng, res, cfg, top, dev, utmi):
        self.b, self.host, self.rng, self.res, self.cfg = b, host, rng, res, cfg
        self.top, self.dev, self.utmi = top, dev, utmi
        self.loop = cfg["mode"] == "loopback"
        self.mps = cfg["mps"]
        self.failed = False
        self.steps = []
        self.addr = 0
        self.configured = False
        self.data_phase = False
        self.mps0 = 64
        self.dev_info = None
        self.info = None
        self.full = {}
        self.partial = {}
        self.langid = 0x0409
        self.strings = {}
        # OUT path
        self.out_packets, self.out_plan = make_out_plan(rng, self.mps)
        self.out_idx = 0
        self.out_pos = 0
        self.out_toggle = 0
        self.out_inflight = 0
        self.out_dev_acked = False
        self.rx_seen = bytearray()
        # IN path
        self.tx_plan, self.tx_gap_mode = ([], "loopback") if self.loop else make_tx_plan(rng, self.mps)
        self.tx_sent = 0
        self.src = bytearray()
        self.in_seen = 0
        self.in_toggle = 0
        self.in_unacked = None
        self.in_packets_since_reconf = 0
        self.out_acked_since_reconf = 0
        self.reconf = None
        # sink
        self.block_cycles = 0
        self.drain = False
        self.prefer_out = 0
        self.hold_tx = False
        self.tx_parked = self.loop

    # ------------------------------------------------------------------ helpers
    def viol(self, mech, detail):
        if not self.failed:
            self.res.violation(mech, "%s | last steps: %s" % (detail, self.steps[-10:]))
        self.failed = True

    def step(self, *a):
        self.steps.append(a if len(a) > 1 else a[0])
        self.res.sig(a)

    def gap(self):
        yield from self.host.gap()

    @staticmethod
    def is_hs(r, pid):
        return r.get("kind") == "handshake" and r.get("pid") == pid

    @staticmethod
    def show(r):
        if r.get("kind") == "data":
            return "DATA%d(%s)" % (1 if r["pid"] == U.DATA1 else 0, bytes(r["payload"]).hex())
        if r.get("kind") == "handshake":
            return U.PID_NAMES[r["pid"]]
        return r.get("kind")

    # ------------------------------------------------------------------ stream side
    def monitor(self, b):
        dev = self.dev
        self.res.event("cycles_monitored")
        if self.connect_at is not None and b.cycle > self.connect_at + 16:
            # `connect` is held high by the harness: the device has to present itself (full-speed pull-up = UTMI TermSelect)
            if b.get(self.utmi.term_select):
                self.res.event("cycles_presented_to_host")
            elif not self.failed:
                self.viol("not_presented_to_host", "cycle %d: connect is asserted but UTMI term_select is low (no pull-up, a host never sees the device)" % b.cycle)
        if b.get(dev.rx.valid) and b.get(dev.rx.ready):
            self.on_rx(b.get(dev.rx.payload), b.get(dev.rx.last))
        if b.get(dev.tx.valid) and b.get(dev.tx.ready):
            self.src.append(b.get(dev.tx.payload))
            self.res.event("tx_bytes_accepted")

    def expected_last(self, idx):
        """rx `last` marks the final byte of an OUT packet shorter than the announced wMaxPacketSize (end of a host transfer)"""
        if self.last_at is None or self.last_at[0] != len(self.out_packets):
            pos, ends = 0, set()
            for n in self.out_packets:
                pos += n
                if 0 < n < self.mps:
                    ends.add(pos - 1)
            self.last_at = (len(self.out_packets), ends)
        return idx in self.last_at[1]

    last_at = None

    def on_rx(self, byte, last=None):
        if self.failed:
            return
        idx = len(self.rx_seen)
        self.rx_seen.append(byte)
        if last is not None and idx < self.out_pos + self.out_inflight and byte == self.out_plan[idx]:
            if bool(last) != self.expected_last(idx):
                return self.viol("rx_last_flag_wrong", "rx beat %d has last=%d; it %s the final byte of an OUT packet shorter than wMaxPacketSize %d (packet sizes %s)"
                                 % (idx, last, "is" if self.expected_last(idx) else "is not", self.mps, self.out_packets[:12]))
            self.res.event("rx_last_flags_judged")
            if last:
                self.res.bin("rx_last_seen")
        if idx >= self.out_pos + self.out_inflight:
            self.viol(self.classify_out("rx_byte_without_accepted_packet", idx, byte),
                      "rx beat %d (0x%02x) but the host has only had %d bytes accepted (+%d in flight)" % (idx, byte, self.out_pos, self.out_inflight))
        elif byte != self.out_plan[idx]:
            self.viol(self.classify_out("rx_stream_wrong_byte", idx, byte),
                      "rx beat %d is 0x%02x, the host wrote 0x%02x there (rx so far ...%s, written ...%s)"
                      % (idx, byte, self.out_plan[idx], bytes(self.rx_seen[-6:]).hex(), self.out_plan[max(0, idx - 5):idx + 1].hex()))
        else:
            self.res.event("rx_bytes_checked")

    def classify_out(self, mech, idx, byte):
        """the known pattern: the first OUT packet ACKed after a re-configuration that found the toggle at DATA1 is lost"""
        rc = self.reconf
        if rc and rc["out_desync"] and rc["first_out_len"] and idx == rc["out_pos"]:
            j = idx + rc["first_out_len"]
            if j < len(self.out_plan) and self.out_plan[j] == byte:
                return "out_toggle_not_reset_by_" + rc["kind"]
        return mech

    def producer(self):
        """tx stream producer (separate mode): valid/payload/last held until ready"""
        b, tx = self.b, self.dev.tx
        while True:
            at_boundary = self.tx_sent == 0 or self.tx_plan[self.tx_sent - 1][1]
            if self.tx_sent >= len(self.tx_plan) or (self.hold_tx and at_boundary):
                self.tx_parked = True
                yield
                continue
            self.tx_parked = False
            byte, last, g = self.tx_plan[self.tx_sent]
            if self.drain:
                g = min(g, 2)
            for _ in range(g):
                yield
            b.set(tx.valid, 1)
            b.set(tx.payload, byte)
            b.set(tx.last, last)
            b.set(tx.first, 0)
            while True:
                yield
                if b.get(tx.valid) and b.get(tx.ready):
                    break
            self.tx_sent += 1
            b.set(tx.valid, 0)
            b.set(tx.last, 0)

    def sink(self):
        """consumer of the rx stream (separate) / pause input (loopback)"""
        b, rng, prof = self.b, self.rng, self.cfg["sink_profile"]
        sig = self.top.pause if self.loop else self.dev.rx.ready
        run = 0
        val = 1
        while True:
            if self.drain:
                v = 1
            elif self.block_cycles > 0:
                self.block_cycles -= 1
                v = 0
            elif prof == "always":
                v = 1
            elif prof[0] == "random":
                v = 1 if rng.random() < prof[1] else 0
            else:
                if run == 0:
                    val ^= 1
                    run = rng.randint(1, prof[1] if val == 0 else prof[2])
                run -= 1
                v = val
            b.set(sig, (1 - v) if self.loop else v)
            yield

    # ------------------------------------------------------------------ bulk OUT
    def out_remaining(self):
        return self.out_idx < len(self.out_packets)

    def out_step(self, fault=None):
        host, rng = self.host, self.rng
        if not self.out_remaining() or self.failed:
            return
        n = self.out_packets[self.out_idx]
        payload = self.out_plan[self.out_pos:self.out_pos + n]
        pid = U.DATA1 if self.out_toggle else U.DATA0
        ep = self.info["ep_out"]
        if fault is None:
            fault = "good" if self.out_dev_acked else rng.choice(["good"] * 7 + ["corrupt", "truncated", "lostack"])
        self.step("OUT", n, fault)
        if self.in_unacked is not None:
            self.res.bin("unacked_in_then_out_same_number")
        self.res.bin("out_zlp" if n == 0 else ("out_full_packet" if n == self.mps else "out_short_packet"))
        if fault in ("corrupt", "truncated"):
            pkt = bytearray(U.data(pid, payload))
            yield from host.token(U.OUT, self.addr, ep)
            yield from host.idle(rng.randint(1, 4))
            if fault == "corrupt":
                i = rng.randrange(1, len(pkt))
                pkt[i] ^= 1 << rng.randrange(8)
                yield from host.send_raw(bytes(pkt))
            else:
                k = rng.randint(1, len(pkt) - 1)
                if U.classify(bytes(pkt[:k]))["kind"] == "data":
                    k = 1
                yield from host.send_raw(bytes(pkt), abort_after=k)
            self.res.bin("out_" + fault)
            r = yield from host.wait_response()
            if r is not None and self.is_hs(U.classify(r.data), U.ACK):
                self.viol("damaged_out_packet_acked", "%s data packet on the OUT endpoint was ACKed" % fault)
            yield from self.gap()
            return
        self.out_inflight = n
        r = yield from host.out_transaction(self.addr, ep, pid, payload)
        yield from self.gap()
        if self.is_hs(r, U.ACK):
            if fault == "lostack" and not self.out_dev_acked:
                self.out_dev_acked = True           # the host did not see this ACK: same packet again later
                self.res.bin("out_ack_lost")
                return
            if self.out_dev_acked:
                self.res.bin("out_lost_ack_repeat")
            self.out_dev_acked = False
            self.out_pos += n
            self.out_idx += 1
            self.out_toggle ^= 1
            self.out_inflight = 0
            self.res.event("out_packets_acked")
            self.acked_packets = getattr(self, "acked_packets", 0) + 1
            if self.reconf and self.reconf["first_out_len"] is None:
                self.reconf["first_out_len"] = n
        elif self.is_hs(r, U.NAK):
            self.res.bin("out_nak")
            if not self.out_dev_acked:
                self.out_inflight = 0
                if len(self.rx_seen) > self.out_pos:
                    self.viol("rx_delivered_bytes_of_naked_packet", "OUT packet NAKed but %d of its bytes reached the rx stream" % (len(self.rx_seen) - self.out_pos))
        elif r.get("kind") == "timeout":
            self.viol("out_data_no_handshake", "good OUT data packet (%d bytes, DATA%d) to the data endpoint got no handshake" % (n, self.out_toggle))
        else:
            self.viol("out_data_bad_response", "good OUT data packet answered with %s" % self.show(r))

    # ------------------------------------------------------------------ bulk IN
    def in_step(self, mode=None):
        host, rng = self.host, self.rng
        if self.failed:
            return
        ep = self.info["ep_in"]
        if mode is None:
            mode = rng.choice(["ack"] * 7 + ["garbage", "lostack", "lostack"])
        self.step("IN", mode)
        had_unacked = self.in_unacked
        r = yield from host.in_transaction(self.addr, ep, ack="ack" if mode == "ack" else "none")
        yield from self.gap()
        k = r.get("kind")
        if k == "timeout":
            return self.viol("in_token_not_answered", "IN token to the data endpoint got neither data nor NAK")
        if k == "handshake":
            if r["pid"] == U.NAK:
                self.res.bin("in_nak")
                return
            return self.viol("in_bad_handshake", "IN token to the data endpoint answered with %s" % self.show(r))
        if k != "data":
            return self.viol("in_packet_malformed", "IN data endpoint sent %s %s" % (k, bytes(r["pkt"].data).hex()))
        pid, payload = r["pid"], bytes(r["payload"])
        if pid not in (U.DATA0, U.DATA1):
            return self.viol("in_bad_data_pid", "IN data endpoint sent PID %s" % U.PID_NAMES[pid])
        if len(payload) > self.mps:
            return self.viol("in_packet_longer_than_max_packet_size", "%d bytes, wMaxPacketSize %d" % (len(payload), self.mps))
        self.res.event("device_packets_seen")
        first_since_reconf = self.in_packets_since_reconf == 0
        self.in_packets_since_reconf += 1
        if had_unacked is not None and (pid, payload) != had_unacked:
            return self.viol("in_retransmission_differs", "host did not ACK DATA%d(%s); the device then sent DATA%d(%s)"
                             % (1 if had_unacked[0] == U.DATA1 else 0, had_unacked[1].hex(), 1 if pid == U.DATA1 else 0, payload.hex()))
        exp = U.DATA1 if self.in_toggle else U.DATA0
        if pid != exp:
            # a repeat of something the host already has: discarded (and ACKed when the host answers)
            if had_unacked is None:
                rc = self.reconf
                mech = "in_unexpected_data_toggle"
                if rc and rc["in_desync"] and first_since_reconf:
                    mech = "in_toggle_not_reset_by_" + rc["kind"]
                return self.viol(mech, "host expects DATA%d, device sent DATA%d(%s) although nothing was left un-ACKed" % (self.in_toggle, self.in_toggle ^ 1, payload.hex()))
            self.res.bin("in_lost_ack_duplicate")
            if mode == "ack":
                self.in_unacked = None
            return
        if mode == "garbage":
            self.in_unacked = (pid, payload)       # host could not read it: not taken, not ACKed
            self.res.bin("in_garbage_first")
            return
        if had_unacked is not None:
            self.res.bin("in_garbage_retry")
        for i, x in enumerate(payload):
            idx = self.in_seen + i
            if idx >= len(self.src):
                return self.viol("in_byte_never_written_to_tx", "host received byte %d (0x%02x), only %d bytes were accepted on the tx stream" % (idx, x, len(self.src)))
            if x != self.src[idx]:
                return self.viol("in_stream_wrong_byte", "host byte %d is 0x%02x, tx stream byte %d was 0x%02x (packet %s, tx ...%s)"
                                 % (idx, x, idx, self.src[idx], payload.hex(), bytes(self.src[max(0, idx - 4):idx + 4]).hex()))
        self.in_seen += len(payload)
        self.in_toggle ^= 1
        self.res.event("in_packets_accepted")
        self.res.event("in_bytes_checked", len(payload))
        self.accepted_in = getattr(self, "accepted_in", 0) + 1
        self.res.bin("in_zlp" if not payload else ("in_full_packet" if len(payload) == self.mps else "in_short_packet"))
        self.in_unacked = (pid, payload) if mode == "lostack" else None

    # ------------------------------------------------------------------ other atomic traffic
    def notify_poll(self):
        self.step("NOTIFY")
        self.res.bin("notify_poll")
        r = yield from self.host.in_transaction(self.addr, self.info["ep_notify"], ack="none")
        yield from self.gap()
        if self.is_hs(r, U.NAK):
            self.res.event("notify_naks")
        else:
            self.viol("notification_endpoint_not_nak", "IN token to the notification endpoint answered with %s" % self.show(r))

    def sof(self):
        self.step("SOF")
        self.res.bin("sof")
        n0 = len(self.host.tx_packets)
        yield from self.host.sof(self.rng.randrange(2048))
        yield from self.host.idle(self.rng.randint(3, 20))
        if len(self.host.tx_packets) > n0:
            self.viol("answered_sof", "device transmitted after a SOF")

    def foreign(self, kind=None):
        """traffic of another device on the same bus (only what the host sends is visible downstream)"""
        host, rng = self.host, self.rng
        other = rng.choice([self.addr ^ (1 << rng.randrange(7)), rng.randrange(128), 0])
        if other == self.addr:
            other = (self.addr + 1) % 128
        kind = kind or rng.choice(["in_ack", "in_ack", "out", "setup", "in_noack"])
        ep = rng.choice([0, self.info["ep_in"], self.info["ep_out"], self.info["ep_notify"], rng.randrange(16)]) if self.info else 0
        self.step("FOREIGN", other, kind, ep)
        self.res.bin("foreign_address")
        if other == 0:
            self.res.bin("old_address_probe")
        n0 = len(host.tx_packets)
        if kind in ("in_ack", "in_noack"):
            yield from host.token(U.IN, other, ep)
            yield from host.idle(rng.randint(6, 30))          # the other device's data packet (not visible here)
            if kind == "in_ack":
                yield from host.handshake(U.ACK)
                if self.in_unacked is not None:
                    self.res.bin("unacked_in_then_foreign_ack")
        elif kind == "out":
            yield from host.token(U.OUT, other, ep)
            yield from host.idle(rng.randint(1, 4))
            yield from host.data(rng.choice([U.DATA0, U.DATA1]), bytes(rng.randrange(256) for _ in range(rng.randint(0, 12))))
        else:
            yield from host.token(U.SETUP, other, 0)
            yield from host.idle(rng.randint(1, 4))
            yield from host.data(U.DATA0, U.setup_bytes(0x21, 0x20, 0, 0, 7))
        yield from host.idle(rng.randint(10, 30))
        if len(host.tx_packets) > n0:
            self.viol("answered_foreign_address" if other else "answered_at_old_address",
                      "device at address %d transmitted %s after a %s transaction for address %d" % (self.addr, bytes(host.tx_packets[n0].data).hex(), kind, other))

    def block_sink(self):
        self.block_cycles = self.rng.randint(150, 500)
        self.prefer_out = self.rng.randint(3, 6)
        self.step("BLOCK", self.block_cycles)
        self.res.bin("sink_blocked")
        yield

    def atomic(self):
        """one bus transaction that may go between the packets of a control transfer"""
        rng = self.rng
        if not (self.configured and self.data_phase):
            a = rng.choice(["sof", "foreign", "idle"])
        else:
            pending_in = self.in_seen < len(self.src) or (not self.loop and self.tx_sent < len(self.tx_plan))
            w = [("in", 30 if pending_in else 6), ("notify", 5), ("sof", 4), ("foreign", 6), ("idle", 3), ("unannounced", 3)]
            if self.out_remaining():
                w.append(("out", 60 if self.prefer_out else 30))
            if self.in_unacked is not None:
                w.append(("in", 40))
                w.append(("foreign_ack", 14))
            t = rng.uniform(0, sum(x for _, x in w))
            for a, x in w:
                t -= x
                if t <= 0:
                    break
        if a == "out":
            if self.prefer_out:
                self.prefer_out -= 1
            yield from self.out_step()
        elif a == "in":
            yield from self.in_step()
        elif a == "notify":
            yield from self.notify_poll()
        elif a == "sof":
            yield from self.sof()
        elif a == "foreign":
            yield from self.foreign()
        elif a == "foreign_ack":
            yield from self.foreign("in_ack")
        elif a == "unannounced":
            yield from self.unannounced_probe()
        else:
            yield from self.host.idle(rng.randint(1, 40))

    def between(self, tag=None):
        """possibly interleave other transactions at a stage boundary of a control transfer"""
        if self.failed or not self.data_phase or self.quiet_bus:
            return False
        did = False
        while self.rng.random() < self.cfg["p_inter"] and not self.failed:
            yield from self.atomic()
            did = True
            if tag:
                self.res.bin(tag)
        return did

    # ------------------------------------------------------------------ control transfers
    def setup_stage(self, setup8):
        host = self.host
        self.res.event("control_transfers")
        if self.in_unacked is not None:
            self.res.bin("unacked_in_then_control")
        if self.rng.random() < 0.05:
            r = yield from host.setup_transaction(self.addr, setup8, corrupt=True)
            yield from self.gap()
            if self.is_hs(r, U.ACK):
                self.viol("corrupt_setup_acked", "SETUP data packet with a bit error was ACKed")
                return False
        r = yield from host.setup_transaction(self.addr, setup8)
        yield from self.gap()
        if not self.is_hs(r, U.ACK):
            self.viol("device_not_at_new_address" if self.just_addressed else "setup_not_acked",
                      "SETUP %s at address %d answered with %s" % (bytes(setup8).hex(), self.addr, self.show(r)))
            return False
        self.just_addressed = False
        return True

    just_addressed = False
    connect_at = None
    quiet_bus = False        # no bulk traffic between the packets of a request that resets data toggles: a half-done
                             # bulk transaction across a toggle reset duplicates or loses a packet by protocol design

    def data_in(self, wlength, tag=None):
        """data stage device-to-host; returns (kind, data) kind in data|stall|timeout|bad|nak"""
        host = self.host
        data, tog, naks = b"", 1, 0
        while True:
            yield from self.between(tag)
            if self.failed:
                return "bad", data
            r = yield from host.in_transaction(self.addr, 0)
            yield from self.gap()
            if self.is_hs(r, U.NAK):
                naks += 1
                if naks > 20:
                    return "nak", data
                continue
            if self.is_hs(r, U.STALL):
                return "stall", data
            if r.get("kind") == "timeout":
                return "timeout", data
            if r.get("kind") != "data":
                return "bad", data
            if r["pid"] != (U.DATA1 if tog else U.DATA0):
                self.viol("control_data_wrong_toggle", "data stage packet %d has PID %s" % (len(data) // self.mps0, U.PID_NAMES[r["pid"]]))
                return "bad", data
            tog ^= 1
            data += bytes(r["payload"])
            if len(r["payload"]) < self.mps0 or len(data) >= wlength:
                return "data", data

    def status_out(self, tag=None):
        yield from self.between(tag)
        naks = 0
        while not self.failed:
            r = yield from self.host.out_transaction(self.addr, 0, U.DATA1, b"")
            yield from self.gap()
            if self.is_hs(r, U.NAK) and naks < 20:
                naks += 1
                continue
            return r
        return {"kind": "aborted"}

    def status_in(self, tag=None, allow_unacked=False):
        """status stage IN; returns the device's answer (a DATA1 ZLP is the success case)"""
        yield from self.between(tag)
        naks = 0
        unacked = allow_unacked and self.rng.random() < 0.2
        while not self.failed:
            r = yield from self.host.in_transaction(self.addr, 0, ack="none" if unacked else "ack")
            yield from self.gap()
            if self.is_hs(r, U.NAK) and naks < 20:
                naks += 1
                continue
            if unacked and r.get("kind") == "data":
                unacked = False
                self.res.bin("slc_status_unacked" if allow_unacked == "slc" else "status_unacked")
                yield from self.between(tag)
                continue
            return r
        return {"kind": "aborted"}

    @staticmethod
    def is_zlp1(r):
        return r.get("kind") == "data" and r["pid"] == U.DATA1 and len(r["payload"]) == 0

    def nodata_request(self, setup8, what):
        """SETUP + status IN that must be a DATA1 ZLP"""
        if not (yield from self.setup_stage(setup8)):
            return False
        r = yield from self.status_in()
        if self.failed:
            return False
        if not self.is_zlp1(r):
            self.viol(what + "_not_completed", "%s: status stage answered with %s" % (what, self.show(r)))
            return False
        return True

    def get_descriptor(self, dtype, index, wlength, langid=0):
        self.step("GET_DESCRIPTOR", dtype, index, wlength)
        if not (yield from self.setup_stage(U.setup_bytes(0x80, 6, (dtype << 8) | index, langid, wlength))):
            return None
        kind, data = yield from self.data_in(wlength)
        if self.failed:
            return None
        if kind != "data":
            self.viol("get_descriptor_not_answered", "GET_DESCRIPTOR type %d index %d wLength %d: %s after %d bytes" % (dtype, index, wlength, kind, len(data)))
            return None
        r = yield from self.status_out()
        if self.failed:
            return None
        if not self.is_hs(r, U.ACK):
            self.viol("control_status_out_not_acked", "status stage of GET_DESCRIPTOR answered with %s" % self.show(r))
            return None
        if len(data) > wlength:
            self.viol("descriptor_longer_than_requested", "%d bytes for wLength %d" % (len(data), wlength))
            return None
        self.judge_descriptor(dtype, index, wlength, data)
        return data

    def judge_descriptor(self, dtype, index, wlength, data):
        key = (dtype, index)
        complete = len(data) < wlength
        if not complete:
            if dtype == A.DT_CONFIG:
                complete = len(data) >= 4 and (data[2] | data[3] << 8) == len(data)
            else:
                complete = len(data) >= 2 and data[0] == len(data)
        if key in self.full:
            if data != self.full[key][:wlength]:
                self.viol("descriptor_read_inconsistent", "type %d index %d wLength %d: %s, earlier complete read %s" % (dtype, index, wlength, data.hex(), self.full[key].hex()))
            return
        if not complete:
            self.partial.setdefault(key, []).append(data)
            if len(data) != wlength:
                self.viol("descriptor_short_read", "type %d index %d: %d bytes for wLength %d although the descriptor is longer" % (dtype, index, len(data), wlength))
            return
        self.full[key] = data
        for p in self.partial.get(key, []):
            if data[:len(p)] != p:
                self.viol("descriptor_read_inconsistent", "type %d index %d: partial read %s, complete read %s" % (dtype, index, p.hex(), data.hex()))
                return
        cfg = self.cfg
        if dtype == A.DT_DEVICE:
            probs, info = A.check_device(data, vid=cfg["vid"], pid=cfg["pid"])
            if probs:
                return self.viol("device_descriptor_wrong", "%s in %s" % ("; ".join(probs), data.hex()))
            self.dev_info = info
            self.mps0 = info["mps0"]
            for name, text in (("iManufacturer", cfg["manufacturer"]), ("iProduct", cfg["product"]), ("iSerialNumber", cfg["serial"])):
                i = info[name]
                if i == 0 and text:
                    return self.viol("device_descriptor_wrong", "%s = 0 although the device was built with %r" % (name, text))
                if i:
                    if i in self.strings and self.strings[i] != text:
                        return self.viol("device_descriptor_wrong", "string index %d used for %r and %r" % (i, self.strings[i], text))
                    self.strings[i] = text
            self.res.event("descriptors_validated")
        elif dtype == A.DT_CONFIG:
            probs, info = A.check_config(data, mps=cfg["mps"])
            if probs or info is None or not all(k in info for k in ("ep_in", "ep_out", "ep_notify")):
                return self.viol("configuration_descriptor_wrong", "%s in %s" % ("; ".join(probs), data.hex()))
            self.info = info
            self.res.event("descriptors_validated")
            self.compare_built_endpoints(info)
        elif dtype == A.DT_STRING:
            if index == 0:
                if len(data) < 4 or data[0] != len(data) or data[1] != A.DT_STRING or len(data) % 2:
                    return self.viol("string_descriptor_wrong", "language list %s" % data.hex())
                self.langid = data[2] | data[3] << 8
            elif index in self.strings:
                ref = A.string_descriptor(self.strings[index])
                if data != ref:
                    return self.viol("string_descriptor_wrong", "string %d is %s, device was built with %r = %s" % (index, data.hex(), self.strings[index], ref.hex()))
            self.res.event("strings_validated")

    def compare_built_endpoints(self, info):
        """the endpoints announced by the descriptor against the stream endpoint objects the device really built
        (constructor arguments captured by the harness registry: direction, number, max packet size)"""
        if self.built is None:
            return
        announced = sorted([("in", info["ep_notify"], info["notify_mps"]), ("in", info["ep_in"], self.mps), ("out", info["ep_out"], self.mps)])
        if sorted(self.built) != announced:
            return self.viol("descriptor_disagrees_with_built_endpoints", "descriptor announces (direction, number, wMaxPacketSize) %s, the device built %s" % (announced, sorted(self.built)))
        self.res.event("built_endpoints_compared")

    built = None

    def unannounced_probe(self):
        """a token for an endpoint number the descriptors do not announce: nobody may answer"""
        host, rng = self.host, self.rng
        used_in = {0, self.info["ep_in"], self.info["ep_notify"]}
        used_out = {0, self.info["ep_out"]}
        direction = rng.choice(["in", "out"])
        ep = rng.choice([e for e in range(1, 16) if e not in (used_in if direction == "in" else used_out)])
        self.step("UNANNOUNCED", direction, ep)
        self.res.bin("unannounced_endpoint_probe")
        n0 = len(host.tx_packets)
        if direction == "in":
            yield from host.token(U.IN, self.addr, ep)
        else:
            yield from host.token(U.OUT, self.addr, ep)
            yield from host.idle(rng.randint(1, 4))
            yield from host.data(rng.choice([U.DATA0, U.DATA1]), bytes(rng.randrange(256) for _ in range(rng.randint(0, 8))))
        yield from host.idle(rng.randint(30, 45))
        if len(host.tx_packets) > n0:
            self.viol("unannounced_endpoint_answers", "%s token for endpoint %d (descriptor: notification %d, data in %d, data out %d) answered with %s"
                      % (direction.upper(), ep, self.info["ep_notify"], self.info["ep_in"], self.info["ep_out"], bytes(host.tx_packets[n0].data).hex()))

    def slc_variant(self):
        """SET_LINE_CODING-like requests the statement does not pin down (wLength other than 7, other recipients): the
        device may accept or refuse, but consistently: data ACKed -> DATA1 ZLP status; otherwise STALL at the status IN"""
        host, rng = self.host, self.rng
        iface = self.info["comm_interface"] if self.info else 0
        if rng.random() < 0.7:
            bm, wl = 0x21, rng.choice([0, 0, 1, 6, 8, 8, 16, 64])
        else:
            bm, wl = rng.choice([0x20, 0x22, 0x23]), rng.choice([0, 7, 7])
        self.step("SLC_VARIANT", "%02x" % bm, wl)
        self.res.bin("slc_variant_wlength_0" if wl == 0 else "slc_variant_with_data")
        if not (yield from self.setup_stage(U.setup_bytes(bm, A.SET_LINE_CODING, 0, iface, wl))):
            return
        accepted = None
        if wl:
            r = yield from host.out_transaction(self.addr, 0, U.DATA1, bytes(rng.randrange(256) for _ in range(wl)))
            yield from self.gap()
            if r.get("kind") == "data":
                return self.viol("slc_variant_inconsistent", "request %02x 20 wLength %d: data packet answered with %s" % (bm, wl, self.show(r)))
            accepted = self.is_hs(r, U.ACK)
        r = yield from self.status_in()
        if self.failed:
            return
        ok = self.is_zlp1(r) if accepted else (self.is_hs(r, U.STALL) or (accepted is None and self.is_zlp1(r)))
        if not ok:
            return self.viol("slc_variant_inconsistent", "request %02x 20 wLength %d: data stage %s, status IN answered with %s"
                             % (bm, wl, {None: "absent", True: "ACKed", False: "not ACKed"}[accepted], self.show(r)))
        self.res.event("slc_variants_judged")

    def reserved_type_request(self):
        """request type 3 (reserved): the statement says nothing about it - sent, not judged, must not break what follows"""
        host, rng = self.host, self.rng
        is_in = rng.random() < 0.4
        wl = rng.choice([0, 0, 7, 8])
        bm = (0xE0 if is_in and wl else 0x60) | rng.choice([0, 1, 2])
        breq = rng.choice([A.SET_LINE_CODING, rng.randrange(256)])
        self.step("RESERVED", "%02x" % bm, "%02x" % breq, wl)
        self.res.bin("reserved_type_request")
        self.res.unjudged += 1
        if not (yield from self.setup_stage(U.setup_bytes(bm, breq, rng.randrange(0x10000), 0, wl))):
            return
        if wl and not bm & 0x80:
            yield from host.out_transaction(self.addr, 0, U.DATA1, bytes(wl))
            yield from self.gap()
        yield from host.in_transaction(self.addr, 0)
        yield from self.gap()

    def set_address(self, new):
        self.step("SET_ADDRESS", new)
        ok = yield from self.nodata_request(U.setup_bytes(0x00, 5, new, 0, 0), "set_address")
        if ok:
            self.addr = new
            self.just_addressed = True
            yield from self.host.idle(self.rng.randint(4, 40))

    def set_configuration(self, value):
        self.step("SET_CONFIGURATION", value)
        ok = yield from self.nodata_request(U.setup_bytes(0x00, 9, value, 0, 0), "set_configuration")
        if ok:
            self.configured = value != 0
            self.config_value = value
        return ok

    config_value = 0

    def get_configuration(self):
        self.step("GET_CONFIGURATION")
        if not (yield from self.setup_stage(U.setup_bytes(0x80, 8, 0, 0, 1))):
            return
        kind, data = yield from self.data_in(1)
        if self.failed:
            return
        if kind != "data" or data != bytes([self.config_value]):
            return self.viol("get_configuration_wrong", "GET_CONFIGURATION: %s %s, expected %02x" % (kind, data.hex(), self.config_value))
        r = yield from self.status_out()
        if not self.failed and not self.is_hs(r, U.ACK):
            self.viol("control_status_out_not_acked", "status stage of GET_CONFIGURATION answered with %s" % self.show(r))

    def unjudged_in_request(self, setup8, name):
        """a request whose answer is not this property's business; it must just not break the session"""
        self.step(name)
        self.res.unjudged += 1
        if not (yield from self.setup_stage(setup8)):
            return
        kind, data = yield from self.data_in(setup8[6] | setup8[7] << 8)
        if self.failed or kind != "data":
            return
        yield from self.status_out()

    def full_fifo_then_set_line_coding(self):
        """directed: consumer blocked until the receive FIFO NAKs, then SET_LINE_CODING with bulk OUT packets (which the OUT
        endpoint has to NAK) between its SETUP and its data packet - the control data stage must not answer for them"""
        if not self.out_remaining() or self.out_dev_acked or self.failed:
            return
        self.block_cycles = 3000
        self.step("BLOCK_UNTIL_NAK")
        n0 = self.res.bins.get("out_nak", 0)
        for _ in range(8):
            if self.failed or not self.out_remaining() or self.res.bins.get("out_nak", 0) > n0:
                break
            yield from self.out_step("good")
        if self.failed or not self.out_remaining() or self.res.bins.get("out_nak", 0) == n0:
            self.block_cycles = 0
            return
        self.res.bin("slc_while_out_endpoint_naks")
        yield from self.set_line_coding(force_out=self.rng.randint(1, 2))
        self.block_cycles = self.rng.randint(0, 60)

    def set_line_coding(self, force_out=0):
        host, rng = self.host, self.rng
        coding = bytes(rng.randrange(256) for _ in range(4)) + bytes([rng.randrange(3), rng.randrange(5), rng.choice([5, 6, 7, 8, 16])])
        iface = self.info["comm_interface"] if self.info else 0
        self.step("SET_LINE_CODING", coding.hex())
        if not (yield from self.setup_stage(U.setup_bytes(0x21, A.SET_LINE_CODING, 0, iface, 7))):
            return
        inter = yield from self.between("slc_interleaved")
        for _ in range(force_out):
            yield from self.out_step("good")
        fault = rng.choice(["none"] * 6 + ["corrupt", "corrupt", "acklost", "acklost"])
        naks = 0
        while not self.failed:
            if fault == "corrupt":
                r = yield from host.out_transaction(self.addr, 0, U.DATA1, coding, corrupt=True)
                yield from self.gap()
                if self.is_hs(r, U.ACK):
                    return self.viol("corrupt_control_data_acked", "SET_LINE_CODING data packet with a bit error was ACKed")
                self.res.bin("slc_data_corrupt_then_retry")
                fault = "none"
                yield from self.between("slc_interleaved")
                continue
            r = yield from host.out_transaction(self.addr, 0, U.DATA1, coding)
            yield from self.gap()
            if self.is_hs(r, U.NAK) and naks < 10:
                naks += 1
                continue
            if not self.is_hs(r, U.ACK):
                return self.viol("set_line_coding_data_not_acked", "SET_LINE_CODING data stage (%s) answered with %s" % (coding.hex(), self.show(r)))
            if fault == "acklost":
                fault = "none"
                self.res.bin("slc_data_ack_lost")          # host did not see the ACK: same data packet again
                continue
            break
        r = yield from self.status_in("slc_interleaved", allow_unacked="slc")
        if self.failed:
            return
        if not self.is_zlp1(r):
            return self.viol("set_line_coding_status_not_zlp", "SET_LINE_CODING status stage answered with %s" % self.show(r))
        self.res.bin("set_line_coding_ok")
        self.res.event("set_line_codings_judged")
        self.slc_done = getattr(self, "slc_done", 0) + 1

    def stalled_request(self, bm, breq, wvalue, windex, wlength, label):
        """a request the device must refuse: never ACK its data, never answer with data or a ZLP, STALL the first IN"""
        host, rng = self.host, self.rng
        self.step("REQ", "%02x" % bm, "%02x" % breq, wvalue, windex, wlength)
        setup8 = U.setup_bytes(bm, breq, wvalue, windex, wlength)
        desc = "request %s (%s)" % (setup8.hex(), label)
        if not (yield from self.setup_stage(setup8)):
            return
        inter = yield from self.between("stall_interleaved")
        shape = "nodata" if wlength == 0 else ("in" if bm & 0x80 else "out")
        if shape == "out":
            payload = bytes(rng.randrange(256) for _ in range(min(wlength, self.mps0)))
            r = yield from host.out_transaction(self.addr, 0, U.DATA1, payload)
            yield from self.gap()
            if self.is_hs(r, U.ACK):
                return self.viol("refused_request_data_acked" + self.slc_suffix(bm, breq), "%s: its data packet was ACKed" % desc)
            if r.get("kind") == "data":
                return self.viol("refused_request_answered" + self.slc_suffix(bm, breq), "%s: data packet answered with %s" % (desc, self.show(r)))
            if self.is_hs(r, U.STALL):
                self.res.event("stalls_judged")
                self.stalled = getattr(self, "stalled", 0) + 1
                return self.stall_bins(bm, shape)
            yield from self.between("stall_interleaved")
        # first IN token: data stage (device-to-host) or status stage
        naks = 0
        while not self.failed:
            r = yield from host.in_transaction(self.addr, 0)
            yield from self.gap()
            if self.is_hs(r, U.NAK) and naks < 8:
                naks += 1
                continue
            break
        if self.failed:
            return
        if not self.is_hs(r, U.STALL):
            mech = "refused_request_answered" if r.get("kind") == "data" else "refused_request_not_stalled"
            return self.viol(mech + self.slc_suffix(bm, breq), "%s: first IN token answered with %s, STALL expected" % (desc, self.show(r)))
        self.res.event("stalls_judged")
        self.stalled = getattr(self, "stalled", 0) + 1
        self.stall_bins(bm, shape)
        if rng.random() < 0.3:
            # the protocol stall stays until the next SETUP: a second IN is not answered with data either
            r = yield from host.in_transaction(self.addr, 0)
            yield from self.gap()
            if r.get("kind") == "data":
                self.viol("refused_request_answered" + self.slc_suffix(bm, breq), "%s: second IN after the STALL answered with %s" % (desc, self.show(r)))

    @staticmethod
    def slc_suffix(bm, breq):
        # a device-to-host class request with the SET_LINE_CODING code has its own name (narrow known-finding key)
        return "_class_0x20_device_to_host" if (bm & 0xE0) == 0xA0 and breq == A.SET_LINE_CODING else ""

    def stall_bins(self, bm, shape):
        t = (bm >> 5) & 3
        if t in (1, 2):
            self.res.bin("stall_%s_%s" % ("class" if t == 1 else "vendor", shape))

    def random_refused_request(self):
        rng = self.rng
        iface = self.info["comm_interface"] if self.info else 0
        r = rng.random()
        if r < 0.4:
            name, breq, is_in, lens = rng.choice(A.CDC_REQUESTS)
            wl = rng.choice(lens)
            wv = rng.choice([0, 1, 3, rng.randrange(0x10000)]) if wl == 0 else rng.choice([0, 1])
            yield from self.stalled_request(0xA1 if is_in else 0x21, breq, wv, iface, wl, name)
        elif r < 0.6:
            # class requests with arbitrary codes, all three shapes
            breq = rng.choice([x for x in range(256) if x != A.SET_LINE_CODING])
            is_in = rng.random() < 0.5
            wl = rng.choice([0, 0, 1, 7, 8, 64, 200]) if is_in else rng.choice([0, 0, 1, 7, 8, 32])
            yield from self.stalled_request(0xA1 if is_in and wl else 0x21, breq, rng.randrange(0x10000), iface, wl, "class request")
        elif r < 0.8:
            # neighbours of SET_LINE_CODING: request code one bit away; vendor request with the same code
            self.res.bin("stall_near_miss_request")
            if rng.random() < 0.5:
                breq = A.SET_LINE_CODING ^ (1 << rng.randrange(8))
                yield from self.stalled_request(0x21, breq, 0, iface, rng.choice([7, 7, 0]), "class request, code one bit from SET_LINE_CODING")
            else:
                bm = rng.choice([0x41, 0x40, 0xC1])
                wl = rng.choice([7, 7, 0])
                yield from self.stalled_request(bm, A.SET_LINE_CODING, 0, iface, wl, "vendor request with the SET_LINE_CODING code")
        else:
            is_in = rng.random() < 0.5
            wl = rng.choice([0, 0, 1, 7, 8, 64, 200]) if is_in else rng.choice([0, 0, 1, 7, 8, 32])
            bm = (0xC0 if is_in and wl else 0x40) | rng.choice([0, 1, 2, 3])
            yield from self.stalled_request(bm, rng.randrange(256), rng.randrange(0x10000), rng.randrange(0x10000), wl, "vendor request")

    def clear_halt(self):
        """CLEAR_FEATURE(ENDPOINT_HALT) on a data endpoint: both sides restart that endpoint's toggle at DATA0"""
        which = self.rng.choice(["in", "out"])
        yield from self.settle_toggles()
        if self.failed:
            return
        ep_addr = (0x80 | self.info["ep_in"]) if which == "in" else self.info["ep_out"]
        self.step("CLEAR_HALT", "%02x" % ep_addr)
        self.quiet_bus = True
        ok = yield from self.nodata_request(U.setup_bytes(0x02, 1, 0, ep_addr, 0), "clear_halt")
        self.quiet_bus = False
        if ok:
            self.res.bin("clear_halt")
            if which == "in":
                self.in_toggle = 0
            else:
                self.out_toggle = 0

    def settle_toggles(self):
        """finish half-done transactions (host-side), so that a toggle reset cannot duplicate or lose a packet by design"""
        n = 0
        while (self.in_unacked is not None or self.out_dev_acked) and not self.failed and n < 12:
            n += 1
            if self.in_unacked is not None:
                yield from self.in_step("ack")
            else:
                yield from self.out_step("good")

    def bus_reset(self):
        n = self.rng.randint(310, 360)
        self.step("BUS_RESET", n)
        yield from self.host.idle(3)
        self.b.set(self.utmi.line_state, 0b00)
        yield from self.host.idle(n)
        self.b.set(self.utmi.line_state, 0b01)
        self.addr = 0
        self.configured = False
        self.config_value = 0
        yield from self.host.idle(self.rng.randint(6, 30))

    def reconfigure(self):
        rng = self.rng
        kind = rng.choice(["set_configuration", "bus_reset"])
        self.res.bin("reconf_" + kind)
        if kind == "bus_reset":
            yield from self.bus_reset()
            yield from self.set_address(rng.randint(1, 127))
            if self.failed:
                return
        self.quiet_bus = True
        ok = yield from self.set_configuration(self.info["config_value"])
        self.quiet_bus = False
        if not ok:
            return
        self.reconf = {"kind": kind, "out_desync": self.out_toggle == 1, "in_desync": self.in_toggle == 1,
                       "out_pos": self.out_pos, "first_out_len": None}
        self.in_packets_since_reconf = 0
        self.out_toggle = 0
        self.in_toggle = 0
        self.step("RECONFIGURED", kind, self.reconf["out_desync"], self.reconf["in_desync"])

    # ------------------------------------------------------------------ phases
    def enumerate(self):
        rng, res = self.rng, self.res
        if rng.random() < 0.5:
            res.bin("enum_bus_reset_first")
            yield from self.bus_reset()
        for _ in range(rng.choice([0, 1, 1, 2])):
            res.bin("enum_descriptor_at_address_0")
            yield from self.get_descriptor(A.DT_DEVICE, 0, rng.choice([8, 18, 64]))
            if self.failed:
                return
            if rng.random() < 0.3:
                yield from self.bus_reset()
        if rng.random() < 0.15:
            res.bin("enum_class_request_before_configuration")
            yield from self.random_refused_request()
        yield from self.set_address(rng.choice([1, 2, 64, 127, rng.randint(1, 127), rng.randint(1, 127)]))
        if self.failed:
            return
        if rng.random() < 0.4:
            yield from self.foreign()
        script = [("dev18",)]
        style = rng.choice(["9_total", "255", "9_255", "64_total"])
        script.append(("cfg", style))
        script.append(("str0",))
        script.append(("strings", rng.choice(["255", "2_then_length"])))
        extra = [("qualifier",), ("get_status",), ("get_config",), ("class",), ("class",), ("slc",), ("dev18",), ("foreign",), ("sof",)]
        rng.shuffle(extra)
        for e in extra[:rng.randint(1, 5)]:
            script.insert(rng.randint(1, len(script)), e)
        # SET_CONFIGURATION somewhere after the configuration descriptor has been read
        pos = rng.randint(script.index(("cfg", style)) + 1, len(script))
        script.insert(pos, ("set_config",))
        if rng.random() < 0.5:
            script.append(("get_config",))
        for item in script:
            if self.failed:
                return
            k = item[0]
            if k == "dev18":
                yield from self.get_descriptor(A.DT_DEVICE, 0, rng.choice([18, 18, 64, 255]))
            elif k == "cfg":
                st = item[1]
                if st in ("9_total", "9_255", "64_total"):
                    first = 9 if st != "64_total" else 64
                    d = yield from self.get_descriptor(A.DT_CONFIG, 0, first)
                    if self.failed or d is None:
                        return
                    total = (d[2] | d[3] << 8) if len(d) >= 4 else 255
                    if st == "9_255":
                        res.bin("enum_config_255")
                        total = 255
                    else:
                        res.bin("enum_config_9_then_total")
                    yield from self.get_descriptor(A.DT_CONFIG, 0, total)
                else:
                    res.bin("enum_config_255")
                    yield from self.get_descriptor(A.DT_CONFIG, 0, 255)
                if not self.failed and self.info is None:
                    return self.viol("configuration_descriptor_wrong", "no complete configuration descriptor could be read: %s" % {k_: v.hex() for k_, v in self.full.items()})
            elif k == "str0":
                yield from self.get_descriptor(A.DT_STRING, 0, rng.choice([255, 4, 255]))
            elif k == "strings":
                idxs = sorted(self.strings)
                rng.shuffle(idxs)
                for i in idxs:
                    if self.failed:
                        return
                    if item[1] == "2_then_length":
                        res.bin("enum_string_2_then_length")
                        d = yield from self.get_descriptor(A.DT_STRING, i, 2, self.langid)
                        if self.failed or d is None:
                            return
                        yield from self.get_descriptor(A.DT_STRING, i, max(d[0], 2), self.langid)
                    else:
                        yield from self.get_descriptor(A.DT_STRING, i, 255, self.langid)
            elif k == "qualifier":
                yield from self.unjudged_in_request(U.setup_bytes(0x80, 6, 0x0600, 0, 10), "GET_QUALIFIER")
            elif k == "get_status":
                yield from self.unjudged_in_request(U.setup_bytes(0x80, 0, 0, 0, 2), "GET_STATUS")
            elif k == "get_config":
                yield from self.get_configuration()
            elif k == "class":
                if not self.configured:
                    res.bin("enum_class_request_before_configuration")
                yield from self.random_refused_request()
            elif k == "slc":
                yield from self.set_line_coding()
            elif k == "foreign":
                yield from self.foreign()
            elif k == "sof":
                yield from self.sof()
            elif k == "set_config":
                yield from self.set_configuration(self.info["config_value"])

    def control_action(self):
        rng = self.rng
        r = rng.random()
        if r < 0.3:
            yield from self.set_line_coding()
        elif r < 0.38:
            yield from self.slc_variant()
        elif r < 0.44:
            yield from self.reserved_type_request()
        elif r < 0.85:
            yield from self.random_refused_request()
        elif r < 0.95:
            self.res.bin("descriptor_reread_in_data_phase")
            t, i = rng.choice(sorted(self.full))
            n = len(self.full[(t, i)])
            yield from self.get_descriptor(t, i, rng.choice([n, 255, max(1, n - 1), 8, 64, rng.randint(1, n)]), self.langid if t == A.DT_STRING and i else 0)
        else:
            yield from self.get_configuration()

    def data_actions(self, n_actions):
        rng = self.rng
        idle = 0
        for _ in range(n_actions):
            if self.failed or self.b.cycle > 60000:
                return
            # nothing left to move in either direction: a few more actions, then go on
            busy = (self.out_remaining() or self.in_seen < len(self.src) or self.in_unacked is not None
                    or (not self.loop and self.tx_sent < len(self.tx_plan)))
            idle = 0 if busy else idle + 1
            if idle > 30:
                return
            r = rng.random()
            if r < 0.80:
                yield from self.atomic()
            elif r < 0.93:
                yield from self.control_action()
            elif r < 0.96:
                yield from self.block_sink()
            elif r < 0.98:
                yield from self.full_fifo_then_set_line_coding()
            else:
                yield from self.clear_halt()

    def pipes_empty(self, final):
        return ((not final or not self.out_remaining()) and (self.tx_parked or self.loop) and (not final or self.tx_sent >= len(self.tx_plan))
                and self.in_seen == len(self.src) and len(self.rx_seen) == self.out_pos and self.in_unacked is None and not self.out_dev_acked)

    def drain_all(self, final=True):
        """consumer always ready, host polls IN until everything written has arrived.  final: the host also finishes its
        OUT plan and the producer its tx plan; otherwise (before a re-configuration) the producer parks at the next transfer
        boundary and no new OUT packet is started, so that nothing is in flight inside the device"""
        self.drain = True
        self.hold_tx = not final
        self.step("DRAIN" if final else "QUIESCE")
        todo = (len(self.out_packets) - self.out_idx) + (len(self.tx_plan) + len(self.out_plan)) // max(1, self.mps) + 12
        bound = 6 * todo + 80
        quiet = 0
        for _ in range(bound):
            if self.failed:
                return
            if self.out_dev_acked or (final and self.out_remaining()):
                yield from self.out_step("good")
                if self.failed:
                    return
            yield from self.in_step("ack")
            if self.pipes_empty(final):
                quiet += 1
                if quiet >= 3:          # two more polls fetch a trailing ZLP
                    break
            else:
                quiet = 0
        if self.failed:
            return
        if final and self.out_remaining():
            return self.viol("out_packet_never_accepted", "consumer always ready, host polling IN: OUT packet %d of %d still NAKed" % (self.out_idx, len(self.out_packets)))
        if len(self.rx_seen) != self.out_pos:
            rc = self.reconf
            mech = "rx_stream_bytes_missing"
            if rc and rc["out_desync"] and rc["first_out_len"] and len(self.rx_seen) == self.out_pos - rc["first_out_len"] and rc["out_pos"] + rc["first_out_len"] == self.out_pos:
                mech = "out_toggle_not_reset_by_" + rc["kind"]
            return self.viol(mech, "%d bytes ACKed on the OUT endpoint, %d reached the rx stream" % (self.out_pos, len(self.rx_seen)))
        if not self.loop and (not self.tx_parked or (final and self.tx_sent < len(self.tx_plan))):
            return self.viol("tx_stream_not_accepted", "tx stream stuck at byte %d of %d although the host keeps polling" % (self.tx_sent, len(self.tx_plan)))
        if self.in_seen != len(self.src):
            return self.viol("tx_bytes_not_delivered", "%d bytes accepted on the tx stream (last one with `last`), host received %d" % (len(self.src), self.in_seen))
        self.res.event("drains_completed")
        self.drain = False
        self.hold_tx = False

    def run(self):
        rng = self.rng
        yield from self.host.idle(8)
        yield from self.enumerate()
        if self.failed:
            return
        if not self.configured or self.info is None:
            return self.viol("harness_not_configured", "enumeration script ended unconfigured")
        self.data_phase = True
        yield from self.data_actions(rng.randint(50, 130))
        yield from self.drain_all()
        if self.failed:
            return
        # the two tails below come after everything else has been judged (they run into defects of the unchanged tree)
        if rng.random() < 0.35:
            yield from self.reconfigure()
            if self.failed:
                return
            # more data in both directions after the re-configuration
            extra_p, extra_d = make_out_plan(rng, self.mps)
            self.out_packets = self.out_packets + extra_p[:6]
            self.out_plan = self.out_plan + extra_d[:sum(extra_p[:6])]
            if not self.loop:
                more, _ = make_tx_plan(rng, self.mps)
                self.tx_plan.extend(more[:3 * self.mps])
                if self.tx_plan:
                    self.tx_plan[-1][1] = 1
            yield from self.data_actions(rng.randint(10, 40))
            yield from self.drain_all()
            if self.failed:
                return
        if rng.random() < 0.2:
            self.res.bin("class_0x20_device_to_host")
            iface = self.info["comm_interface"]
            yield from self.stalled_request(0xA1, A.SET_LINE_CODING, 0, iface, 7, "class request 0x20 in device-to-host direction")
            if self.failed:
                return
            yield from self.set_line_coding()
        yield from self.host.idle(10)


def run_case(rng, tier, res):
    cfg = draw_config(rng)
    top, dev, utmi = build(cfg)
    from rv.sim import Registry
    from luna.gateware.usb.usb2.endpoints.stream import USBStreamInEndpoint, USBStreamOutEndpoint
    with Registry(USBStreamInEndpoint, USBStreamOutEndpoint) as reg:
        b = Bench(top, domain="usb", freq=60e6, max_cycles=160000)
    try:
        built = [("in", e._endpoint_number, e._max_packet_size) for e in reg.instances[USBStreamInEndpoint]]
        built += [("out", e._endpoint_number, e._max_packet_size) for e in reg.instances[USBStreamOutEndpoint]]
    except AttributeError:
        built = None            # constructor arguments not readable: the comparison is not made (required event stays 0)
    host = UTMIHost(b, utmi, rng, timing="fs12", ready_profile=cfg["ready_profile"], gap_profile=cfg["gap_profile"])
    ses = Session(b, host, rng, res, cfg, top, dev, utmi)
    ses.built = built
    b.watch(dev.rx.last, dev.rx.valid, dev.rx.ready, dev.rx.payload, dev.tx.valid, dev.tx.ready, dev.tx.payload, utmi.term_select)
    res.bin("mps_%d" % cfg["mps"])
    res.bin("mode_" + cfg["mode"])
    res.bin("import_" + cfg["import_path"])
    res.sig(sorted(cfg.items()), ses.out_packets, ses.out_plan, ses.tx_plan)
    res.desc = {"config": {k: v for k, v in cfg.items()}, "out_packets": ses.out_packets[:20], "tx_bytes": len(ses.tx_plan), "tx_gaps": ses.tx_gap_mode}

    def driver():
        b.set(utmi.line_state, 0b01)
        if cfg["connect_low_first"]:
            # `connect` low first: nothing is judged until it rises (the statement is about the connected device)
            res.bin("connect_low_first")
            b.set(top.connect, 0)
            for _ in range(cfg["connect_low_first"]):
                yield
        init_device_signals(b, top, utmi)
        ses.connect_at = b.cycle
        yield from ses.run()

    b.add_monitor(ses.monitor)
    b.add_driver(driver())
    b.add_driver(ses.sink(), main=False)
    if not ses.loop:
        b.add_driver(ses.producer(), main=False)
    b.run()
    res.cycles = b.cycle
    res.event("sessions")
    res.desc["steps"] = [list(s) if isinstance(s, tuple) else s for s in ses.steps[:40]]
    res.desc["n_steps"] = len(ses.steps)
    if b.hit_max_cycles and not ses.failed:
        res.violation("harness_max_cycles", "session did not finish in %d cycles; last steps %s" % (b.max_cycles, ses.steps[-8:]))
    res.nontrivial = (getattr(ses, "acked_packets", 0) >= 4 and getattr(ses, "accepted_in", 0) >= 4
                      and getattr(ses, "slc_done", 0) >= 1 and getattr(ses, "stalled", 0) >= 2)
