"""C16 - isochronous OUT endpoints deliver only whole, CRC-valid packets.

DUT: one or two real `USBIsochronousStreamOutEndpoint`s (random endpoint numbers, max packet size 1..64,
buffer size default or mps..4*mps) inside a real `USBDevice(bus=UTMIInterface())`; the packets reach the
endpoint through luna's own token detector / data receiver / endpoint multiplexer.

Workload (host model at the UTMI boundary, all rx byte-gap profiles): sessions of 25-60 transactions, grouped
in episodes with a consumer behaviour per episode (stalled, always ready, random rate, byte budget that leaves a
chosen number of bytes in the buffer - in particular free space == mps, mps-1, mps+1, and "one byte left").
Transactions: OUT+DATAx for the endpoint with payload 0..mps bytes (all four data PIDs), damaged data packets
(bit flip in payload / CRC, truncated, aborted, extended, over-long with bad CRC, bad PID check nibble), packets
to another endpoint number / another device address, data after a damaged OUT token, SOFs, stray IN tokens and
handshakes in between.  Every payload starts with a per-case unique id byte.

Monitor: every cycle samples stream.valid/ready/p.data/p.first/p.last of each endpoint; a transfer is
valid & ready.  All transfers are logged with their cycle.

Oracle (post-hoc, per endpoint, written from the property statement, USB 2.0 ch. 8 and the reference CRC16):
  * candidates = payloads (>= 1 byte) of the packets that the reference codec classifies as CRC-valid data
    packets and whose transaction token was a well-formed OUT token for (address 0, this endpoint);
  * the transfer log must be exactly the concatenation of a subsequence of the candidates, each delivered
    whole, `first` on its first byte only, `last` on its final byte only;
  * a candidate may be missing only if buffer space was short: with B the buffer size, the candidate must be
    delivered when  B - (bytes delivered before - bytes consumed up to the start of its token) >= mps
    (class docstring: "If there isn't max_packet_size space in the endpoint buffer, additional data will be
    silently dropped");
  * failures are classified (corrupt/foreign packet delivered, flags wrong, duplicate, bytes of a packet
    dropped individually, ...) so that a known finding cannot swallow a different failure.

Not judged: the time at which data appears; data packets longer than mps with a valid CRC (not generated);
a CRC-valid data packet following a *damaged* token while the last good token was an OUT for the endpoint
(the device cannot know whom it was for: it may be delivered whole or not at all - counted as unjudged);
whether the device transmits anything (C20).

Deviation from DESIGN.md: none in substance; the "subsequence" oracle is strengthened by the must-deliver rule above.

Known finding on the unchanged tree (findings/C16.md): mechanism `bytes_dropped_mid_packet_when_space_short` - the
DESIGN suspect is real: the space test is re-evaluated per byte, so a valid packet arriving with < mps+L-1 free bytes
is committed cut short / with holes.  The classifier reports that mechanism only if the whole output is an in-order
subsequence of the candidates' bytes (anchored at the `first` flags) and every partially delivered candidate had
< mps+L-1 free bytes (lower bound) when its data packet started; anything else gets another mechanism name.
"""
import bisect

from rv.sim import Bench
from rv.usb2host import UTMIHost, init_device_signals
from rv.ref import usb2 as U

PROPERTY = "C16"
CASES = {"quick": 288, "thorough": 4000}
RULE = ("case = device with 1-2 iso OUT endpoints (mps 1..64, buffer mps..4*mps) and 25-60 host transactions in episodes "
        "(consumer stalled / ready / random / byte budget leaving a directed fill level), valid and damaged data packets, "
        "foreign endpoints/addresses; non-trivial = >=1 candidate dropped for lack of space, >=1 delivered into a partly full "
        "buffer and >=1 damaged packet; distinct = hash of configuration + wire packets + consumer schedule")
REQUIRED_BINS = ["len_1", "len_mps", "len_mid", "zlp", "data_corrupt_crc", "data_truncated", "data_overlong_corrupt",
                 "data_bad_pid", "foreign_address", "other_endpoint", "other_endpoint_one_bit_away", "non_out_token_then_data", "damaged_token", "corrupt_then_good",
                 "free_exactly_mps", "free_in_cut_zone", "dropped_no_space", "delivered_into_partly_full",
                 "buffer_empty_at_token", "consumer_active_during_packet", "consumer_stalled_whole_packet",
                 "buffer_nondefault", "two_endpoints", "pid_data1", "pid_data2", "pid_mdata",
                 "overlong_valid_packet", "overlong_fits", "overlong_exceeds_free_space", "timing_fs12", "timing_fs60", "mps_ge_256"]
REQUIRED_EVENTS = ["data_packets_sent", "candidates", "candidates_delivered_whole", "transfers_logged", "first_flags_seen",
                   "last_flags_seen", "endpoints_judged"]
ASSUMPTIONS = ["valid data packets longer than max_packet_size (babbling host) may be dropped even with space; they are judged for atomicity (whole or nothing) and flags only",
               "a CRC-valid data packet after a damaged token is unjudged except for atomicity and flags",
               "a candidate must be delivered when the buffer had >= max_packet_size free bytes at the start of its OUT token",
               "delivery time is not constrained; each session ends with a drain (consumer ready until valid has been low for 12 cycles, at most 60 + 6*buffer cycles)"]

MPS_CHOICES = [1, 2, 3, 4, 8, 8, 13, 16, 16, 32, 64]

KNOWN_CUT = "bytes_dropped_mid_packet_when_space_short"
KNOWN_OVERFLOW = "overlong_packet_cut_when_it_does_not_fit"


class Ep:
    def __init__(self, dut, number, mps, bufsize):
        self.dut = dut
        self.number = number
        self.mps = mps
        self.B = bufsize if bufsize is not None else 2 * mps
        s = dut.stream
        self.sig_valid, self.sig_ready = s.valid, s.ready
        self.sig_data, self.sig_first, self.sig_last = s.p.data, s.p.first, s.p.last
        self.transfers = []     # (cycle, data, first, last)
        self.tcyc = []
        self.cands = []
        self.cons = {"mode": "stall", "p": 0.5, "budget": 0}
        self.low_run = 0        # consecutive cycles with valid low
        self.est_delivered = 0  # steering only

    def consumed_upto(self, cyc):
        return bisect.bisect_right(self.tcyc, cyc)


def build(rng):
    from luna.gateware.interface.utmi import UTMIInterface
    from luna.gateware.usb.usb2.device import USBDevice
    from luna.gateware.usb.usb2.endpoints.isochronous_stream_out import USBIsochronousStreamOutEndpoint
    utmi = UTMIInterface()
    dev = USBDevice(bus=utmi)
    dev.rv_timing = "fs12"
    if rng.random() < 0.2:
        dev.always_fs = False           # 60 MHz inter-packet timing tables (ULPI configuration), still full speed
        dev.data_clock = 60e6
        dev.rv_timing = "fs60"
    n_eps = 2 if rng.random() < 0.4 else 1
    numbers = rng.sample(range(1, 16), n_eps)
    eps = []
    for num in numbers:
        mps = rng.choice(MPS_CHOICES) if rng.random() > 0.08 else rng.choice([256, 512])
        r = rng.random()
        if r < 0.45:
            buf = None
        elif r < 0.55:
            buf = mps
        elif r < 0.65:
            buf = mps + 1
        elif r < 0.75:
            buf = 3 * mps
        else:
            buf = rng.randint(mps, 4 * mps)
        kw = dict(endpoint_number=num, max_packet_size=mps)
        if buf is not None:
            kw["buffer_size"] = buf
        dut = USBIsochronousStreamOutEndpoint(**kw)
        dev.add_endpoint(dut)
        eps.append(Ep(dut, num, mps, buf))
    return dev, utmi, eps


def make_payload(rng, pid_byte, n):
    if n == 0:
        return b""
    if rng.random() < 0.35:
        body = bytes(rng.randrange(256) for _ in range(n - 1))
    else:
        k = rng.randrange(256)
        body = bytes((pid_byte * 17 + i * 3 + k) & 0xFF for i in range(1, n))
    return bytes([pid_byte]) + body


# ------------------------------------------------------------------------------------------ oracle

def parse_chunks(transfers):
    chunks, cur = [], None
    for (cyc, d, f, l) in transfers:
        if cur is None or f:
            if cur is not None:
                chunks.append(cur)                      # unterminated
            cur = {"bytes": bytearray(), "headless": not f, "terminated": False, "cyc": cyc}
        cur["bytes"].append(d)
        if l:
            cur["terminated"] = True
            chunks.append(cur)
            cur = None
    if cur is not None:
        chunks.append(cur)
    return chunks


def judge(ep, res, packets):
    """packets: every data packet put on the wire in the session (dicts)."""
    res.event("endpoints_judged")
    T = ep.transfers
    cands = ep.cands
    res.event("candidates", len(cands))
    res.event("transfers_logged", len(T))
    res.event("first_flags_seen", sum(1 for t in T if t[2]))
    res.event("last_flags_seen", sum(1 for t in T if t[3]))
    chunks = parse_chunks(T)
    delivered = [0] * len(cands)
    ok = True
    ci = 0
    bad = None
    for ch in chunks:
        data = bytes(ch["bytes"])
        m = None
        for k in range(ci, len(cands)):
            if cands[k]["payload"] == data:
                m = k
                break
        if m is None or ch["headless"] or not ch["terminated"]:
            ok = False
            bad = ch
            break
        delivered[m] = len(data)
        ci = m + 1

    if not ok:
        delivered = classify_failure(ep, res, packets, chunks, bad)
        if delivered is None:
            return False            # bytes cannot be attributed to candidates: no space analysis possible

    # ---- dropped / space analysis (also produces the coverage bins)
    prev = 0
    for k, c in enumerate(cands):
        L = len(c["payload"])
        cons_tok = ep.consumed_upto(c["t_tok"])
        cons_ds = ep.consumed_upto(c["t_data"])
        cons_end = ep.consumed_upto(c["t_end"] + 6)
        f_lb_tok = ep.B - (prev - cons_tok)
        f_lb_ds = ep.B - (prev - cons_ds)
        f_ub = ep.B - (prev - cons_end)
        c["f_lb_tok"], c["f_lb_ds"], c["f_ub"] = f_lb_tok, f_lb_ds, f_ub
        if prev - cons_end <= 0 and prev - cons_tok <= 0:
            res.bin("buffer_empty_at_token")
        if cons_end > cons_tok:
            res.bin("consumer_active_during_packet")
        elif prev - cons_tok > 0:
            res.bin("consumer_stalled_whole_packet")
        if f_lb_tok == ep.mps and f_ub == ep.mps and L >= 2:
            res.bin("free_exactly_mps")
        if ep.mps <= f_lb_ds < ep.mps + L - 1:
            res.bin("free_in_cut_zone")
        if c["overlong"]:
            res.bin("overlong_valid_packet")
            if f_lb_ds >= L:
                res.bin("overlong_fits")
            if f_ub < L and f_lb_tok >= ep.mps:
                res.bin("overlong_exceeds_free_space")
            if delivered[k] == L:
                res.bin("overlong_delivered_whole")
        if delivered[k] == 0:
            if f_ub < ep.mps:
                res.bin("dropped_no_space")
            if c["required"] and f_lb_tok >= ep.mps:
                res.violation("valid_packet_dropped_with_space",
                              "ep%d mps=%d buffer=%d: candidate #%d id=0x%02x len=%d not delivered although free space >= %d "
                              "(delivered before=%d, consumed at token=%d)" % (ep.number, ep.mps, ep.B, k, c["payload"][0], L,
                                                                                  f_lb_tok, prev, cons_tok))
        elif delivered[k] == L:
            res.event("candidates_delivered_whole")
            if prev - cons_end > 0:
                res.bin("delivered_into_partly_full")
        prev += delivered[k]
    return ok


def classify_failure(ep, res, packets, chunks, bad):
    """The output is not a concatenation of whole candidates with correct flags: find out what it is."""
    cands = ep.cands
    T = ep.transfers
    O = bytes(t[1] for t in T)
    where = "ep%d mps=%d buffer=%d chunk@cyc%d=%s headless=%s terminated=%s" % (
        ep.number, ep.mps, ep.B, bad["cyc"], bytes(bad["bytes"]).hex(), bad["headless"], bad["terminated"])
    delivered = [0] * len(cands)

    # 1. does any chunk carry the payload of a packet that is not a candidate of this endpoint?
    cand_ids = {id(c["pkt"]) for c in cands}
    for ch in chunks:
        data = bytes(ch["bytes"])
        if any(c["payload"].startswith(data) for c in cands):
            continue                                    # explainable as (part of) a candidate: judged below
        for p in packets:
            if id(p) in cand_ids or len(p["wire"]) < 4:
                continue
            raw = p["wire"][1:-2]
            if len(data) >= 1 and (data == raw or (len(data) >= 2 and raw.startswith(data)) or data == p["wire"][1:]):
                mech = {"corrupt": "corrupt_packet_delivered", "foreign": "foreign_packet_delivered"}.get(p["class"], "non_candidate_packet_delivered")
                res.violation(mech, "ep%d mps=%d buffer=%d: output chunk @cyc%d %s is the payload of wire packet %s (%s), which is not a CRC-valid packet for this endpoint" % (
                    ep.number, ep.mps, ep.B, ch["cyc"], data.hex(), p["wire"].hex(), p["kind"]))
                return None

    # 2. whole candidates, but flags wrong?
    p = 0
    whole = []
    for k, c in enumerate(cands):
        pl = c["payload"]
        if O[p:p + len(pl)] == pl:
            whole.append((k, p))
            p += len(pl)
    if p == len(O):
        for k, _ in whole:
            delivered[k] = len(cands[k]["payload"])
        # find the first flag error
        for k, p0 in whole:
            L = len(cands[k]["payload"])
            for i in range(L):
                f, l = T[p0 + i][2], T[p0 + i][3]
                if f != (1 if i == 0 else 0):
                    res.violation("first_flag_wrong", "%s: candidate id=0x%02x byte %d/%d first=%d" % (where, cands[k]["payload"][0], i, L, f))
                    return delivered
                if l != (1 if i == L - 1 else 0):
                    res.violation("last_flag_wrong", "%s: candidate id=0x%02x byte %d/%d last=%d" % (where, cands[k]["payload"][0], i, L, l))
                    return delivered
        res.violation("flags_wrong", where)
        return delivered

    # 2b. a candidate delivered twice?
    seen = set()
    for ch in chunks:
        data = bytes(ch["bytes"])
        for k, c in enumerate(cands):
            if c["payload"] == data:
                if k in seen:
                    res.violation("packet_delivered_twice", "%s: candidate id=0x%02x appears twice" % (where, data[0]))
                    return None
                seen.add(k)
                break

    # 3. in-order subsequence of the candidates' bytes (anchored by the first flags)?
    p = 0
    matched = [[] for _ in cands]
    for k, c in enumerate(cands):
        pl = c["payload"]
        for i in range(len(pl)):
            if p >= len(O):
                break
            f = T[p][2]
            if O[p] == pl[i] and ((i == 0) == bool(f)):
                matched[k].append(i)
                p += 1
    if p == len(O):
        delivered = [len(m) for m in matched]
        partial = [k for k, c in enumerate(cands) if 0 < len(matched[k]) < len(c["payload"])]
        prev = 0
        kinds = set()
        notes = []
        for k, c in enumerate(cands):
            if k in partial:
                L = len(c["payload"])
                f_lb = ep.B - (prev - ep.consumed_upto(c["t_data"]))
                if c["overlong"] and f_lb < L:
                    kind = "overflow"              # longer than mps and (possibly) longer than the free space
                elif f_lb < ep.mps + L - 1:
                    kind = "cut"                   # the per-byte space test can bite
                else:
                    kind = "unexplained"
                kinds.add(kind)
                if len(notes) < 4:
                    notes.append("id=0x%02x len=%d delivered_idx=%s free_at_data_start>=%d (%s)" % (c["payload"][0], L, matched[k][:6] + (["..."] if len(matched[k]) > 6 else []), f_lb, kind))
            prev += delivered[k]
        detail = "%s; partially delivered: %s" % (where, "; ".join(notes))
        if "unexplained" in kinds or not partial:
            res.violation("packet_partially_delivered_with_space", detail)
        else:
            if "cut" in kinds:
                res.violation(KNOWN_CUT, detail)
            if "overflow" in kinds:
                res.violation(KNOWN_OVERFLOW, detail)
        return delivered

    res.violation("output_not_from_valid_packets", "%s; output=%s" % (where, O[:80].hex()))
    return None


# ------------------------------------------------------------------------------------------ case

def run_case(rng, tier, res):
    dev, utmi, eps = build(rng)
    b = Bench(dev, domain="usb", freq=60e6, max_cycles=90000)
    gap_profile = rng.choice(["none", "none", "random", "fixed4", "onestall"])
    timing = dev.rv_timing
    res.bin("timing_" + timing)
    host = UTMIHost(b, utmi, rng, timing=timing, ready_profile="always", gap_profile=gap_profile)
    for ep in eps:
        b.watch(ep.sig_valid, ep.sig_ready, ep.sig_data, ep.sig_first, ep.sig_last)
    if len(eps) == 2:
        res.bin("two_endpoints")
    for ep in eps:
        if ep.B != 2 * ep.mps:
            res.bin("buffer_nondefault")
    res.desc = {"eps": [{"number": e.number, "mps": e.mps, "buffer": e.B} for e in eps], "gap_profile": gap_profile, "timing": dev.rv_timing, "steps": []}
    res.sig([(e.number, e.mps, e.B) for e in eps], gap_profile)
    ep_numbers = {e.number for e in eps}
    free_numbers = [n for n in range(0, 16) if n not in ep_numbers]
    packets = []          # every data packet on the wire
    state = {"next_id": rng.randrange(1, 200), "tok": (None, True), "last_corrupt": False}

    def monitor(b):
        for ep in eps:
            v = b.get(ep.sig_valid)
            if v:
                ep.low_run = 0
                if b.get(ep.sig_ready):
                    ep.transfers.append((b.cycle, b.get(ep.sig_data), b.get(ep.sig_first), b.get(ep.sig_last)))
                    ep.tcyc.append(b.cycle)
                    if ep.cons["mode"] == "budget":
                        ep.cons["budget"] -= 1
            else:
                ep.low_run += 1

    def consumer(ep):
        c = ep.cons
        while True:
            m = c["mode"]
            if m == "stall":
                r = 0
            elif m == "ready":
                r = 1
            elif m == "rand":
                r = 1 if rng.random() < c["p"] else 0
            else:
                r = 1 if c["budget"] > 0 else 0
            b.set(ep.sig_ready, r)
            yield

    def note(step):
        if len(res.desc["steps"]) < 14:
            res.desc["steps"].append(step)

    def new_id():
        i = state["next_id"]
        state["next_id"] = i % 255 + 1
        return i

    def send_token(pid, addr, endp, damage=None):
        pkt = bytearray(U.token(pid, addr, endp))
        if damage == "crc5":
            pkt[rng.randrange(1, 3)] ^= 1 << rng.randrange(8)
        elif damage == "pid":
            pkt[0] ^= 1 << rng.randrange(4, 8)
        elif damage == "short":
            pkt = pkt[:2]
        t0 = b.cycle
        yield from host.send_raw(bytes(pkt), abort_after=None)
        info = U.classify(bytes(pkt))
        cur = state["tok"]
        if info["kind"] == "token":
            if info["addr"] == 0 and info["pid"] == U.OUT:
                state["tok"] = (info["endp"], True)
            else:
                state["tok"] = (None, True)
        elif info["kind"] == "sof":
            pass
        else:
            state["tok"] = (cur[0], False) if cur[0] is not None else cur
        res.sig("T", bytes(pkt))
        return t0

    def send_data(t_tok, kind, klass, wire, **kw):
        """wire: bytes actually intended; kw may abort."""
        t_data = b.cycle
        yield from host.send_raw(wire, **kw)
        n = kw.get("abort_after")
        on_wire = bytes(wire if n is None else wire[:n])
        info = U.classify(on_wire)
        p = {"wire": on_wire, "kind": kind, "class": klass, "t_tok": t_tok, "t_data": t_data, "t_end": b.cycle, "info": info["kind"]}
        packets.append(p)
        res.event("data_packets_sent")
        res.sig("D", on_wire)
        tgt, certain = state["tok"]
        if info["kind"] == "data":
            if klass == "corrupt":
                p["class"] = "good"          # damage happened to produce a CRC-valid packet (e.g. nothing cut): reference decides
            for ep in eps:
                if tgt == ep.number and len(info["payload"]) >= 1:
                    overlong = len(info["payload"]) > ep.mps
                    ep.cands.append({"payload": bytes(info["payload"]), "t_tok": t_tok, "t_data": t_data, "t_end": b.cycle,
                                     "required": certain and not overlong, "overlong": overlong, "pkt": p})
                    if not certain or overlong:
                        res.unjudged += 1            # may be dropped; judged for atomicity and flags only
                    if state["last_corrupt"]:
                        res.bin("corrupt_then_good")
                    # steering estimate (reference behaviour: whole packet iff >= mps free and it fits)
                    occ = ep.est_delivered - len(ep.transfers)
                    if ep.B - occ >= max(ep.mps, len(info["payload"])):
                        ep.est_delivered += len(info["payload"])
            state["last_corrupt"] = False
        else:
            state["last_corrupt"] = True
        note((kind, on_wire[:12].hex(), len(on_wire)))

    def out_transaction(ep, kind):
        """One OUT transaction of the given kind aimed (more or less) at endpoint `ep`."""
        mps = ep.mps
        pid = rng.choice([U.DATA0, U.DATA0, U.DATA1, U.DATA2, U.MDATA])
        res.bin({U.DATA0: "pid_data0", U.DATA1: "pid_data1", U.DATA2: "pid_data2", U.MDATA: "pid_mdata"}[pid])
        r = rng.random()
        if r < 0.30:
            n = mps
        elif r < 0.42:
            n = 1
        elif r < 0.50:
            n = max(1, mps - 1)
        elif r < 0.56:
            n = min(2, mps)
        else:
            n = rng.randint(1, mps)
        payload = make_payload(rng, new_id(), n)
        good = U.data(pid, payload)
        token_gap = rng.choice([1, 1, 2, 3, 4, 8])

        if kind == "good":
            res.bin("len_1" if n == 1 else "len_mps" if n == mps else "len_mid")
            t = yield from send_token(U.OUT, 0, ep.number)
            yield from host.idle(token_gap)
            yield from send_data(t, "good", "good", good)
        elif kind == "overlong":
            # CRC-valid packet longer than max_packet_size (a babbling host): whole or nothing, never a fragment
            L = rng.choice([mps + 1, mps + 1, mps + 2, 2 * mps, ep.B, ep.B + 1, rng.randint(mps + 1, ep.B + 2)])
            L = max(mps + 1, min(L, 1100))
            long_payload = make_payload(rng, payload[0], L)
            t = yield from send_token(U.OUT, 0, ep.number)
            yield from host.idle(token_gap)
            yield from send_data(t, "overlong_valid", "good", U.data(pid, long_payload))
        elif kind == "zlp":
            res.bin("zlp")
            t = yield from send_token(U.OUT, 0, ep.number)
            yield from host.idle(token_gap)
            yield from send_data(t, "zlp", "good", U.data(pid, b""))
        elif kind == "crc":
            res.bin("data_corrupt_crc")
            w = bytearray(good)
            where = rng.choice(["payload", "crc", "last_payload_byte", "first_payload_byte"])
            if where == "crc":
                i = rng.randrange(len(w) - 2, len(w))
            elif where == "last_payload_byte":
                i = len(w) - 3
            elif where == "first_payload_byte":
                i = 1 if rng.random() < 0.5 else rng.randrange(1, len(w) - 2)
            else:
                i = rng.randrange(1, len(w) - 2)
            w[i] ^= 1 << rng.randrange(8)
            t = yield from send_token(U.OUT, 0, ep.number)
            yield from host.idle(token_gap)
            yield from send_data(t, "crc_flip_" + where, "corrupt", bytes(w))
        elif kind == "trunc":
            res.bin("data_truncated")
            t = yield from send_token(U.OUT, 0, ep.number)
            yield from host.idle(token_gap)
            if rng.random() < 0.5:
                # bytes missing from the end (packet is shorter than its CRC says)
                cut = rng.randint(1, min(len(good) - 1, 4))
                yield from send_data(t, "cut_tail", "corrupt", good[:len(good) - cut])
            else:
                yield from send_data(t, "aborted", "corrupt", good, abort_after=rng.randint(1, len(good) - 1))
        elif kind == "extend":
            res.bin("data_overlong_corrupt")
            t = yield from send_token(U.OUT, 0, ep.number)
            yield from host.idle(token_gap)
            if rng.random() < 0.5:
                # a whole valid packet followed by junk: the tail no longer checks
                extra = bytes(rng.randrange(256) for _ in range(rng.randint(1, 3)))
                yield from send_data(t, "valid_plus_junk", "corrupt", good + extra)
            else:
                # longer than mps, CRC broken
                long_payload = make_payload(rng, payload[0], mps + rng.randint(1, 4))
                w = bytearray(U.data(pid, long_payload))
                w[rng.randrange(1, len(w))] ^= 1 << rng.randrange(8)
                yield from send_data(t, "overlong_bad_crc", "corrupt", bytes(w))
        elif kind == "badpid":
            res.bin("data_bad_pid")
            w = bytearray(good)
            w[0] ^= 1 << rng.randrange(4, 8)
            t = yield from send_token(U.OUT, 0, ep.number)
            yield from host.idle(token_gap)
            yield from send_data(t, "bad_pid_nibble", "corrupt", bytes(w))
        elif kind == "foreign_addr":
            res.bin("foreign_address")
            t = yield from send_token(U.OUT, rng.randint(1, 127), ep.number)
            yield from host.idle(token_gap)
            yield from send_data(t, "foreign_address", "foreign", good)
        elif kind == "other_ep":
            res.bin("other_endpoint")
            near = [ep.number ^ m for m in (1, 2, 4, 8) if (ep.number ^ m) in free_numbers]      # numbers one bit away
            if near and rng.random() < 0.5:
                num = rng.choice(near)
                res.bin("other_endpoint_one_bit_away")
            else:
                num = rng.choice(free_numbers + [e.number for e in eps if e is not ep and len(payload) <= e.mps])
            t = yield from send_token(U.OUT, 0, num)
            yield from host.idle(token_gap)
            yield from send_data(t, "other_endpoint_%d" % num, "foreign", good)
        elif kind == "bad_token":
            res.bin("damaged_token")
            t = yield from send_token(U.OUT, 0, ep.number, damage=rng.choice(["crc5", "crc5", "pid", "short"]))
            yield from host.idle(token_gap)
            yield from send_data(t, "after_damaged_token", "foreign", good)
        elif kind == "non_out_token":
            # SETUP / PING token carrying this endpoint's number, followed by a valid data packet: not an OUT transaction
            res.bin("non_out_token_then_data")
            t = yield from send_token(rng.choice([U.SETUP, U.SETUP, U.PING, U.IN]), 0, ep.number)
            yield from host.idle(token_gap)
            yield from send_data(t, "after_non_out_token", "foreign", good)
        elif kind == "token_only":
            yield from send_token(U.OUT, 0, ep.number)
        # an iso OUT endpoint never answers; leave a legal inter-packet gap (full speed on the 60 MHz tables: the
        # bus inter-packet delay of >= 2 bit times is >= 10 cycles, which is also how long luna's receiver takes to re-arm)
        yield from host.idle(rng.randint(2, 9) if timing == "fs12" else rng.randint(12, 30))

    def bystander():
        k = rng.choice(["sof", "sof", "in_absent", "handshake", "idle"])
        if k == "sof":
            yield from send_token(U.SOF, rng.randrange(128), rng.randrange(16))
        elif k == "in_absent":
            yield from send_token(U.IN, 0, rng.choice(free_numbers))
        elif k == "handshake":
            yield from host.send_raw(U.handshake(rng.choice([U.ACK, U.NAK])))
        else:
            yield from host.idle(rng.randint(5, 40))
        yield from host.idle(rng.randint(2, 6))

    def set_consumer(ep, mode, **kw):
        ep.cons.update(kw)
        ep.cons["mode"] = mode
        res.sig("C", ep.number, mode, sorted(kw.items()))

    def steer(ep):
        """Choose a consumer behaviour for the next transaction(s) of `ep`."""
        occ = max(0, ep.est_delivered - len(ep.transfers))
        r = rng.random()
        if r < 0.30:
            set_consumer(ep, "stall")
        elif r < 0.40:
            set_consumer(ep, "ready")
        elif r < 0.55:
            set_consumer(ep, "rand", p=rng.choice([0.03, 0.1, 0.3, 0.7]))
        else:
            # leave a directed number of bytes in the buffer
            target_free = rng.choice([ep.mps, ep.mps, ep.mps - 1, ep.mps + 1, ep.mps + rng.randint(0, max(0, ep.mps - 1)),
                                      ep.B - 1, ep.B - 2, ep.B, rng.randint(0, ep.B)])
            target_occ = min(max(ep.B - target_free, 0), occ)
            set_consumer(ep, "budget", budget=occ - target_occ)

    def drain(ep, bound):
        set_consumer(ep, "ready")
        t0 = b.cycle
        while ep.low_run < 12 and b.cycle - t0 < bound:
            yield
        ep.est_delivered = len(ep.transfers)

    def driver():
        init_device_signals(b, dev, utmi)
        if timing == "fs60":
            b.set(dev.full_speed_only, 1)
        yield from host.idle(5)
        n_tx = rng.randint(25, 60) if tier == "quick" else rng.randint(30, 90)
        if max(e.mps for e in eps) >= 256:
            n_tx = rng.randint(10, 16)          # long packets: keep the session affordable
            res.bin("mps_ge_256")
        sent = 0
        while sent < n_tx:
            # ---- episode
            ep = rng.choice(eps)
            if rng.random() < 0.25:
                yield from drain(ep, 40 + 6 * ep.B)
            style = rng.choice(["fill", "fill", "mixed", "mixed", "faulty"])
            for _ in range(rng.randint(2, 7)):
                if rng.random() < 0.7:
                    steer(ep)
                    # let a budget take effect before the token so that the fill level is the chosen one
                    if ep.cons["mode"] == "budget":
                        t0 = b.cycle
                        while ep.cons["budget"] > 0 and b.cycle - t0 < 3 * ep.B + 20 and ep.low_run < 8:
                            yield
                r = rng.random()
                if style == "fill":
                    kind = "good" if r < 0.82 else rng.choice(["crc", "zlp", "other_ep", "overlong", "overlong"])
                elif style == "mixed":
                    kind = ("good" if r < 0.5 else
                            rng.choice(["crc", "crc", "trunc", "extend", "badpid", "foreign_addr", "other_ep", "other_ep", "bad_token", "zlp", "token_only", "non_out_token", "overlong"]))
                else:
                    kind = ("good" if r < 0.3 else rng.choice(["crc", "crc", "trunc", "trunc", "extend", "badpid", "bad_token", "foreign_addr"]))
                yield from out_transaction(ep, kind)
                sent += 1
                if rng.random() < 0.15:
                    yield from bystander()
                if len(eps) == 2 and rng.random() < 0.25:
                    other = eps[1] if ep is eps[0] else eps[0]
                    steer(other)
                    yield from out_transaction(other, "good" if rng.random() < 0.7 else "crc")
                    sent += 1
        # ---- final drain of everything
        yield from host.idle(12)
        for ep in eps:
            yield from drain(ep, 60 + 6 * ep.B)
        yield from host.idle(4)

    b.add_monitor(monitor)
    for ep in eps:
        b.add_driver(consumer(ep), main=False)
    b.add_driver(driver())
    b.run()
    res.cycles = b.cycle
    if b.hit_max_cycles:
        res.violation("harness_max_cycles", "case did not finish in %d cycles" % b.max_cycles)
        return
    for ep in eps:
        if ep.low_run < 12:
            res.violation("output_never_drains", "ep%d: stream.valid still high after the final drain window (%d transfers)" % (ep.number, len(ep.transfers)))
            continue
        judge(ep, res, packets)
    res.nontrivial = all(res.bins.get(k) for k in ("dropped_no_space", "delivered_into_partly_full")) and \
        any(res.bins.get(k) for k in ("data_corrupt_crc", "data_truncated", "data_overlong_corrupt", "data_bad_pid"))
