"""C51 - SPIRegisterInterface reads and writes exactly the addressed register.

DUT: luna.gateware.interface.spi.SPIRegisterInterface(address_size 3..15, register_size 8..32, random
     default_read_value, size auto-negotiation register on/off) with a random register map of 3..8
     registers: memory-backed read/write registers (full or narrower width, with/without external
     write/read strobes, random init), read-only registers fed by a harness signal or a constant, and
     special-function registers with write_signal + write_strobe (with or without a read source).
     Addresses are chosen adversarially: neighbours, addresses differing in one bit, 0/1/max.

Workload: SPI host model (SCK idle low, SDI stable across the whole SCK-high time, period 8..20 sync
cycles with jitter) issuing 6..24 transactions per case: reads and writes to mapped addresses, to
addresses one bit away from a mapped one, to random and to extreme addresses; values random / single
bit / all ones / equal to the current content; aborts = CS released after k of the (address_size+1+
register_size) bits for every k (directed: in the first bits, around the command/data boundary, one
bit before the end), in the SCK-low or SCK-high time; extra clocks after the complete word; CS idle
gaps 1..12; harness-driven read-only sources change between transactions and late in data phases.

Reference model (register file written from the statement, not from luna): the monitor rebuilds the
transaction from the *sampled* pins (falling SCK edges while CS is active; first bit = write flag,
then the address MSB first, then the value MSB first).  It checks
  * read-back: during the value bits of every transaction (read or write) SDO, sampled at the end of
    each SCK-high time, equals MSB first the value the addressed register had when the command was
    complete: register content (zero extended), the read source, or default_read_value for unmapped
    addresses / registers without read source; all ones for the auto-negotiation register 0;
  * a complete write (all bits clocked before CS is released): within WINDOW cycles exactly one
    cycle of that register's write strobe (external strobes), write_signal == transmitted value in
    that cycle (SFRs), the register content becomes the transmitted value (truncated to its width);
  * every cycle: every register content equals the model's; no write strobe of any register without a
    complete write to it - i.e. nothing on reads, on aborted transactions, on writes to other /
    unmapped / read-only addresses, on extra clocks, and never twice.

Not judged: SDO during the command bits and after the word; idle/stalled; read strobes (counted only);
latency (bounded by WINDOW); CS released in the same cycle as the LAST falling SCK edge is not generated (the
statement does not decide whether that transaction is complete); released together with any other edge it is an abort.
CS asserted since reset: what is clocked until the first CS release is not a transaction (no CS edge; the block
documents its STALL state for this) - no write may happen; SDO is not judged there.
Extra clocks after the word include more than a whole, well-formed write frame under the same CS: no second write.

Finding on the original tree (findings/C51.md, fixed in /repo 92ac038; violations are no longer renamed): SPICommandInterface looks at CS only in IDLE, STALL,
RECEIVE_COMMAND and SHIFT_DATA.  A CS release that lies completely inside the three cycles after the
falling SCK edge of the last command bit (last RECEIVE_COMMAND cycle, PROCESSING, LATCH_OUTPUT) is not
noticed: the abandoned command stays armed and the bits of the NEXT transaction are taken as its value
(wrong read-back, write to the abandoned address with garbage).  The monitor recognises exactly that
history from the pins (previous transaction ended after exactly the command bits, all CS-inactive
samples within those three cycles) and names every violation of the following transaction
cs_release_unnoticed_between_command_and_value_bits; all other violations keep their own names.
"""
from rv.sim import Bench

PROPERTY = "C51"
CASES = {"quick": 192, "thorough": 3840}
RULE = ("case = (address_size 3..15, register_size 8..32, default value, autonegotiation on/off, random map of 3..8 registers "
        "of 6 kinds at adversarial addresses, 6..24 transactions: read/write x mapped/near/unmapped x complete/aborted at "
        "every bit position/extra clocks); non-trivial = case had a complete write, a complete read of a written register "
        "and an abort; distinct = hash of configuration + transaction script")
REQUIRED_BINS = ["read_mapped", "read_unmapped_default", "read_back_written_value", "write_rw", "write_sfr", "write_unmapped",
                 "write_read_only", "write_narrow_register", "abort_in_command", "abort_in_data_write", "abort_last_bit_write",
                 "abort_at_command_data_boundary", "abort_in_sck_high", "extra_clocks_after_word", "address_one_bit_from_mapped",
                 "autoneg_register_read", "transaction_after_abort", "extra_clocks_whole_second_frame", "cs_asserted_at_reset",
                 "abort_cs_release_coincident_with_sck_edge", "cs_idle_1_cycle", "cs_idle_only_inside_command_turnaround", "write_same_value", "address_size_ge_12", "register_size_32",
                 "register_size_not_multiple_of_8", "read_source_changed"]
REQUIRED_EVENTS = ["transactions", "complete_reads", "complete_writes", "aborts", "sdo_bits_checked", "register_cycles_checked",
                   "strobe_cycles_checked", "write_strobes_matched", "register_updates_matched", "sfr_write_values_checked"]
ASSUMPTIONS = ["SCK idle low, SDI stable across SCK high and both edges; SCK period >= 8 sync cycles (luna's own tests use 16)",
               "CS is released >= 1 cycle away from any SCK edge; after the last bit >= 2 cycles; CS inactive >= 1 cycle",
               "read sources driven by the harness are stable around the command/data boundary (else that read is unjudged)",
               "a transaction is aborted iff CS is released before the last value bit's falling SCK edge"]

WINDOW = 10


def run_case(rng, tier, res):
    from amaranth import Signal
    from luna.gateware.interface.spi import SPIRegisterInterface

    asz = rng.choice([3, 4, 7, 8, 12, 15, 15, rng.randint(3, 15), rng.randint(3, 15)])
    rsz = rng.choice([8, 9, 12, 16, 17, 24, 31, 32, 32, rng.randint(8, 32)])
    rmask = (1 << rsz) - 1
    space = 1 << asz
    autoneg = rng.random() < 0.5
    default = rng.choice([0, rmask, rng.getrandbits(rsz), rng.getrandbits(rsz)])
    dut = SPIRegisterInterface(address_size=asz, register_size=rsz, default_read_value=default, support_size_autonegotiation=autoneg)
    if asz >= 12:
        res.bin("address_size_ge_12")
    if rsz == 32:
        res.bin("register_size_32")
    if rsz % 8:
        res.bin("register_size_not_multiple_of_8")

    # ---------------------------------------------------------------- register map
    nregs = min(rng.randint(3, 8), space - 2)
    addrs = []
    while len(addrs) < nregs:
        r = rng.random()
        if r < 0.35 or not addrs:
            a = rng.randrange(space)
        elif r < 0.65:
            a = rng.choice(addrs) ^ (1 << rng.randrange(asz))
        elif r < 0.8:
            a = (rng.choice(addrs) + rng.choice([1, -1])) % space
        else:
            a = rng.choice([space - 1, 1, space >> 1, 0, space - 2])
        if (autoneg and a == 0) or a in addrs:
            continue
        addrs.append(a)
    regs = {}          # model: addr -> dict
    if autoneg:
        regs[0] = {"kind": "ro_const", "const": rmask, "label": "autoneg"}
    kinds = ["rw", "rw", "rw_narrow", "ro_sig", "ro_const", "sfr", "sfr_noread", "rw"]
    rng.shuffle(kinds)
    for i, a in enumerate(addrs):
        kind = kinds[i % len(kinds)] if i >= 2 else ("rw" if i == 0 else "sfr")
        m = {"kind": kind}
        if kind in ("rw", "rw_narrow"):
            width = rsz if kind == "rw" else rng.randint(1, rsz - 1)
            init = rng.getrandbits(width)
            ws = Signal(name="ws_%x" % a) if rng.random() < 0.7 else None
            rs_ = Signal(name="rs_%x" % a) if rng.random() < 0.3 else None
            if kind == "rw" and rng.random() < 0.3:
                vs = Signal(rsz, name="ext_%x" % a, init=init)
                sig = dut.add_register(a, value_signal=vs, write_strobe=ws, read_strobe=rs_)
            else:
                sig = dut.add_register(a, size=None if kind == "rw" else width, write_strobe=ws, read_strobe=rs_, init=init)
            m.update(width=width, value=init, sig=sig, ws=ws, rstrobe=rs_)
        elif kind == "ro_sig":
            src = Signal(rsz, name="src_%x" % a)
            rs_ = Signal(name="rs_%x" % a) if rng.random() < 0.5 else None
            dut.add_read_only_register(a, read=src, read_strobe=rs_)
            m.update(src=src, rstrobe=rs_)
        elif kind == "ro_const":
            cval = rng.getrandbits(rsz)
            dut.add_read_only_register(a, read=cval)
            m.update(const=cval)
        elif kind == "sfr":
            src = Signal(rsz, name="src_%x" % a) if rng.random() < 0.6 else None
            wsig, ws = Signal(rsz, name="wsig_%x" % a), Signal(name="ws_%x" % a)
            dut.add_sfr(a, read=src, write_signal=wsig, write_strobe=ws)
            m.update(src=src, wsig=wsig, ws=ws)
        else:
            ws = Signal(name="ws_%x" % a)
            dut.add_sfr(a, write_strobe=ws)
            m.update(ws=ws)
        regs[a] = m

    # ---------------------------------------------------------------- transaction script
    cmdlen = asz + 1
    total = cmdlen + rsz
    mapped = sorted(regs)
    hbase = rng.choice([4, 4, 5, 6, 8, 10])
    ntrans = max(6, min(24, rng.randint(5000, 9000) // (total * (2 * hbase + 1))))
    script = []
    for i in range(ntrans):
        r = rng.random()
        if r < 0.55:
            a = rng.choice(mapped)
        elif r < 0.75:
            a = rng.choice(mapped) ^ (1 << rng.randrange(asz))
        elif r < 0.9:
            a = rng.randrange(space)
        else:
            a = rng.choice([0, space - 1, 1])
        write = rng.random() < 0.55
        earlier = [t["addr"] for t in script if t["write"] and t["abort"] is None and regs.get(t["addr"], {}).get("kind") in ("rw", "rw_narrow")]
        if earlier and rng.random() < 0.3:
            a, write = rng.choice(earlier), False
        r = rng.random()
        if r < 0.5:
            v = rng.getrandbits(rsz)
        elif r < 0.65:
            v = 1 << rng.randrange(rsz)
        elif r < 0.75:
            v = rng.choice([0, rmask])
        elif r < 0.87:
            v = "same"
        else:
            v = rmask ^ (1 << rng.randrange(rsz))
        abort = None
        if rng.random() < 0.3:
            r = rng.random()
            if r < 0.25:
                k = rng.randrange(total)
            elif r < 0.45:
                k = total - 1
            elif r < 0.7:
                k = cmdlen + rng.choice([-1, 0, 0, 0, 1])
            elif r < 0.85:
                k = rng.randint(0, 2)
            else:
                k = rng.randint(cmdlen, total - 1)
            k = max(0, min(total - 1, k))
            phase = rng.choice(["low", "low", "high", "rise", "fall"])
            if k == cmdlen and rng.random() < 0.5:
                phase = "low"
            if phase == "fall" and k == total - 1:
                phase = "high"          # CS released together with the LAST falling edge is not decided by the statement
            abort = (k, phase, rng.randint(1, 4))
        extra, extra_frame = 0, None
        if abort is None and rng.random() < 0.3:
            if rng.random() < 0.5:
                extra = rng.randint(1, rsz + 4)
            else:
                # more than a whole further frame under the same CS; often a perfectly formed write to a writable register
                extra = rng.randint(total, 2 * total + 6)
                targets = [x for x in mapped if regs[x]["kind"] in ("rw", "rw_narrow", "sfr", "sfr_noread")]
                if targets and rng.random() < 0.7:
                    extra_frame = (1 << (asz + rsz)) | (rng.choice(targets) << rsz) | rng.getrandbits(rsz)
        gap = rng.choice([1, 2, 3, 3, 4, 6, rng.randint(1, 12), rng.randint(4, 12)])
        prev = script[-1]["abort"] if script else None
        if prev is not None and prev[0] == cmdlen and prev[1] == "low" and prev[2] <= 3 and rng.random() < 0.6:
            gap = rng.randint(1, 4 - prev[2])      # CS idle time that ends within 4 cycles after the last command bit
        script.append({"write": write, "addr": a, "value": v, "abort": abort, "extra": extra, "extra_frame": extra_frame,
                       "gap": gap, "cs2clk": rng.randint(1, 5), "clk2cs": rng.randint(2, 6),
                       "poke": gap >= 4 and rng.random() < 0.6})
    res.desc = {"address_size": asz, "register_size": rsz, "default": "%#x" % default, "autoneg": autoneg, "half": hbase,
                "map": {"%#x" % a: regs[a]["kind"] for a in mapped},
                "script": [{k: ("%#x" % v if k in ("addr",) else v) for k, v in t.items() if k != "poke"} for t in script[:6]],
                "n_transactions": ntrans}
    res.sig(asz, rsz, default, autoneg, hbase, [(a, regs[a]["kind"], regs[a].get("width"), regs[a].get("const")) for a in mapped], script)

    spi = dut.spi
    b = Bench(dut, domain="sync", freq=60e6, max_cycles=60000)
    b.watch(spi.sck, spi.sdi, spi.sdo, spi.cs)
    strobes = {}          # addr -> signal
    for a, m in regs.items():
        if m.get("sig") is not None:
            b.watch(m["sig"])
        if m.get("ws") is not None:
            b.watch(m["ws"]); strobes[a] = m["ws"]
        if m.get("wsig") is not None:
            b.watch(m["wsig"])
        if m.get("src") is not None:
            b.watch(m["src"])
        if m.get("rstrobe") is not None:
            b.watch(m["rstrobe"])

    # ---------------------------------------------------------------- reference monitor
    st = {"prev_sck": 0, "prev_sdo": 0, "sel": False, "n": 0, "cmd": 0, "data": 0, "expect_read": None, "read_ok": True,
          "pending_strobe": {}, "pending_value": {}, "context": ("none", None), "done": False, "src_change": {}, "src_prev": {},
          "aborted_prev": False, "regime": False, "regime_until": -1, "cs_fall": -100, "n_at_fall": -1, "written": set(), "had_write": False, "had_readback": False, "had_abort": False, "cmd_cycle": -100}

    reset_cs = rng.random() < 0.25
    if reset_cs:
        # CS is already asserted when the block leaves reset: there is no CS edge, so whatever is clocked until CS is
        # released is not a transaction (the block documents a STALL state for this); nothing may be written.
        st.update(sel=True, done=True, n=total + 1, context=("reset_hold", None))
        res.bin("cs_asserted_at_reset")

    def read_value(a):
        m = regs.get(a)
        if m is None:
            return default, True
        if m["kind"] in ("rw", "rw_narrow"):
            return m["value"], True
        if m["kind"] == "ro_const":
            return m["const"] & rmask, True
        if m.get("src") is not None:
            stable = b.cycle - st["src_change"].get(a, -100) >= 3
            return b.get(m["src"]), stable
        return default, True

    def viol(mech, detail):
        if st["regime"] or b.cycle <= st["regime_until"]:
            detail = "[after a CS release inside the command turnaround, findings/C51.md] " + detail
        res.violation(mech, detail)

    src_list = [(a, m) for a, m in regs.items() if m.get("src") is not None]
    strobe_list = list(strobes.values())
    reg_list = [m for m in regs.values() if m.get("sig") is not None]
    cnt = {"strobe": 0, "reg": 0}
    get = b.get

    def ctx():
        return "context=%s asz=%d rsz=%d" % (st["context"], asz, rsz)

    def monitor(b):
        c = b.cycle
        sck, sdi, sdo, cs = b.get(spi.sck), b.get(spi.sdi), b.get(spi.sdo), b.get(spi.cs)
        # harness-driven read sources: remember when they changed
        for a, m in src_list:
            if True:
                v = get(m["src"])
                if v != st["src_prev"].get(a, 0):
                    st["src_prev"][a] = v
                    st["src_change"][a] = c
                    if c - st["cmd_cycle"] <= WINDOW and st["expect_read"] is not None and st["addr"] == a:
                        st["read_ok"] = False
        # ---- transaction reconstruction
        if cs and not st["sel"]:
            # Known defect regime (findings/C51.md): the previous transaction was abandoned after exactly the command bits and
            # CS was inactive only inside the three cycles that follow the last command bit's falling edge.
            e = st["cmd_cycle"]
            st["regime"] = (st["aborted_prev_now"] and st["n_at_fall"] == cmdlen and st["cs_fall"] >= e + 1 and c - 1 <= e + 3) \
                if "aborted_prev_now" in st else False
            if st["regime"]:
                res.bin("cs_idle_only_inside_command_turnaround")
            st.update(n=0, cmd=0, data=0, expect_read=None, read_ok=True, done=False)
            res.event("transactions")
            if st["aborted_prev"]:
                res.bin("transaction_after_abort")
            if c - st["cs_fall"] == 1:
                res.bin("cs_idle_1_cycle")
        if not cs and st["sel"]:
            st["cs_fall"], st["n_at_fall"], st["aborted_prev_now"] = c, st["n"], not st["done"]
            if st["regime"]:
                st["regime"] = False
                st["regime_until"] = c + WINDOW + 4
            if not st["done"]:
                st["aborted_prev"] = True
                st["had_abort"] = True
                res.event("aborts")
                is_w = (st["cmd"] >> asz) & 1 if st["n"] >= cmdlen else None
                st["context"] = ("abort", st["n"])
                if st["n"] < cmdlen:
                    res.bin("abort_in_command")
                elif is_w:
                    res.bin("abort_in_data_write")
                    if st["n"] == total - 1:
                        res.bin("abort_last_bit_write")
                if st["n"] in (cmdlen - 1, cmdlen, cmdlen + 1):
                    res.bin("abort_at_command_data_boundary")
                if st["prev_sck"]:
                    res.bin("abort_in_sck_high")
                if sck != st["prev_sck"]:
                    res.bin("abort_cs_release_coincident_with_sck_edge")
            else:
                st["aborted_prev"] = False
        st["sel"] = bool(cs)
        falling = st["prev_sck"] and not sck
        if cs and falling:
            n = st["n"]
            if n < cmdlen:
                st["cmd"] = (st["cmd"] << 1) | sdi
                if n + 1 == cmdlen:
                    a = st["cmd"] & (space - 1)
                    st["addr"] = a
                    val, ok = read_value(a)
                    st["expect_read"], st["read_ok"] = val, ok
                    st["cmd_cycle"] = c
                    if a not in regs and any((a ^ x) in regs for x in [1 << i for i in range(asz)]):
                        res.bin("address_one_bit_from_mapped")
            elif n < total:
                k = n - cmdlen
                st["data"] = (st["data"] << 1) | sdi
                # SDO as the host saw it at the end of the SCK-high time
                if st["read_ok"]:
                    exp = (st["expect_read"] >> (rsz - 1 - k)) & 1
                    res.event("sdo_bits_checked")
                    if st["prev_sdo"] != exp:
                        a = st["addr"]
                        kind = regs[a]["kind"] if a in regs else "unmapped"
                        viol("read_value_wrong_" + ("unmapped_address" if a not in regs else "mapped_register"),
                                      "cyc=%d addr=%#x (%s) value bit %d (MSB first): sdo=%d expected=%d (expected word %#x) %s"
                                      % (c, a, kind, k, st["prev_sdo"], exp, st["expect_read"], ctx()))
                        st["read_ok"] = False
                else:
                    res.unjudged += 1
                if n + 1 == total:
                    st["done"] = True
                    a, is_w, v = st["addr"], (st["cmd"] >> asz) & 1, st["data"]
                    m = regs.get(a)
                    if is_w:
                        res.event("complete_writes")
                        st["context"] = ("write", a)
                        st["had_write"] = True
                        if m is None:
                            res.bin("write_unmapped")
                        elif m["kind"] in ("rw", "rw_narrow"):
                            res.bin("write_rw")
                            if m["kind"] == "rw_narrow":
                                res.bin("write_narrow_register")
                            newv = v & ((1 << m["width"]) - 1)
                            if newv == m["value"]:
                                res.bin("write_same_value")
                            st["pending_value"][a] = {"new": newv, "deadline": c + WINDOW}
                            st["written"].add(a)
                        elif m["kind"] == "sfr":
                            res.bin("write_sfr")
                        elif m["kind"] in ("ro_sig", "ro_const"):
                            res.bin("write_read_only")
                        if m is not None and m.get("ws") is not None:
                            st["pending_strobe"][a] = {"deadline": c + WINDOW, "value": v}
                    else:
                        res.event("complete_reads")
                        st["context"] = ("read", a)
                        if m is None or (m["kind"] == "sfr_noread") or (m["kind"] == "sfr" and m.get("src") is None):
                            res.bin("read_unmapped_default")
                        else:
                            res.bin("read_mapped")
                            if m.get("label") == "autoneg":
                                res.bin("autoneg_register_read")
                            if a in st["written"]:
                                res.bin("read_back_written_value")
                                st["had_readback"] = True
            else:
                res.bin("extra_clocks_after_word")
                if n + 1 == 2 * total:
                    res.bin("extra_clocks_whole_second_frame")
            st["n"] = n + 1
        st["prev_sck"], st["prev_sdo"] = sck, sdo
        # ---- fast path: no strobe high, nothing outstanding, every register equal to the model
        cnt["strobe"] += len(strobe_list)
        cnt["reg"] += len(reg_list)
        if not st["pending_strobe"] and not st["pending_value"]:
            quiet = True
            for sig in strobe_list:
                if get(sig):
                    quiet = False
                    break
            if quiet:
                for m in reg_list:
                    if get(m["sig"]) != m["value"]:
                        quiet = False
                        break
                if quiet:
                    return
        # ---- write strobes
        for a, sig in strobes.items():
            p = st["pending_strobe"].get(a)
            if b.get(sig):
                if p is None:
                    kind, arg = st["context"]
                    if kind == "reset_hold":
                        mech = "write_while_cs_asserted_since_reset"
                    elif kind == "read":
                        mech = "write_strobe_on_read"
                    elif kind == "abort":
                        mech = "write_strobe_on_aborted_transaction"
                    elif kind == "write" and arg == a:
                        mech = "write_strobe_repeated"
                    elif kind == "write":
                        mech = "write_strobe_on_other_register"
                    else:
                        mech = "write_strobe_without_transaction"
                    viol(mech, "cyc=%d write strobe of register %#x high without a complete write to it; %s" % (c, a, ctx()))
                else:
                    res.event("write_strobes_matched")
                    m = regs[a]
                    if m.get("wsig") is not None:
                        res.event("sfr_write_values_checked")
                        got = b.get(m["wsig"])
                        if got != p["value"]:
                            viol("write_signal_wrong_value_at_strobe", "cyc=%d register %#x write_signal=%#x transmitted=%#x %s"
                                          % (c, a, got, p["value"], ctx()))
                    del st["pending_strobe"][a]
            elif p is not None and c > p["deadline"]:
                viol("write_strobe_missing", "cyc=%d complete write to %#x: no write strobe within %d cycles %s" % (c, a, WINDOW, ctx()))
                del st["pending_strobe"][a]
        # ---- register contents
        for a, m in regs.items():
            if m.get("sig") is None:
                continue
            v = b.get(m["sig"])
            p = st["pending_value"].get(a)
            if p is not None:
                if v == p["new"] and (v != m["value"] or c >= p["deadline"]):
                    m["value"] = v
                    res.event("register_updates_matched")
                    del st["pending_value"][a]
                    continue
                if v == m["value"]:
                    if c > p["deadline"]:
                        viol("write_not_applied", "cyc=%d register %#x still %#x, transmitted %#x %s" % (c, a, v, p["new"], ctx()))
                        del st["pending_value"][a]
                    continue
                viol("write_wrong_value", "cyc=%d register %#x became %#x, transmitted %#x (old %#x) %s" % (c, a, v, p["new"], m["value"], ctx()))
                m["value"] = v
                del st["pending_value"][a]
            elif v != m["value"]:
                kind, arg = st["context"]
                if kind == "reset_hold":
                    mech = "write_while_cs_asserted_since_reset"
                elif kind == "read":
                    mech = "register_changed_on_read"
                elif kind == "abort":
                    mech = "register_changed_on_aborted_transaction"
                elif kind == "write" and arg != a:
                    mech = "register_changed_by_write_to_other_address"
                else:
                    mech = "register_changed_without_write"
                viol(mech, "cyc=%d register %#x changed %#x -> %#x %s" % (c, a, m["value"], v, ctx()))
                m["value"] = v

    # ---------------------------------------------------------------- host driver
    def wait(n):
        for _ in range(n):
            yield

    def half():
        return max(4, hbase + rng.choice([0, 0, 0, 1, 2, -1, 3]))

    def clock_bit(v, abort=None):
        """one SCK period; SDI changes in the low time (>= 1 cycle after the falling edge, >= 1 before the rising edge).
        abort = ("low"|"high", off): release CS `off` cycles into that phase (clamped so that it is >= 1 cycle from the edges)."""
        hl, hh = half(), half()
        k = rng.randint(1, hl - 2)
        if abort and abort[0] == "low":
            off = max(1, min(hl - 1, abort[1]))
            yield from wait(off)
            b.set(spi.cs, 0)
            return True
        yield from wait(k)
        b.set(spi.sdi, v)
        yield from wait(hl - k)
        b.set(spi.sck, 1)
        if abort and abort[0] == "rise":
            b.set(spi.cs, 0)            # CS released in the very cycle of the rising edge
            yield from wait(rng.randint(1, 3))
            b.set(spi.sck, 0)
            return True
        if abort and abort[0] == "fall":
            yield from wait(hh)
            b.set(spi.sck, 0)           # CS released in the very cycle of this (not the last) falling edge
            b.set(spi.cs, 0)
            return True
        if abort and abort[0] == "high":
            off = max(1, min(hh - 1, abort[1]))
            yield from wait(off)
            b.set(spi.cs, 0)
            yield from wait(rng.randint(1, 3))
            b.set(spi.sck, 0)
            return True
        yield from wait(hh)
        b.set(spi.sck, 0)
        return False

    def poke_sources():
        for a, m in regs.items():
            if m.get("src") is not None and rng.random() < 0.6:
                b.set(m["src"], rng.choice([rng.getrandbits(rsz), rng.getrandbits(rsz), 0, rmask, 1 << rng.randrange(rsz)]))
                res.bin("read_source_changed")

    def driver():
        b.set(spi.sck, 0); b.set(spi.cs, 1 if reset_cs else 0); b.set(spi.sdi, 0)
        poke_sources()
        yield from wait(rng.randint(4, 8))
        if reset_cs:
            targets = [x for x in mapped if regs[x]["kind"] in ("rw", "rw_narrow", "sfr", "sfr_noread")]
            frame = (1 << (asz + rsz)) | (rng.choice(targets) << rsz) | rng.getrandbits(rsz) if targets else rng.getrandbits(total)
            for j in range(rng.choice([total, total, total + rng.randint(1, 5), rng.randint(1, total)])):
                yield from clock_bit((frame >> (total - 1 - j)) & 1 if j < total else rng.randint(0, 1))
            yield from wait(rng.randint(2, 6))
            b.set(spi.cs, 0)
        first = True
        for t in script:
            if first:
                yield from wait(4)
                first = False
            if t["poke"]:
                poke_sources()
            yield from wait(t["gap"])
            a = t["addr"]
            v = t["value"]
            if v == "same":
                m = regs.get(a)
                v = m["value"] if (m and "value" in m) else rng.getrandbits(rsz)
            word = ((1 if t["write"] else 0) << (asz + rsz)) | (a << rsz) | v
            bits = [(word >> (total - 1 - i)) & 1 for i in range(total)]
            b.set(spi.cs, 1)
            yield from wait(t["cs2clk"] - 1)
            aborted = False
            for i, bit in enumerate(bits):
                ab = None
                if t["abort"] is not None and t["abort"][0] == i:
                    ab = (t["abort"][1], t["abort"][2])
                aborted = yield from clock_bit(bit, ab)
                if aborted:
                    break
                if i == cmdlen + 3 and t["poke"] and rng.random() < 0.5:
                    poke_sources()          # long after the read value was taken: must not affect this transaction
            if aborted:
                continue
            for j in range(t["extra"]):
                if t["extra_frame"] is not None and j < total:
                    yield from clock_bit((t["extra_frame"] >> (total - 1 - j)) & 1)
                else:
                    yield from clock_bit(rng.randint(0, 1))
            yield from wait(t["clk2cs"])
            b.set(spi.cs, 0)
        yield from wait(WINDOW + 6)

    b.add_monitor(monitor)
    b.add_driver(driver())
    b.run()
    for a, p in st["pending_strobe"].items():
        viol("write_strobe_missing", "end of case: complete write to %#x never strobed" % a)
    for a, p in st["pending_value"].items():
        if regs[a]["value"] != p["new"]:
            viol("write_not_applied", "end of case: register %#x never took %#x" % (a, p["new"]))
    res.event("strobe_cycles_checked", cnt["strobe"])
    res.event("register_cycles_checked", cnt["reg"])
    res.cycles = b.cycle
    res.nontrivial = st["had_write"] and st["had_readback"] and st["had_abort"]
