"""C15 - isochronous IN endpoints send exactly the requested bytes per frame.

DUT: one or two real `USBIsochronousStreamInEndpoint`s (random endpoint numbers, max packet size 1..64; 15 % of the cases one
endpoint with max packet size 200/256/512/1023/1024, 4-6 frames of up to 3 x mps = 3072 bytes, directed at 2^n-1/2^n/2^n+1) inside a
real `USBDevice(bus=UTMIInterface())` (12 MHz timing tables; 20 % of the cases with the 60 MHz tables); packets leave through luna's endpoint multiplexer and data packet generator and
are captured (and CRC-checked by the reference codec) at the UTMI transmit side.

Workload: sessions of 8-20 (micro)frames.  Per frame: `bytes_in_frame` is set before the SOF (directed values 0, 1,
mps-1, mps, mps+1, 2*mps-1, 2*mps, 2*mps+1, 3*mps-1, 3*mps and random 0..3*mps), a SOF (sometimes damaged => no new
frame), then `bytes_in_frame` is often overwritten with a decoy (it must have been latched), then 0-5 IN tokens for the
endpoint (exactly the needed number, fewer, or more) at random offsets, interleaved with IN tokens for the other iso
endpoint, for absent endpoints, for other device addresses, damaged IN tokens and OUT transactions.  The producer side
of each endpoint's stream follows a legal valid/payload protocol (held until accepted) with profiles always / never /
random / bursty; payload bytes are a non-zero running sequence and garbage is driven while valid is low.  `tx_ready`
profiles always / every k / random / bursty, all rx byte-gap profiles.

Monitors: (1) the host model's UTMI transmit capture (every device packet, bytes accepted on tx_valid & tx_ready);
(2) per endpoint, every cycle: stream.valid/ready/payload -> the list of stream *transfers* (valid & ready, with cycle)
and the per-cycle history of stream.valid; (3) the cycle in which each transmitted byte was accepted by the PHY.

Oracle (reference model from the statement and USB 2.0 5.9.2 / 8.3.1, no luna code): a good SOF starts a frame with
remaining = bytes_in_frame (value present before the SOF), n = ceil(remaining / mps) packets; the k-th IN token of the frame
must be answered by a CRC-valid data packet of min(mps, remaining) bytes with PID DATA2/DATA1/DATA0 counted down from
n-1; when nothing is (left) to send the answer is a zero-length packet (DATA0 if the frame requested 0 bytes).  The payload
is judged against the stream without assuming a latency: stream bytes are never 0 (harness choice), so the non-zero bytes
of the payload must be exactly the bytes transferred on the stream since the previous packet, in order (nothing consumed
that was not sent, nothing sent twice, no garbage from an invalid stream), and a 0 byte is legitimate only if stream.valid
was low in at least one cycle of the window [t-3, t+1] around the cycle t in which the PHY accepted it; tokens for other
endpoints / addresses / damaged tokens must not move any of this and must not be answered.
(Deviation from DESIGN.md: the design compared with the ready-cycles "slots"; that would constrain stream.ready while
valid is low, which the statement does not, so transfers + a valid-history window are used instead.)

Not judged: the PID of a *surplus* zero-length packet after the frame's data has been sent (statement only demands a
ZLP; luna sends MDATA there - counted as event `surplus_zlp_pid_not_data0`); response latency (only a window);
IN tokens before the first SOF; `bytes_in_frame` > 3*mps; SOF arriving during a device transmission (illegal);
data_requested / frame_finished strobes; stability of tx_data while tx_ready is low and the stream toggles valid.
"""
from rv.sim import Bench
from rv.usb2host import UTMIHost, init_device_signals
from rv.ref import usb2 as U

PROPERTY = "C15"
CASES = {"quick": 352, "thorough": 6000}
RULE = ("case = device with 1-2 iso IN endpoints (mps 1..64), 8-20 frames; per frame directed/random bytes_in_frame (0..3*mps), "
        "decoy overwrite after the SOF, 0-5 IN tokens (needed / fewer / surplus) interleaved with foreign tokens; stream valid "
        "profile and tx_ready profile per case; non-trivial = >=1 three-packet frame, >=1 surplus ZLP, >=1 zero-filled byte; "
        "distinct = hash of configuration + per-frame script")
REQUIRED_BINS = ["frame_bytes_0", "frame_bytes_1", "frame_1_packet_full", "frame_1_packet_short", "frame_2_packets", "frame_3_packets",
                 "exact_multiple_2", "exact_multiple_3", "one_over_multiple", "pid_data0", "pid_data1", "pid_data2",
                 "zlp_empty_frame", "surplus_zlp", "fewer_tokens_than_needed", "frame_restart_with_leftover",
                 "decoy_after_sof", "damaged_sof_frame_continues", "zero_fill_byte", "stream_byte", "mixed_fill_packet",
                 "foreign_token_between", "other_dut_between", "tx_stalled_packet", "two_endpoints", "short_last_packet",
                 "timing_fs12", "timing_fs60", "mps_ge_200", "mps_ge_512", "frame_bytes_ge_256", "frame_bytes_ge_1024",
                 "frame_bytes_ge_2048", "frame_bytes_3072"]
REQUIRED_EVENTS = ["in_tokens_to_dut", "data_packets_checked", "payload_bytes_checked", "ready_cycles_seen", "stream_transfers_seen", "frames_started"]
ASSUMPTIONS = ["a frame starts at every well-formed SOF (the endpoint uses the token detector's new_frame, also for repeated frame numbers)",
               "bytes_in_frame is stable from >= 2 cycles before the SOF until >= 6 cycles after its end; later changes must be ignored (the statement does not fix the latch instant more precisely)",
               "the PID of surplus zero-length packets is not judged",
               "the device answers within the host model's response window (40 cycles + transmission time)"]

MPS_CHOICES = [1, 2, 3, 8, 8, 13, 16, 16, 32, 64]
LARGE_MPS_CHOICES = [1024, 1024, 1024, 1024, 1023, 512, 512, 256, 200]
PIDS = [U.DATA0, U.DATA1, U.DATA2]


class Ep:
    def __init__(self, dut, number, mps):
        self.dut, self.number, self.mps = dut, number, mps
        self.xfers = []          # (cycle, byte) of every stream transfer (valid & ready)
        self.xptr = 0            # transfers accounted for by checked packets
        self.valid_hist = bytearray()   # stream.valid per cycle
        self.remaining = 0
        self.pid_idx = 0
        self.frame_bytes = None  # None until the first frame
        self.sent_in_frame = 0
        self.packets_in_frame = 0
        self.prod = {"mode": "always", "p": 0.5}
        self.seq = 0


def build(rng):
    from luna.gateware.interface.utmi import UTMIInterface
    from luna.gateware.usb.usb2.device import USBDevice
    from luna.gateware.usb.usb2.endpoints.isochronous_stream_in import USBIsochronousStreamInEndpoint
    utmi = UTMIInterface()
    dev = USBDevice(bus=utmi)
    timing = "fs12"
    if rng.random() < 0.2:
        # the 60 MHz inter-packet timing tables (what the ULPI path configures), still at full speed
        dev.always_fs = False
        dev.data_clock = 60e6
        timing = "fs60"
    large = rng.random() < 0.15      # high-bandwidth sized endpoint: frames up to 3 x 1024 = 3072 bytes (12-bit counters)
    n_eps = 1 if large else 2 if rng.random() < 0.4 else 1
    eps = []
    for num in rng.sample(range(1, 16), n_eps):
        mps = rng.choice(LARGE_MPS_CHOICES if large else MPS_CHOICES)
        dut = USBIsochronousStreamInEndpoint(endpoint_number=num, max_packet_size=mps)
        dev.add_endpoint(dut)
        eps.append(Ep(dut, num, mps))
    return dev, utmi, eps, timing


def run_case(rng, tier, res):
    dev, utmi, eps, timing = build(rng)
    b = Bench(dev, domain="usb", freq=60e6, max_cycles=120000)
    gap_profile = rng.choice(["none", "none", "random", "fixed4", "onestall"])
    ready_profile = rng.choice(["always", "always", ("every", 2), ("every", 3), ("random", 0.5), ("random", 0.8), ("bursty", 12, 6), ("bursty", 3, 20)])
    large = eps[0].mps >= 200
    if large:
        ready_profile = rng.choice(["always", "always", ("random", 0.8), ("bursty", 3, 20)])    # keep the long packets affordable
        res.bin("mps_ge_200")
        if eps[0].mps >= 512:
            res.bin("mps_ge_512")
    host = UTMIHost(b, utmi, rng, timing=timing, ready_profile=ready_profile, gap_profile=gap_profile)
    for ep in eps:
        s = ep.dut.stream
        b.watch(s.valid, s.ready, s.payload, ep.dut.bytes_in_frame)
    if len(eps) == 2:
        res.bin("two_endpoints")
    res.desc = {"eps": [{"number": e.number, "mps": e.mps} for e in eps], "gap_profile": gap_profile,
                "ready_profile": ready_profile, "timing": timing, "frames": []}
    res.sig([(e.number, e.mps) for e in eps], gap_profile, ready_profile, timing)
    res.bin("timing_" + timing)
    ep_numbers = {e.number for e in eps}
    free_numbers = [n for n in range(0, 16) if n not in ep_numbers]
    st = {"expected_packets": 0, "accepted": []}

    # ------------------------------------------------------------------ stream side
    def monitor(b):
        if b.get(utmi.tx_valid) and b.get(utmi.tx_ready):
            st["accepted"].append((b.cycle, b.get(utmi.tx_data)))
        for ep in eps:
            s = ep.dut.stream
            v = b.get(s.valid)
            while len(ep.valid_hist) <= b.cycle:
                ep.valid_hist.append(0)
            ep.valid_hist[b.cycle] = v
            if b.get(s.ready):
                res.event("ready_cycles_seen")
                if v:
                    ep.xfers.append((b.cycle, b.get(s.payload)))
                    res.event("stream_transfers_seen")

    def producer(ep):
        s = ep.dut.stream
        salt = rng.randrange(255)
        pending = False
        burst = 0
        while True:
            if pending and b.get(s.valid) and b.get(s.ready):
                pending = False
            if not pending:
                m = ep.prod["mode"]
                if m == "always":
                    offer = True
                elif m == "never":
                    offer = False
                elif m == "random":
                    offer = rng.random() < ep.prod["p"]
                else:   # bursty: runs of offers and runs of silence
                    if burst == 0:
                        burst = rng.randint(1, 12) * rng.choice([1, -1])
                    offer = burst > 0
                    burst -= 1 if burst > 0 else -1
                if offer:
                    ep.seq += 1
                    b.set(s.valid, 1)
                    b.set(s.payload, (ep.seq * 7 + salt) % 255 + 1)      # never 0: distinguishable from zero fill
                    pending = True
                else:
                    b.set(s.valid, 0)
                    b.set(s.payload, rng.randrange(1, 256))               # garbage while not valid
            yield

    # ------------------------------------------------------------------ reference model
    def model_new_frame(ep, nbytes):
        if ep.frame_bytes is not None and ep.remaining > 0:
            res.bin("frame_restart_with_leftover")
        ep.frame_bytes = nbytes
        ep.remaining = nbytes
        n = (nbytes + ep.mps - 1) // ep.mps
        ep.pid_idx = max(n - 1, 0)
        ep.sent_in_frame = 0
        ep.packets_in_frame = 0
        res.event("frames_started")

    def check_response(ep, pkt, ctx):
        """An IN token for `ep` was sent; `pkt` is the device's answer (TxPacket or None)."""
        res.event("in_tokens_to_dut")
        st["expected_packets"] += 1 if pkt is not None else 0
        if pkt is None:
            res.violation("no_response_to_in", "ep%d mps=%d %s: IN token not answered" % (ep.number, ep.mps, ctx))
            return
        info = U.classify(bytes(pkt.data))
        if info["kind"] != "data":
            res.violation("response_not_a_valid_data_packet", "ep%d %s: device sent %s (%s)" % (ep.number, ctx, bytes(pkt.data).hex(), info))
            return
        res.event("data_packets_checked")
        payload = bytes(info["payload"])
        where = "ep%d mps=%d frame_bytes=%s packet#%d remaining=%d %s" % (ep.number, ep.mps, ep.frame_bytes, ep.packets_in_frame, ep.remaining, ctx)
        # ---- length
        exp_len = min(ep.mps, ep.remaining)
        if pkt.stalls:
            res.bin("tx_stalled_packet")
        if len(payload) != exp_len:
            mech = ("zlp_expected_but_data_sent" if exp_len == 0 else "zlp_sent_but_data_expected" if len(payload) == 0
                    else "packet_length_wrong")
            res.violation(mech, "%s: payload length %d, expected %d (%s)" % (where, len(payload), exp_len, payload[:16].hex()))
        # ---- PID
        if exp_len > 0:
            exp_pid = PIDS[ep.pid_idx]
            res.bin({U.DATA0: "pid_data0", U.DATA1: "pid_data1", U.DATA2: "pid_data2"}[exp_pid])
            if info["pid"] != exp_pid:
                res.violation("data_pid_wrong", "%s: PID %s, expected %s" % (where, U.PID_NAMES[info["pid"]], U.PID_NAMES[exp_pid]))
            ep.pid_idx = max(ep.pid_idx - 1, 0)
            if exp_len < ep.mps:
                res.bin("short_last_packet")
        else:
            if ep.frame_bytes == 0 and ep.packets_in_frame == 0:
                res.bin("zlp_empty_frame")
                if info["pid"] != U.DATA0:
                    res.violation("zlp_pid_wrong_in_empty_frame", "%s: PID %s, expected DATA0" % (where, U.PID_NAMES[info["pid"]]))
            else:
                res.bin("surplus_zlp")
                if info["pid"] != U.DATA0:
                    res.event("surplus_zlp_pid_not_data0")
        # ---- content against the stream
        n = len(payload)
        wire = [(c, d) for (c, d) in st["accepted"] if pkt.start is not None and pkt.start <= c < pkt.end]
        st["accepted"] = [x for x in st["accepted"] if pkt.end is not None and x[0] >= pkt.end]
        body = wire[1:-2]                                   # (cycle, byte) of the payload bytes
        new_x = ep.xfers[ep.xptr:]
        ep.xptr = len(ep.xfers)
        if len(body) != n or bytes(d for _, d in body) != payload:
            res.violation("harness_capture_mismatch", "%s: per-byte capture %s vs packet %s" % (where, body, payload.hex()))
            body = []
        nonzero = [d for _, d in body if d != 0]
        zeros = [c for c, d in body if d == 0]
        if zeros:
            res.bin("zero_fill_byte", len(zeros))
        if nonzero:
            res.bin("stream_byte", len(nonzero))
        if zeros and nonzero:
            res.bin("mixed_fill_packet")
        res.event("payload_bytes_checked", n)
        xv = [v for _, v in new_x]
        if nonzero != xv:
            if len(xv) > len(nonzero) and xv[:len(nonzero)] == nonzero:
                mech = "stream_consumed_but_not_sent"
            elif len(xv) < len(nonzero) and nonzero[:len(xv)] == xv:
                mech = "payload_byte_not_from_stream"
            elif sorted(xv) == sorted(nonzero):
                mech = "payload_out_of_order"
            else:
                mech = "payload_mismatch"
            res.violation(mech, "%s: sent=%s, stream transfers since previous packet=%s" % (where, payload[:40].hex(), bytes(xv[:40]).hex()))
        for c in zeros:
            lo, hi = max(0, c - 3), c + 1
            if all(ep.valid_hist[t] for t in range(lo, hi + 1) if t < len(ep.valid_hist)):
                res.violation("zero_fill_while_stream_valid", "%s: 0x00 accepted at cycle %d although stream.valid was high in cycles %d..%d; sent=%s" % (
                    where, c, lo, hi, payload[:24].hex()))
                break
        ep.remaining -= min(exp_len, ep.remaining)
        ep.packets_in_frame += 1

    # ------------------------------------------------------------------ host side
    def in_token(addr, num, damage=None, ctx=""):
        pkt = bytearray(U.token(U.IN, addr, num))
        if damage == "crc5":
            pkt[rng.randrange(1, 3)] ^= 1 << rng.randrange(8)
        elif damage == "pid":
            pkt[0] ^= 1 << rng.randrange(4, 8)
        yield from host.send_raw(bytes(pkt))
        r = yield from host.wait_response()
        return r

    def foreign_traffic():
        k = rng.choice(["absent_ep", "absent_ep", "foreign_addr", "damaged", "out_data", "near_ep"])
        res.bin("foreign_token_between")
        n_before = len(host.tx_packets)
        if k == "absent_ep":
            r = yield from in_token(0, rng.choice(free_numbers))
        elif k == "near_ep":
            ep = rng.choice(eps)
            near = [ep.number ^ m for m in (1, 2, 4, 8) if (ep.number ^ m) in free_numbers] or free_numbers
            r = yield from in_token(0, rng.choice(near))
        elif k == "foreign_addr":
            r = yield from in_token(rng.randint(1, 127), rng.choice(eps).number)
        elif k == "damaged":
            r = yield from in_token(0, rng.choice(eps).number, damage=rng.choice(["crc5", "pid"]))
        else:
            yield from host.send_raw(U.token(U.OUT, 0, rng.choice(free_numbers + [e.number for e in eps])))
            yield from host.idle(rng.randint(1, 4))
            yield from host.send_raw(U.data(rng.choice([U.DATA0, U.DATA1]), bytes(rng.randrange(256) for _ in range(rng.randint(0, 9)))))
            r = yield from host.wait_response()
        if r is not None or len(host.tx_packets) != n_before:
            res.violation("answered_foreign_token", "device transmitted %s after foreign traffic kind=%s" % (r, k))
        yield from host.idle(rng.randint(2, 8))
        # nothing of this may touch the endpoints' streams
        for ep in eps:
            if len(ep.xfers) != ep.xptr:
                res.violation("stream_consumed_by_foreign_token", "ep%d: %d stream bytes taken during foreign traffic kind=%s" % (ep.number, len(ep.xfers) - ep.xptr, k))
                ep.xptr = len(ep.xfers)

    def choose_bytes(ep, first):
        m = ep.mps
        directed = [0, 1, m - 1, m, m + 1, 2 * m - 1, 2 * m, 2 * m + 1, 3 * m - 1, 3 * m]
        if m >= 200:
            # counter-width boundaries of the 12-bit frame counters
            directed += [v for v in (255, 256, 257, 511, 512, 513, 1023, 1024, 1025, 2047, 2048, 2049, 3071, 3072) if v <= 3 * m]
            directed += [3 * m, 3 * m, 2 * m + 1]
        r = rng.random()
        if m >= 200 and r < 0.3:
            return rng.choice([3 * m, 3 * m, 3 * m, 3 * m - 1, 2 * m + 1])
        if first and r < 0.6:
            v = rng.choice([m, 2 * m, 3 * m, 3 * m - 1, m + 1])      # the very first frame after reset deserves full packets
        elif r < 0.7:
            v = rng.choice(directed)
        else:
            v = rng.randint(0, 3 * m)
        return max(0, min(v, 3 * m))

    def driver():
        init_device_signals(b, dev, utmi)
        if timing == "fs60":
            b.set(dev.full_speed_only, 1)
        for ep in eps:
            b.set(ep.dut.bytes_in_frame, 0)
        yield from host.idle(5)
        frame_no = rng.choice([1, 5, 2046, rng.randrange(1, 2048)])
        n_frames = rng.randint(8, 20) if tier == "quick" else rng.randint(8, 30)
        if large:
            n_frames = rng.randint(4, 6) if tier == "quick" else rng.randint(4, 8)
        for fi in range(n_frames):
            script = {}
            # ---- per-frame configuration, set before the SOF
            want = {}
            for ep in eps:
                want[ep.number] = choose_bytes(ep, fi == 0)
                b.set(ep.dut.bytes_in_frame, want[ep.number])
                if rng.random() < 0.5 or fi == 0:
                    mode = rng.choice(["always", "always", "never", "random", "random", "bursty"])
                    ep.prod["mode"] = mode
                    ep.prod["p"] = rng.choice([0.1, 0.3, 0.6, 0.9])
            yield from host.idle(rng.randint(2, 10))
            # ---- SOF
            damaged = fi > 0 and rng.random() < 0.1
            if rng.random() < 0.75:
                frame_no = (frame_no + 1) % 2048
            sof = bytearray(U.sof(frame_no))
            if damaged:
                sof[rng.randrange(1, 3)] ^= 1 << rng.randrange(8)
                res.bin("damaged_sof_frame_continues")
            yield from host.send_raw(bytes(sof))
            if not damaged:
                for ep in eps:
                    model_new_frame(ep, want[ep.number])
                    nb, m = want[ep.number], ep.mps
                    res.bin("frame_bytes_0" if nb == 0 else "frame_bytes_1" if nb == 1 else
                            "frame_1_packet_full" if nb == m else "frame_1_packet_short" if nb < m else
                            "frame_2_packets" if nb <= 2 * m else "frame_3_packets")
                    if nb == 2 * m and m > 0:
                        res.bin("exact_multiple_2")
                    if nb == 3 * m:
                        res.bin("exact_multiple_3")
                    if nb in (m + 1, 2 * m + 1):
                        res.bin("one_over_multiple")
                    for lim in (256, 1024, 2048):
                        if nb >= lim:
                            res.bin("frame_bytes_ge_%d" % lim)
                    if nb == 3072:
                        res.bin("frame_bytes_3072")
            script["sof"] = (frame_no, "damaged" if damaged else "good", dict(want))
            yield from host.idle(rng.randint(5, 14))
            # ---- decoy: the value must have been latched at the SOF
            if rng.random() < 0.7:
                for ep in eps:
                    decoy = rng.choice([0, ep.mps, 3 * ep.mps, rng.randint(0, 3 * ep.mps)])
                    b.set(ep.dut.bytes_in_frame, decoy)
                res.bin("decoy_after_sof")
                script["decoy"] = True
            # ---- tokens
            plan = []
            for ep in eps:
                if ep.frame_bytes is None:
                    continue
                need = max(1, (ep.remaining + ep.mps - 1) // ep.mps)
                r = rng.random()
                if r < 0.5:
                    k = need
                elif r < 0.7:
                    k = rng.randint(0, need - 1) if need > 1 else 0
                    if k < need and ep.remaining > 0:
                        res.bin("fewer_tokens_than_needed")
                else:
                    k = need + rng.randint(1, 2)
                plan += [ep] * k
            # keep each endpoint's tokens in order but interleave endpoints randomly
            rng.shuffle(plan)
            script["tokens"] = [e.number for e in plan]
            last = None
            for ep in plan:
                if rng.random() < 0.2:
                    yield from foreign_traffic()
                if last is not None and last is not ep:
                    res.bin("other_dut_between")
                last = ep
                if rng.random() < 0.3:
                    yield from host.idle(rng.randint(1, 60))
                if rng.random() < 0.15:
                    # flip the producer profile in the middle of a frame
                    ep.prod["mode"] = rng.choice(["always", "never", "random", "bursty"])
                pkt = yield from in_token(0, ep.number)
                check_response(ep, pkt, "frame#%d" % fi)
                for o in eps:
                    if o is not ep and len(o.xfers) != o.xptr:
                        res.violation("stream_consumed_by_other_endpoints_token", "ep%d consumed %d stream bytes while ep%d was addressed" % (o.number, len(o.xfers) - o.xptr, ep.number))
                        o.xptr = len(o.xfers)
                yield from host.idle(rng.randint(2, 9))
            if rng.random() < 0.25:
                yield from foreign_traffic()
            if len(res.desc["frames"]) < 8:
                res.desc["frames"].append(script)
            res.sig(sorted(script.items()), [e.prod["mode"] for e in eps])
        yield from host.idle(10)

    b.add_monitor(monitor)
    for ep in eps:
        b.add_driver(producer(ep), main=False)
    b.add_driver(driver())
    b.run()
    res.cycles = b.cycle
    if b.hit_max_cycles:
        res.violation("harness_max_cycles", "case did not finish in %d cycles" % b.max_cycles)
        return
    for ep in eps:
        if len(ep.xfers) != ep.xptr:
            res.violation("stream_consumed_but_not_sent", "ep%d: %d stream bytes taken after the last checked packet" % (ep.number, len(ep.xfers) - ep.xptr))
    if len(host.tx_packets) != st["expected_packets"]:
        res.violation("unsolicited_packet", "device sent %d packets, %d IN tokens for the endpoints were answered" % (len(host.tx_packets), st["expected_packets"]))
    res.nontrivial = all(res.bins.get(k) for k in ("frame_3_packets", "surplus_zlp", "zero_fill_byte"))
