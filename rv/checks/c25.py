"""C25 — the gateware full-speed PHY encodes and decodes USB line signalling.

DUT: the real luna.gateware.interface.gateware_phy.GatewarePHY, clocked with a 48 MHz `usb_io` and a
phase-related 12 MHz `usb` clock (the 12 MHz edge coincides with every 4th 48 MHz edge; which of the
four, relative to the PHY's internal bit-strobe counter, is drawn per case).  The io argument is a
plain object with d_p/d_n (+ optional pullup / pulldown / vbus_valid) pins.  A tiny wrapper models the
pad: the PHY's input sees its own output while it drives, otherwise the external line (idle J).
The bench uses amaranth.sim.Simulator directly (AUTHORING "anything the Bench cannot express"): the
line side runs on its own time base (ctx.delay) at 12 Mbit/s * (1 + d), |d| <= 0.25 %, random phase.

Workload (one case = a session of 6-13 steps, every step drawn from the rng):
  * tx     : UTMI transmit of 1..70 bytes (1 byte handshakes, real token/data packets, long runs of ones,
             six ones ending exactly at a byte / packet boundary, all zeros), UTMI contract kept exactly
             (data held until tx_ready, tx_valid dropped right after the last tx_ready); tx_data carries
             garbage (often all ones) while tx_valid is low; start 0..n cycles after the previous packet.
  * rx     : burst of 1-3 packets on D+/D- encoded by the reference codec (rv/ref/c25_line.py), rate offset
             drawn from {+-0.25 %, +-0.2 %, 0, random}, random phase, optional D+/D- skew <= 4 ns,
             inter-packet J of 2.. bit times, long packets (drift > 1 bit over the packet), packets that
             end in a stuffed bit, first bytes whose stuffing depends on the SYNC's final one;
             tight turn-arounds tx->rx and rx->tx.
  * rx_bad : a packet with one stuffed zero replaced by a one / removed (seven ones in a row),
             usually directly followed by a good packet (recovery).
  * pulls  : all eight term_select / dp_pulldown / dm_pulldown combinations once at the start of every case, then
             changes at arbitrary moments.
  * rx_fault / tx_restart (disturbances, themselves unjudged): a line packet with one bit time of SE1 or SE0 inside,
    with an SE0 of 3..40 bit times, or without EOP (a complete packet follows so that an SE0 closes whatever is
    open), always followed by a correct packet 1-6 bit times later, which is judged; tx_valid raised again 0-3 cycles
    after the PHY's own EOP SE0 appeared on the pad (the SIE breaks the inter-packet delay), line release judged.
  * one very long packet (128..515 bytes, thorough up to 1026) in ~12 % of the cases, tx or rx at +-0.25 %.
  * quiet non-driving (op_mode 1, tx_valid low) phases with reception, chirp-like raw phases (op_mode 2,
    constant tx_data; nothing judged), and as last step of ~45 % of the cases op_mode 1 *with* tx_valid
    activity, or op_mode switched to 1 in the middle of a transmission.
Monitors: one passive testbench per clock domain logs every edge (48 MHz: d_p/d_n o/oe, rx_error,
op_mode; 12 MHz: rx_active/valid/data/error, tx handshake, pull outputs and requests) together with the
current step number.  Judged after the run.
Oracle (independent, from USB 2.0 ch. 7.1 and UTMI 1.05):
  * every tx step produces exactly one driven span, made of 4-sample bit times, equal to
    SYNC + NRZI(stuff(bytes accepted on tx_valid&tx_ready, LSB first)) + SE0 SE0 J (a J driven one extra
    bit time is tolerated); nothing is driven in steps without transmit request;
  * every good line packet produces exactly one rx_active span whose rx_valid bytes are the bytes sent,
    rx_valid only inside rx_active, no rx_error inside the span; a stuffing violation produces rx_error
    at a 12 MHz edge during (or <= 4 cycles around) the span, and the bytes completed before it are right;
  * no D+/D- output enable while op_mode == 1 (8 samples grace after the switch);
  * pullup.o == term_select, pulldown.o == dp_pulldown | dm_pulldown (one pin for both resistors: a requested
    pull-down must be connected, none requested -> released; judged when the requests have been stable for 2 cycles).
Not judged: op_mode 2/3 behaviour, line_state / vbus_valid / session_end / rx_complete (the statement does not name
them), rx_error outside rx_active (luna's remover also counts the idle ones),
receive activity while the PHY itself drives, jitter beyond 1 ns, content after a stuffing violation.
Findings on the unchanged tree (findings/C25.md, known_findings.d/C25.json): op-mode constants swapped
(drives in op_mode 1), pulldown request wired to the pullup pin, rx_error only a 48 MHz pulse and also raised at
the EOP of good packets (remover never reset), transmit bit stuffer never reset (extra 0 bit after SYNC / lost
second byte).  Their classifiers are narrow: exact wire image for the transmit one, "all samples equal
dp|dm" for the pull-up; the EOP error only at 10+7n (or, five ones on K, 2) bit times after the last payload bit
in line time; the missed error only if the one-sample 48 MHz pulse sits one bit time (+-3 samples) after the
violating bit.
Deviation from the statement's letter, deliberate: USB 2.0 7.1.9 counts the SYNC's final one for
stuffing.  luna's transmitter does not (its receiver does).  The two encodings only differ for a first
byte xxx11111 (no legal PID); for those transmit packets either encoding is accepted and the case is
counted as unjudged (`tx_first_byte_stuff_ambiguous`).  On receive the USB encoding is sent and judged.
"""
from rv.ref import c25_line as L
from rv.ref import usb2 as U

PROPERTY = "C25"
CASES = {"quick": 480, "thorough": 8000}
RULE = ("case = PHY io variant (pullup/pulldown/vbus pins), 12 MHz clock phase 0..3 against the PHY's bit strobe, and a "
        "session of 6-13 steps from {tx packet, rx burst of 1-3 line packets with rate offset/phase/skew/gap, rx packet "
        "with stuffing violation (+ good packet right after), pull request change, quiet non-driving phase, raw phase, "
        "final non-driving phase with tx_valid activity or mode switch mid-packet}; non-trivial = >=1 judged tx packet "
        "with a stuffed bit and >=1 judged rx packet at non-zero rate offset; distinct = hash of variant + all step parameters")
REQUIRED_BINS = [
    "tx_len_1", "tx_len_ge_32", "tx_stuff_inside", "tx_stuff_after_last_bit", "tx_stuff_ge_3", "tx_idle_garbage_ones",
    "tx_start_gap_0", "tx_after_rx_tight", "tx_first_byte_stuff_ambiguous",
    "rx_drift_plus_max", "rx_drift_minus_max", "rx_drift_zero", "rx_long_packet", "rx_gap_min_2bits", "rx_stuff_after_last_bit",
    "rx_stuff_inside", "rx_first_byte_counts_sync_one", "rx_after_tx_tight", "rx_skewed", "rx_while_nondriving",
    "rx_bad_flipped_stuff_bit", "rx_bad_removed_stuff_bit", "rx_good_right_after_bad",
    "nondriving_tx_valid_activity", "nondriving_switch_mid_packet", "pull_change", "pulldown_dp_only", "pulldown_dm_only",
    "tx_len_ge_128", "rx_len_ge_128", "tx_restart_during_eop",
    "rx_after_fault_se1", "rx_after_fault_short_se0", "rx_after_fault_long_se0", "rx_after_fault_no_eop",
    "io_pullup_and_pulldown", "io_pullup_only", "io_pulldown_only", "io_no_pulls", "usb_phase_0", "usb_phase_1", "usb_phase_2", "usb_phase_3",
]
REQUIRED_EVENTS = ["io_samples", "usb_samples", "tx_packets_judged", "tx_bytes_accepted", "tx_symbols_compared",
                   "rx_packets_judged", "rx_bytes_compared", "rx_error_expected", "nondriving_samples_judged",
                   "pullup_samples_compared", "pulldown_samples_compared"]
ASSUMPTIONS = [
    "usb and usb_io are phase related: every usb edge coincides with a usb_io edge (as the PHY documents)",
    "pad model: the input of a driven pin reads back the driven value",
    "tx_data is a don't-care while tx_valid is low (UTMI); the bench puts garbage there",
    "first transmit byte xxx11111: both stuffing conventions (SYNC one counted or not) accepted, counted as unjudged",
    "rx_error is judged only at 12 MHz edges in or <= 4 cycles around rx_active",
    "single pulldown pin: it must be driven iff at least one of dp_pulldown / dm_pulldown is requested",
    "SE1 / one-bit SE0 inside a packet, over-long SE0, missing EOP and tx_valid raised during the PHY's own EOP are generated "
    "as unjudged disturbances: only the release of rx_active / the line behind them and the next correct packet are judged",
    "after the first violation of a case the remaining steps of that case are not judged (the DUT state is no longer trusted)",
]
TIMEOUT = {"quick": 900, "thorough": 4 * 3600}

P_IO = 20_832_000            # fs; 48.003 MHz, chosen so that half periods are integral femtoseconds
P_USB = 4 * P_IO
STALE = "tx_stale_bitstuffer_stall_at_end_of_sync"
SYM = {(1, 0): "J", (0, 1): "K", (0, 0): "0", (1, 1): "1"}


def _sec(fs):
    return (int(fs) + 0.25) / 1e15


# ---------------------------------------------------------------------------------------- stimulus

STUFFY = [0xFF, 0xFF, 0x7F, 0xFE, 0xFC, 0x3F, 0x7E, 0xBF, 0xFD, 0xF8, 0x1F, 0xEF, 0xF7, 0xDF, 0xFB, 0x00, 0x01, 0x80]


def gen_bytes(rng, tier, kind=None, long_ok=True):
    kind = kind or rng.choice(["random", "ones", "stuffy", "stuffy", "usb", "usb", "zeros", "alt", "edge", "edge", "hand"])
    if kind == "hand":
        return bytes([U.pid_byte(rng.choice([U.ACK, U.NAK, U.STALL, U.NYET]))]), kind
    n = rng.choice([1, 2, 2, 3, 3, 4, 5, 8, 9, 11, 13, rng.randint(1, 24)])
    if long_ok and rng.random() < 0.07:
        n = rng.choice([32, 35, 64, 67, 70, rng.randint(32, 70)])
    if kind == "random":
        d = [rng.randrange(256) for _ in range(n)]
    elif kind == "ones":
        d = [0xFF] * n
        if rng.random() < 0.5:
            d[rng.randrange(n)] = rng.choice([0xFE, 0x7F, 0xEF])
    elif kind == "stuffy":
        d = [rng.choice(STUFFY) for _ in range(n)]
    elif kind == "zeros":
        d = [0x00] * n
    elif kind == "alt":
        d = [rng.choice([0x55, 0xAA])] * n
    elif kind == "usb":
        r = rng.random()
        if r < 0.35:
            return U.token(rng.choice([U.OUT, U.IN, U.SETUP, U.SOF]), rng.randrange(128), rng.randrange(16)), kind
        pl = bytes(rng.choice(STUFFY) if rng.random() < 0.5 else rng.randrange(256) for _ in range(min(n, 64)))
        return U.data(rng.choice([U.DATA0, U.DATA1]), pl), kind
    else:  # edge: six ones ending exactly at a byte boundary / at the end of the packet
        d = [rng.choice([0xC3, 0x4B, 0xD2, rng.randrange(256)])]
        for _ in range(n - 1):
            d.append(rng.choice([0xFC, 0xFC, 0xFE, 0xFF, 0x7E, 0x3F, 0xF8, rng.randrange(256)]))
        d[-1] = rng.choice([0xFC, 0xFC, 0xFE, 0xFF, 0xF8 | rng.randrange(8)]) if rng.random() < 0.8 else d[-1]
    if rng.random() < 0.75:
        # a plausible first byte (PID-like): never five low ones
        d[0] = rng.choice([0xC3, 0x4B, 0xD2, 0x5A, 0x1E, 0x69, 0xE1, 0x2D, 0xA5, 0x0F, 0x87, 0x96])
    elif rng.random() < 0.5:
        d[0] = rng.choice([0xFF, 0x3F, 0x7F, 0x1F, 0xBF, 0x5F, 0xDF, 0x9F])
    return bytes(d), kind


def stuffing_profile(data):
    """(stuffed count, stuffed after the very last bit, stuffed exactly at a byte boundary) - USB rule."""
    st, where = L.stuffed_payload(data)
    nbits = len(data) * 8
    # position of a stuffed bit in terms of payload bits before it
    last = False
    boundary = False
    for k, w in enumerate(where):
        before = w - k
        if before == nbits:
            last = True
        elif before % 8 == 0:
            boundary = True
    return len(where), last, boundary


def break_stuffing(rng, data):
    """Wire image with one stuffing violation.  Returns (symbols, payload bits intact before the violation, how) or None."""
    st, where = L.stuffed_payload(data)
    if not where:
        return None
    k = rng.randrange(len(where))
    w = where[k]
    how = rng.choice(["flip", "remove"])
    if how == "remove" and (w + 1 >= len(st) or st[w + 1] != 1):
        how = "flip"
    bits = list(st)
    if how == "flip":
        bits[w] = 1
    else:
        del bits[w]
    good_bits = w - k           # payload bits before the missing/flipped stuff bit
    return L.nrzi(L.SYNC_BITS + bits) + L.EOP, good_bits, how, w


def make_script(rng, tier):
    steps = []
    n = rng.randint(6, 13)
    have_long = False
    for _ in range(n):
        r = rng.random()
        if r < 0.36:
            data, kind = gen_bytes(rng, tier, long_ok=not have_long)
            have_long = have_long or len(data) >= 32
            steps.append({"op": "tx", "data": data, "kind": kind,
                          "gap": rng.choice([0, 0, 1, 2, 3, 5, 9, rng.randint(0, 40)]),
                          "garbage": rng.choice(["ones", "ones", "zero", "random", "hold"])})
        elif r < 0.70:
            pk = []
            for j in range(rng.choice([1, 1, 2, 2, 3])):
                data, kind = gen_bytes(rng, tier, long_ok=not have_long)
                have_long = have_long or len(data) >= 32
                pk.append({"data": data, "kind": kind, "bad": None,
                           "gap_bits": rng.choice([2, 2, 2, 3, 4, 7, rng.randint(2, 30)])})
            steps.append(_rx_step(rng, pk))
        elif r < 0.82:
            pk = []
            for _try in range(20):
                data, kind = gen_bytes(rng, tier, kind=rng.choice(["ones", "stuffy", "edge"]), long_ok=False)
                b = break_stuffing(rng, data)
                if b:
                    pk.append({"data": data, "kind": kind, "bad": b, "gap_bits": rng.choice([2, 2, 3, 5, rng.randint(2, 20)])})
                    break
            if rng.random() < 0.75:
                data, kind = gen_bytes(rng, tier, long_ok=False)
                pk.append({"data": data, "kind": kind, "bad": None, "gap_bits": 2})
            if pk:
                steps.append(_rx_step(rng, pk))
        elif r < 0.87:
            # a malformed thing on the line (not judged), then a correct packet that must be delivered
            data, kind = gen_bytes(rng, tier, kind=rng.choice(["random", "stuffy", "usb", "zeros"]), long_ok=False)
            if len(data) < 2:
                data = data + bytes([rng.randrange(256)])
            fault = rng.choice(["se1", "short_se0", "long_se0", "no_eop"])
            steps.append({"op": "rx_fault", "fault": fault, "data": data, "at": rng.randrange(8, 8 + 8 * len(data)),
                          "len_bits": rng.choice([3, 4, 8, 20, 40]), "idle_bits": rng.choice([3, 5, 9, 20]),
                          "drift": rng.choice([0.0025, -0.0025, 0.0]), "phase_fs": rng.randrange(P_USB)})
            data, kind = gen_bytes(rng, tier, long_ok=False)
            nxt = _rx_step(rng, [{"data": data, "kind": kind, "bad": None, "gap_bits": 2}])
            nxt["pre_bits"] = rng.choice([1, 2, 3, 6])
            steps.append(nxt)
        elif r < 0.89:
            d1, _ = gen_bytes(rng, tier, long_ok=False)
            d2, _ = gen_bytes(rng, tier, long_ok=False)
            steps.append({"op": "tx_restart", "data": d1, "data2": d2, "gap": 2, "garbage": rng.choice(["ones", "zero"]),
                          "after_se0": rng.choice([0, 0, 1, 2, 3])})
        elif r < 0.94:
            steps.append({"op": "pulls", "term": rng.getrandbits(1), "dp": rng.getrandbits(1), "dm": rng.getrandbits(1),
                          "wait": rng.randint(3, 12)})
        elif r < 0.97:
            steps.append({"op": "quiet_nd", "on": True})
            data, kind = gen_bytes(rng, tier, long_ok=False)
            steps.append(_rx_step(rng, [{"data": data, "kind": kind, "bad": None, "gap_bits": 3}]))
            steps.append({"op": "quiet_nd", "on": False})
        else:
            steps.append({"op": "raw", "value": rng.choice([0x00, 0xFF]), "cycles": rng.randint(4, 40)})
    # a very long packet (the rate offset accumulates to several bit times) in ~12 % of the cases, transmit or receive
    if rng.random() < 0.12:
        n = rng.choice([128, 200, 256, 515]) if tier == "quick" else rng.choice([128, 256, 515, 1026, rng.randint(71, 1026)])
        body = bytes(rng.choice(STUFFY) if rng.random() < 0.4 else rng.randrange(256) for _ in range(n - 1))
        data = bytes([rng.choice([0xC3, 0x4B])]) + body
        allowed, nd = [], False
        for q in range(len(steps) + 1):           # not inside a quiet non-driving group, not between a fault and its good packet
            if q > 0 and steps[q - 1]["op"] == "quiet_nd":
                nd = steps[q - 1]["on"]
            if not nd and not (q > 0 and steps[q - 1]["op"] == "rx_fault"):
                allowed.append(q)
        pos = rng.choice(allowed)
        if rng.random() < 0.5:
            steps.insert(pos, {"op": "tx", "data": data, "kind": "vlong", "gap": rng.choice([0, 2, 9]), "garbage": rng.choice(["ones", "zero"])})
        else:
            st = _rx_step(rng, [{"data": data, "kind": "vlong", "bad": None, "gap_bits": 2}])
            st["drift"] = rng.choice([0.0025, -0.0025, 0.0025, -0.0025, st["drift"]])
            steps.insert(pos, st)
    r = rng.random()
    if r < 0.30:
        steps.append({"op": "nd_activity", "cycles": rng.randint(30, 90), "p_valid": rng.choice([0.3, 0.6, 0.9, 1.0]),
                      "data": rng.choice(["random", "ones", "zero"])})
    elif r < 0.45:
        data, kind = gen_bytes(rng, tier, kind=rng.choice(["random", "stuffy", "usb"]), long_ok=False)
        data = data + bytes(rng.randrange(256) for _ in range(3))
        steps.append({"op": "nd_switch", "data": data, "at_byte": rng.randrange(len(data)), "extra": rng.randint(0, 7),
                      "garbage": "ones", "gap": 2})
    return steps


def _rx_step(rng, pk):
    d = rng.choice([0.0025, 0.0025, -0.0025, -0.0025, 0.002, -0.002, 0.0, 0.0, rng.uniform(-0.0025, 0.0025)])
    return {"op": "rx", "packets": pk, "drift": d, "phase_fs": rng.randrange(P_USB),
            "skew_fs": rng.choice([0, 0, 0, rng.randrange(1, 4_000_000)]), "skew_first": rng.choice("pn"),
            "pre_bits": rng.choice([1, 1, 2, 3, 6, rng.randint(1, 25)]),
            "post": rng.choice([0, 0, 1, 2, 4, 10])}


# ---------------------------------------------------------------------------------------- bench

class _Pin:
    def __init__(self, name, **kw):
        from amaranth import Signal
        self.i = Signal(name=name + "_i", **kw)
        self.o = Signal(name=name + "_o")
        self.oe = Signal(name=name + "_oe")


class _IO:
    pass


def run_case(rng, tier, res):
    from amaranth import Elaboratable, Module, Signal, ClockDomain, Mux, Cat
    from amaranth.sim import Simulator
    import warnings
    from luna.gateware.interface.gateware_phy import GatewarePHY

    L.selftest()

    variant = rng.choice(["both", "both", "both", "pullup", "pulldown", "none"])
    with_vbus = rng.random() < 0.3
    usb_phase = rng.randrange(4)
    io = _IO()
    io.d_p = _Pin("d_p")
    io.d_n = _Pin("d_n")
    if variant in ("both", "pullup"):
        io.pullup = _Pin("pullup")
    if variant in ("both", "pulldown"):
        io.pulldown = _Pin("pulldown")
    if with_vbus:
        io.vbus_valid = _Pin("vbus_valid", init=1)
    res.bin({"both": "io_pullup_and_pulldown", "pullup": "io_pullup_only", "pulldown": "io_pulldown_only", "none": "io_no_pulls"}[variant])
    res.bin("usb_phase_%d" % usb_phase)

    steps = make_script(rng, tier)
    res.desc = {"io": variant, "vbus_pin": with_vbus, "usb_phase": usb_phase,
                "steps": [_describe(s) for s in steps[:8]], "n_steps": len(steps)}
    res.sig(variant, with_vbus, usb_phase, [_describe(s, full=True) for s in steps])

    phy = GatewarePHY(io=io)

    class Top(Elaboratable):
        def __init__(self):
            self.ext_p = Signal(init=1)
            self.ext_n = Signal()

        def elaborate(self, platform):
            m = Module()
            m.domains.usb = ClockDomain()
            m.domains.usb_io = ClockDomain()
            m.submodules.phy = phy
            m.d.comb += [
                io.d_p.i.eq(Mux(io.d_p.oe, io.d_p.o, self.ext_p)),
                io.d_n.i.eq(Mux(io.d_n.oe, io.d_n.o, self.ext_n)),
            ]
            return m

    top = Top()
    try:
        with warnings.catch_warnings():
            warnings.simplefilter("ignore")
            sim = Simulator(top)
    except AttributeError as e:
        if variant == "pulldown" and "pullup" in str(e):
            res.violation("elaborate_fails_pulldown_pin_without_pullup_pin",
                          "GatewarePHY(io with d_p, d_n, pulldown but no pullup).elaborate() raises %r: the pulldown request is "
                          "assigned to io.pullup.o" % (e,))
            res.nontrivial = False
            return
        raise
    sim.add_clock(_sec(P_IO), phase=_sec(P_IO // 2), domain="usb_io")
    sim.add_clock(_sec(P_USB), phase=_sec(P_IO // 2 + usb_phase * P_IO), domain="usb")

    pull_o = io.pullup.o if hasattr(io, "pullup") else Signal(name="no_pullup")
    pulld_o = io.pulldown.o if hasattr(io, "pulldown") else Signal(name="no_pulldown")
    iolog, usblog = [], []
    st = {"mark": 0, "stop": False}

    # one concatenated value per edge keeps the per-sample cost of the simulator low
    io_cat = Cat(io.d_p.oe, io.d_n.oe, io.d_p.o, io.d_n.o, phy.rx_error, phy.op_mode)
    usb_cat = Cat(phy.rx_active, phy.rx_valid, phy.rx_error, phy.tx_valid, phy.tx_ready, pull_o, pulld_o,
                  phy.term_select, phy.dp_pulldown, phy.dm_pulldown, phy.rx_data, phy.tx_data)

    async def mon_io(ctx):
        async for _, _, v in ctx.tick("usb_io").sample(io_cat):
            iolog.append((v & 1, (v >> 1) & 1, (v >> 2) & 1, (v >> 3) & 1, (v >> 4) & 1, (v >> 5) & 3, st["mark"]))

    async def mon_usb(ctx):
        async for _, _, v in ctx.tick("usb").sample(usb_cat):
            usblog.append((v & 1, (v >> 1) & 1, (v >> 10) & 0xFF, (v >> 2) & 1, (v >> 3) & 1, (v >> 4) & 1, (v >> 18) & 0xFF,
                           (v >> 5) & 1, (v >> 6) & 1, (v >> 7) & 1, (v >> 8) & 1, (v >> 9) & 1, st["mark"]))

    info = {"_usb_phase": usb_phase}      # per step index: what the conductor did

    def garbage_value(mode, hold):
        if mode == "ones":
            return 0xFF
        if mode == "zero":
            return 0x00
        if mode == "hold":
            return hold
        return rng.randrange(256)

    async def wait_line_released(ctx, bound=400):
        for _ in range(bound):
            v = await ctx.tick("usb").sample(io.d_p.oe, io.d_n.oe)
            if not (v[2] or v[3]):
                return True
        return False

    async def wait_rx_idle(ctx, bound=80):
        for _ in range(bound):
            v = await ctx.tick("usb").sample(phy.rx_active)
            if not v[2]:
                return True
        return False

    async def do_tx(ctx, k, s, switch=None):
        data = s["data"]
        rec = info[k] = {"accepted": [], "timeout": False, "released": True, "switched": False}
        for _ in range(s["gap"]):
            if s["garbage"] == "random":
                ctx.set(phy.tx_data, rng.randrange(256))
            await ctx.tick("usb")
        ctx.set(phy.tx_valid, 1)
        ctx.set(phy.tx_data, data[0])
        i = 0
        waited = 0
        countdown = None
        while i < len(data):
            v = await ctx.tick("usb").sample(phy.tx_ready)
            waited += 1
            if countdown is not None:
                countdown -= 1
                if countdown <= 0 and not rec["switched"]:
                    ctx.set(phy.op_mode, 1)
                    rec["switched"] = True
            if v[2]:
                rec["accepted"].append(data[i])
                if switch is not None and i == switch[0] and countdown is None:
                    countdown = switch[1]
                    if countdown == 0:
                        ctx.set(phy.op_mode, 1)
                        rec["switched"] = True
                i += 1
                waited = 0
                if i < len(data):
                    ctx.set(phy.tx_data, data[i])
                else:
                    ctx.set(phy.tx_valid, 0)
                    ctx.set(phy.tx_data, garbage_value(s["garbage"], data[-1]))
            elif waited > 60:
                rec["timeout"] = True
                ctx.set(phy.tx_valid, 0)
                break
        if switch is not None and not rec["switched"]:
            ctx.set(phy.op_mode, 1)
            rec["switched"] = True
        # the line must be released after sync/stuffing/EOP latency
        await ctx.tick("usb").repeat(3)
        rec["released"] = await wait_line_released(ctx)

    async def send_symbols(ctx, syms, tb, skew_fs, skew_first):
        t = 0
        k = 0
        n = len(syms)
        while k < n:
            s = syms[k]
            j = k
            while j < n and syms[j] == s:
                j += 1
            p, q = (1 if s in "J1" else 0), (1 if s in "K1" else 0)
            used = 0
            if skew_fs:
                if skew_first == "p":
                    ctx.set(top.ext_p, p)
                else:
                    ctx.set(top.ext_n, q)
                await ctx.delay(_sec(skew_fs))
                used = skew_fs
            ctx.set(top.ext_p, p)
            ctx.set(top.ext_n, q)
            target = int(round(j * tb))
            await ctx.delay(_sec(target - t - used))
            t = target
            k = j

    async def do_rx(ctx, k, s):
        tb = P_USB * (1.0 + s["drift"])
        rec = info[k] = {"idle_ok": True, "starts": [], "usb_phase": usb_phase}
        await ctx.delay(_sec(s["phase_fs"] + 1))
        await ctx.delay(_sec(int(s["pre_bits"] * tb)))
        for pi, p in enumerate(s["packets"]):
            syms = p["bad"][0] if p["bad"] else L.encode(p["data"])
            last = pi == len(s["packets"]) - 1
            # EOP's J is the first bit time of the inter-packet idle
            tail = "" if last else "J" * (p["gap_bits"] - 1)
            rec["starts"].append(len(iolog))        # 48 MHz edges elapsed when the first K of the SYNC is put on the line
            await send_symbols(ctx, syms + tail, tb, s["skew_fs"], s["skew_first"])
        ctx.set(top.ext_p, 1)
        ctx.set(top.ext_n, 0)
        await ctx.tick("usb").repeat(2)
        rec["idle_ok"] = await wait_rx_idle(ctx)
        if s["post"]:
            await ctx.tick("usb").repeat(s["post"])

    async def do_rx_fault(ctx, k, s):
        tb = P_USB * (1.0 + s["drift"])
        rec = info[k] = {"idle_ok": True}
        await ctx.delay(_sec(s["phase_fs"] + 1))
        await ctx.delay(_sec(int(3 * tb)))
        good = L.encode(s["data"])
        f = s["fault"]
        if f == "se1":
            syms = good[:s["at"]] + "1" + good[s["at"] + 1:]
        elif f == "short_se0":
            syms = good[:s["at"]] + "0" + good[s["at"] + 1:]
        elif f == "long_se0":
            syms = good[:-3] + "0" * s["len_bits"] + "J"
        else:   # no EOP: the line simply returns to idle; a complete packet follows so that an SE0 ends whatever is open
            syms = good[:-3] + "J" * s["idle_bits"] + L.encode(bytes([0xD2]))
        await send_symbols(ctx, syms + "J" * s["idle_bits"], tb, 0, "p")
        ctx.set(top.ext_p, 1)
        ctx.set(top.ext_n, 0)
        await ctx.tick("usb").repeat(2)
        rec["idle_ok"] = await wait_rx_idle(ctx)

    async def do_tx_restart(ctx, k, s):
        """tx_valid raised again while the PHY still sends the EOP of the previous packet (the SIE breaks the inter-packet
        delay): content not judged, the PHY must release the line and behave afterwards."""
        rec = info[k] = {"released": True}
        data = s["data"]
        ctx.set(phy.tx_valid, 1)
        ctx.set(phy.tx_data, data[0])
        i = 0
        for _ in range(60 * len(data) + 60):
            v = await ctx.tick("usb").sample(phy.tx_ready)
            if v[2]:
                i += 1
                if i < len(data):
                    ctx.set(phy.tx_data, data[i])
                else:
                    ctx.set(phy.tx_valid, 0)
                    break
        for _ in range(60):       # wait for the SE0 of the EOP on the pad
            v = await ctx.tick("usb").sample(io.d_p.oe, io.d_p.o, io.d_n.o)
            if v[2] and not v[3] and not v[4]:
                break
        if s["after_se0"]:
            await ctx.tick("usb").repeat(s["after_se0"])
        data = s["data2"]
        ctx.set(phy.tx_valid, 1)
        ctx.set(phy.tx_data, data[0])
        i = 0
        for _ in range(60 * len(data) + 60):
            v = await ctx.tick("usb").sample(phy.tx_ready)
            if v[2]:
                i += 1
                if i < len(data):
                    ctx.set(phy.tx_data, data[i])
                else:
                    break
        ctx.set(phy.tx_valid, 0)
        ctx.set(phy.tx_data, garbage_value(s["garbage"], 0))
        await ctx.tick("usb").repeat(3)
        rec["released"] = await wait_line_released(ctx)
        await ctx.tick("usb").repeat(16)

    async def conductor(ctx):
        ctx.set(phy.tx_data, rng.choice([0, 0xFF, rng.randrange(256)]))
        ctx.set(phy.term_select, 1)
        ctx.set(phy.xcvr_select, 1)
        await ctx.tick("usb").repeat(rng.randint(2, 6))
        combos = list(range(8))
        rng.shuffle(combos)
        for c in combos:                      # every request combination once, so a wrong pull mapping cannot hide
            ctx.set(phy.term_select, c & 1)
            ctx.set(phy.dp_pulldown, (c >> 1) & 1)
            ctx.set(phy.dm_pulldown, (c >> 2) & 1)
            await ctx.tick("usb").repeat(4)
        ctx.set(phy.term_select, 1)
        ctx.set(phy.dp_pulldown, 0)
        ctx.set(phy.dm_pulldown, 0)
        await ctx.tick("usb").repeat(rng.randint(2, 16))
        for k, s in enumerate(steps):
            st["mark"] = k
            op = s["op"]
            if op in ("tx",):
                await do_tx(ctx, k, s)
            elif op == "rx":
                await do_rx(ctx, k, s)
            elif op == "rx_fault":
                await do_rx_fault(ctx, k, s)
            elif op == "tx_restart":
                await do_tx_restart(ctx, k, s)
            elif op == "pulls":
                ctx.set(phy.term_select, s["term"])
                ctx.set(phy.dp_pulldown, s["dp"])
                ctx.set(phy.dm_pulldown, s["dm"])
                await ctx.tick("usb").repeat(s["wait"])
            elif op == "quiet_nd":
                ctx.set(phy.op_mode, 1 if s["on"] else 0)
                await ctx.tick("usb").repeat(3)
            elif op == "raw":
                ctx.set(phy.op_mode, 2)
                ctx.set(phy.tx_data, s["value"])
                await ctx.tick("usb").repeat(2)
                ctx.set(phy.tx_valid, 1)
                await ctx.tick("usb").repeat(s["cycles"])
                ctx.set(phy.tx_valid, 0)
                await ctx.tick("usb").repeat(2)
                ctx.set(phy.op_mode, 0)
                await ctx.tick("usb").repeat(24)
            elif op == "nd_activity":
                ctx.set(phy.op_mode, 1)
                await ctx.tick("usb").repeat(3)
                for _ in range(s["cycles"]):
                    ctx.set(phy.tx_valid, 1 if rng.random() < s["p_valid"] else 0)
                    ctx.set(phy.tx_data, {"random": rng.randrange(256), "ones": 0xFF, "zero": 0}[s["data"]])
                    await ctx.tick("usb")
                ctx.set(phy.tx_valid, 0)
                await ctx.tick("usb").repeat(6)
            elif op == "nd_switch":
                await do_tx(ctx, k, s, switch=(s["at_byte"], s["extra"]))
                await ctx.tick("usb").repeat(20)
        st["mark"] = len(steps)
        await ctx.tick("usb").repeat(12)

    sim.add_testbench(conductor)
    sim.add_testbench(mon_io, background=True)
    sim.add_testbench(mon_usb, background=True)
    with warnings.catch_warnings():
        warnings.simplefilter("ignore")
        sim.run()

    res.cycles = len(iolog)
    res.event("io_samples", len(iolog))
    res.event("usb_samples", len(usblog))
    judge(res, steps, info, iolog, usblog, variant)


def _describe(s, full=False):
    d = {"op": s["op"]}
    if s["op"] in ("tx", "nd_switch", "tx_restart"):
        d.update(data=s["data"].hex() if full else s["data"][:12].hex(), n=len(s["data"]), gap=s["gap"], garbage=s["garbage"])
        if s["op"] == "nd_switch":
            d.update(at=s["at_byte"], extra=s["extra"])
        if s["op"] == "tx_restart":
            d.update(data2=s["data2"].hex(), after_se0=s["after_se0"])
    elif s["op"] == "rx":
        d.update(drift=round(s["drift"], 6), phase_fs=s["phase_fs"], skew_fs=s["skew_fs"], pre=s["pre_bits"], post=s["post"],
                 packets=[{"data": p["data"].hex() if full else p["data"][:12].hex(), "n": len(p["data"]), "gap": p["gap_bits"],
                           "bad": (p["bad"][2], p["bad"][1]) if p["bad"] else None} for p in s["packets"]])
    elif s["op"] == "rx_fault":
        d.update(fault=s["fault"], data=s["data"].hex(), at=s["at"], len_bits=s["len_bits"], idle_bits=s["idle_bits"], drift=s["drift"], phase_fs=s["phase_fs"])
    else:
        d.update({k: v for k, v in s.items() if k != "op"})
    return d


# ---------------------------------------------------------------------------------------- judge

def _spans(flags):
    out = []
    start = None
    for i, f in enumerate(flags):
        if f and start is None:
            start = i
        elif not f and start is not None:
            out.append((start, i))
            start = None
    if start is not None:
        out.append((start, len(flags)))
    return out


def judge(res, steps, info, iolog, usblog, variant):
    nsteps = len(steps)
    first_bad = [None]     # step index of the first violation

    def viol(step, mech, detail, taints=True):
        # pull outputs are stateless: a mismatch there does not stop the judging of the data path
        if first_bad[0] is None or step <= first_bad[0]:
            if taints and first_bad[0] is None:
                first_bad[0] = step
            res.violation(mech, "step %d %s: %s" % (step, _describe(steps[step]) if step < nsteps else "", detail))

    # ---------------- global UTMI sanity: rx_valid only inside rx_active
    for i, u in enumerate(usblog):
        if u[1] and not u[0]:
            viol(min(u[-1], nsteps - 1), "rx_valid_outside_rx_active", "usb cycle %d rx_valid=1 rx_active=0 data=%#x" % (i, u[2]))
            break

    # ---------------- pull outputs
    stable = 0
    prev = None
    rows = []
    for i, u in enumerate(usblog):
        req = (u[9], u[10], u[11])
        stable = stable + 1 if req == prev else 0
        prev = req
        if stable >= 2:
            rows.append((i, u))
    if variant in ("both", "pullup"):
        for i, u in rows:
            term, dp, dm = u[9], u[10], u[11]
            res.event("pullup_samples_compared")
            if u[7] != term:
                mech = "pullup_output_mismatch"
                if all(x[7] == (x[10] | x[11]) for _, x in rows):      # all 8 request combinations are swept in every case
                    mech = "pullup_pin_follows_pulldown_request"
                viol(min(u[-1], nsteps - 1), mech, "usb cycle %d: pullup.o=%d term_select=%d dp_pulldown=%d dm_pulldown=%d" % (i, u[7], term, dp, dm), taints=False)
                break
    if variant in ("both", "pulldown"):
        for i, u in rows:
            term, dp, dm = u[9], u[10], u[11]
            if dp != dm:
                res.bin("pulldown_dp_only" if dp else "pulldown_dm_only")
            res.event("pulldown_samples_compared")
            if u[8] != (dp | dm):
                mech = "pulldown_output_mismatch"
                if all(x[8] == 0 for x in usblog):
                    mech = "pulldown_pin_never_driven"
                viol(min(u[-1], nsteps - 1), mech, "usb cycle %d: pulldown.o=%d dp_pulldown=%d dm_pulldown=%d" % (i, u[8], dp, dm), taints=False)
                break

    # ---------------- non-driving mode
    since = 0
    for i, s in enumerate(iolog):
        if s[5] == 1:
            since += 1
            if since > 8:
                res.event("nondriving_samples_judged")
                if s[0] or s[1]:
                    viol(min(s[-1], nsteps - 1), "drives_line_in_nondriving_mode",
                         "usb_io cycle %d: op_mode=1 (UTMI non-driving) for %d samples but d_p.oe=%d d_n.oe=%d (o=%d/%d)" % (i, since, s[0], s[1], s[2], s[3]))
                    break
        else:
            since = 0

    # ---------------- transmit side
    oe = [1 if (s[0] or s[1]) else 0 for s in iolog]
    tx_spans = {}
    for a, b in _spans(oe):
        tx_spans.setdefault(iolog[a][-1], []).append((a, b))
    for k in range(nsteps):
        s = steps[k]
        spans = tx_spans.get(k, [])
        if s["op"] == "tx":
            _judge_tx(res, viol, k, s, info.get(k), spans, iolog)
        elif s["op"] == "tx_restart":
            res.bin("tx_restart_during_eop")
            res.unjudged += 1
            if not info.get(k, {}).get("released", True):
                viol(k, "tx_line_never_released_after_restart", "d_p/d_n oe still high 400 cycles after tx_valid fell")
        elif s["op"] in ("raw", "nd_activity", "nd_switch"):
            if s["op"] == "nd_activity":
                res.bin("nondriving_tx_valid_activity")
            if s["op"] == "nd_switch" and info.get(k, {}).get("switched") and info[k]["accepted"]:
                res.bin("nondriving_switch_mid_packet")
        elif spans:
            viol(k, "drives_line_without_transmit_request", "driven span usb_io cycles %s in a step without tx_valid" % (spans[:2],))
    if tx_spans.get(nsteps):
        viol(nsteps - 1, "drives_line_without_transmit_request", "driven span after the last step")

    # ---------------- receive side
    act = [u[0] for u in usblog]
    rx_spans = {}
    for a, b in _spans(act):
        rx_spans.setdefault(usblog[a][-1], []).append((a, b))
    nd_on = False
    prev_op = None
    for k in range(nsteps):
        s = steps[k]
        spans = rx_spans.get(k, [])
        if s["op"] == "quiet_nd":
            nd_on = s["on"]
        if s["op"] == "rx":
            if nd_on:
                res.bin("rx_while_nondriving")
            if prev_op == "tx" and s["pre_bits"] <= 2:
                res.bin("rx_after_tx_tight")
            if prev_op == "rx_fault":
                res.bin("rx_after_fault_" + steps[k - 1]["fault"])
            _judge_rx(res, viol, k, s, info.get(k), spans, usblog, iolog)
        elif s["op"] == "rx_fault":
            res.unjudged += 1 + len(spans)
            if not info.get(k, {}).get("idle_ok", True):
                viol(k, "rx_active_stuck_after_line_fault", "rx_active still high 80 cycles after the line returned to idle behind an SE0")
        elif s["op"] in ("pulls", "quiet_nd") and spans:
            viol(k, "rx_active_without_packet", "rx_active span usb cycles %s while the line is idle" % (spans[:2],))
        elif spans:
            res.unjudged += len(spans)      # own transmission / raw drive: not judged
        if s["op"] == "tx" and prev_op == "rx" and s["gap"] <= 1 and steps[k - 1].get("post") == 0:
            res.bin("tx_after_rx_tight")
        if s["op"] == "pulls":
            res.bin("pull_change")
        prev_op = s["op"]

    b = res.bins
    res.nontrivial = bool(b.get("tx_stuff_inside") and (b.get("rx_drift_plus_max") or b.get("rx_drift_minus_max") or b.get("rx_drift_other")))


def _judge_tx(res, viol, k, s, rec, spans, iolog):
    data = s["data"]
    if rec is None:
        return
    if rec["timeout"]:
        viol(k, "tx_ready_timeout", "no tx_ready for 60 cycles after %d accepted bytes of %d" % (len(rec["accepted"]), len(data)))
        return
    res.event("tx_bytes_accepted", len(rec["accepted"]))
    if not rec["released"]:
        viol(k, "tx_line_never_released", "d_p/d_n oe still high 400 cycles after tx_valid fell")
        return
    if not spans:
        viol(k, "tx_nothing_driven", "%d bytes accepted but oe never rose" % len(data))
        return
    if len(spans) > 1:
        viol(k, "tx_drive_interrupted", "oe spans %s for one packet" % (spans[:4],))
        return
    a, b = spans[0]
    seg = iolog[a:b]
    if any(x[0] != x[1] for x in seg):
        viol(k, "tx_oe_not_differential", "d_p.oe != d_n.oe inside the packet")
        return
    raw = "".join(SYM[(x[2], x[3])] for x in seg)
    if len(raw) % 4:
        viol(k, "tx_bit_time_not_4_samples", "driven for %d 48 MHz samples (not a multiple of 4): %s" % (len(raw), raw[:120]))
        return
    syms = raw[0::4]
    for ph in (1, 2, 3):
        if raw[ph::4] != syms:
            viol(k, "tx_bit_time_not_4_samples", "line changes inside a 4-sample bit time: %s" % raw[:160])
            return
    exp_a = L.encode(data, True)
    exp_b = L.encode(data, False)
    res.event("tx_packets_judged")
    res.event("tx_symbols_compared", len(syms))
    nst, last, boundary = stuffing_profile(data)
    res.bin("tx_len_1" if len(data) == 1 else "tx_len_ge_32" if len(data) >= 32 else "tx_len_mid")
    if len(data) >= 128:
        res.bin("tx_len_ge_128")
    if nst:
        res.bin("tx_stuff_inside")
    if nst >= 3:
        res.bin("tx_stuff_ge_3")
    if last:
        res.bin("tx_stuff_after_last_bit")
    if boundary:
        res.bin("tx_stuff_at_byte_boundary")
    if s["garbage"] == "ones":
        res.bin("tx_idle_garbage_ones")
    if s["gap"] == 0:
        res.bin("tx_start_gap_0")
    ok = [exp_a, exp_b, exp_a + "J", exp_b + "J"]
    if syms in ok:
        if exp_a != exp_b:
            res.bin("tx_first_byte_stuff_ambiguous")
            res.unjudged += 1
        return
    # classify
    dec = L.decode(syms)
    # what a transmitter emits whose bit stuffer (never cleared: it also counts the bits shifted while idle and during
    # SYNC) stalls the shifter in the last SYNC bit time: one 0 bit before the first data bit, and - if the shifter's
    # "byte taken" flag was left set - the second byte acknowledged but never sent
    stale = [L.nrzi(L.SYNC_BITS + [0] + L.stuffed_payload(data, False)[0]) + L.EOP]
    if len(data) > 1:
        stale.append(L.nrzi(L.SYNC_BITS + [0] + L.stuffed_payload(data[:1] + data[2:], False)[0]) + L.EOP)
    if syms in stale:
        mech = STALE
    elif not syms.startswith(L.SYNC):
        mech = "tx_bad_sync"
    elif not (syms.endswith(L.EOP) and "0" not in syms[:-3]):
        mech = "tx_bad_eop"
    elif dec["ok"] and dec["data"] != data:
        mech = "tx_wrong_bytes_on_wire"
    elif dec["why"] in ("stuff_violation", "missing_final_stuff") or dec["why"].startswith("not_byte_multiple"):
        mech = "tx_bitstuffing_wrong"
    else:
        mech = "tx_wire_mismatch"
    viol(k, mech, "bytes=%s garbage=%s wire=%s expected=%s decode=%s" % (
        data.hex(), s["garbage"], syms, exp_a if exp_a == exp_b else exp_a + " | " + exp_b,
        {"ok": dec["ok"], "why": dec["why"], "data": dec["data"].hex()}), taints=(mech != STALE))


def _judge_rx(res, viol, k, s, rec, spans, usblog, iolog):
    pk = s["packets"]
    if rec is None:
        return
    d = s["drift"]
    dbin = "rx_drift_plus_max" if d >= 0.00249 else "rx_drift_minus_max" if d <= -0.00249 else "rx_drift_zero" if d == 0 else "rx_drift_other"
    if not rec["idle_ok"]:
        viol(k, "rx_active_stuck", "rx_active still high 80 cycles after the last EOP")
        return
    if len(spans) != len(pk):
        got = [bytes(u[2] for u in usblog[a:b] if u[1]).hex() for a, b in spans]
        mech = "rx_packet_missing" if len(spans) < len(pk) else "rx_active_split_or_spurious"
        if len(spans) < len(pk) and len(pk) > 1 and len(spans) >= 1:
            mech = "rx_packets_merged_or_missing"
        viol(k, mech, "%d line packets, %d rx_active spans; received=%s" % (len(pk), len(spans), got))
        return
    for pi, (p, (a, b)) in enumerate(zip(pk, spans)):
        seg = usblog[a:b]
        got = bytes(u[2] for u in seg if u[1])
        data = p["data"]
        err_in = any(u[3] for u in seg)
        nst, last, boundary = stuffing_profile(data)
        if p["bad"] is None:
            res.event("rx_packets_judged")
            res.event("rx_bytes_compared", len(data))
            res.bin(dbin)
            if len(data) >= 32:
                res.bin("rx_long_packet")
            if len(data) >= 128:
                res.bin("rx_len_ge_128")
            if pi > 0 and pk[pi - 1]["gap_bits"] == 2:
                res.bin("rx_gap_min_2bits")
                if pk[pi - 1]["bad"]:
                    res.bin("rx_good_right_after_bad")
            if nst:
                res.bin("rx_stuff_inside")
            if last:
                res.bin("rx_stuff_after_last_bit")
            if L.ambiguous_first_byte(data):
                res.bin("rx_first_byte_counts_sync_one")
            if s["skew_fs"]:
                res.bin("rx_skewed")
            if got != data:
                if L.ambiguous_first_byte(data):
                    # a receiver that does not count the SYNC's one (as luna's transmitter) cannot decode these
                    res.bin("rx_first_byte_ambiguous_mismatch")
                    res.unjudged += 1
                    continue
                if len(got) < len(data):
                    mech = "rx_bytes_lost"
                elif len(got) > len(data):
                    mech = "rx_extra_bytes"
                else:
                    mech = "rx_wrong_bytes"
                viol(k, mech, "packet %d sent=%s received=%s" % (pi, data.hex(), got.hex()))
                return
            if err_in:
                offs = [i for i, u in enumerate(seg) if u[3]]
                # where would a remover that keeps counting through the EOP see its seventh one?
                wire = L.encode(data)[:-3]
                st_bits, _ = L.stuffed_payload(data)
                t = 0
                for bit in reversed(st_bits):
                    if not bit:
                        break
                    t += 1
                # Known witness, exactly: the remover that is never reset decodes the idle line behind SE0 SE0 J as ones and
                # raises its seventh-one pulse 10 (+7n) bit times after the last payload bit - or 2 bit times after it when the
                # payload ends with five ones on K (SE0 SE0 then read as ones six and seven).  One bit time of pipeline latency
                # (measured on the violating packets).  Anything else is a different failure.
                tb4 = 4.0 * (1.0 + d)
                base = rec["starts"][pi] + len(wire) * tb4
                rels = [(rec["usb_phase"] + 4 * (a + off) - base) / 4.0 - 1.0 for off in offs]
                known = all(any(abs(r - (10 + 7 * n)) <= 0.75 for n in range(12)) or (t == 5 and wire[-1] == "K" and abs(r - 2) <= 0.75)
                            for r in rels)
                mech = "rx_error_on_good_packet_at_eop" if known else "rx_error_on_good_packet"
                viol(k, mech, "packet %d %s: rx_error high inside rx_active at usb cycle offsets %s of %d = %s bit times after the last "
                     "payload bit (packet ends with %d ones, line %s before SE0)" % (
                         pi, data.hex(), offs[:5], len(seg), [round(r, 1) for r in rels[:5]], t, wire[-1]), taints=False)
        else:
            res.event("rx_error_expected")
            res.bin("rx_bad_flipped_stuff_bit" if p["bad"][2] == "flip" else "rx_bad_removed_stuff_bit")
            good = p["bad"][1] // 8
            if got[:good] != data[:good]:
                viol(k, "rx_wrong_bytes_before_stuff_error", "packet %d sent=%s (violation after payload bit %d) received=%s" % (pi, data.hex(), p["bad"][1], got.hex()))
                return
            res.event("rx_bytes_compared", good)
            lo, hi = max(0, a - 4), min(len(usblog), b + 4)
            if not any(u[3] for u in usblog[lo:hi]):
                # was there a pulse at all, between two 12 MHz edges?
                # Known witness, exactly: the remover's one-48-MHz-cycle pulse for this very bit (the seventh one), one bit time
                # (4 +- 3 samples) after that bit ended on the line.  Idle-line pulses elsewhere do not count.
                pred = rec["starts"][pi] + (8 + p["bad"][3] + 1) * 4.0 * (1.0 + d) + 4
                pulses = sum(1 for x in iolog[max(0, int(round(pred)) - 3):int(round(pred)) + 4] if x[4])
                mech = "rx_error_not_reported" if not pulses else "rx_error_pulse_missed_by_12mhz_clock"
                viol(k, mech, "packet %d %s with stuffing violation (%s stuffed bit after payload bit %d): rx_error never high at a usb edge in "
                     "cycles %d..%d (rx_active %d..%d); 48 MHz samples with rx_error high within 3 samples of the violating bit + 1 bit time: %d" % (
                         pi, data.hex(), p["bad"][2], p["bad"][1], lo, hi, a, b, pulses), taints=(pulses == 0))
