"""C54 — PHYResetController produces the configured pulses and always finishes.

DUT: luna.gateware.architecture.car.PHYResetController(clock_frequency, reset_length, stop_length, power_on_reset).
Configuration: cycle counts N (reset) and M (stop) in 1..300, chosen directly; the lengths handed to the DUT are
(n - 0.5) / f so that the documented ceil(length * f) is n for any rounding of the float arithmetic.  M <, =, > N,
including pairs that straddle a power of two (the counter-width trap).  Also: durations that are a whole number of cycles
(power-of-two clocks, where the arithmetic is exact and the count must be n, not n + 1), the constructor defaults
(2 us at 60 MHz, individually overridden), and lengths of 301..1500 cycles.
Workload: trigger pulses at random times, while idle, during reset, during the stop phase, held high for many
cycles (back-to-back resets), one cycle after the return to idle.
Monitor: samples trigger / phy_reset / phy_stop every cycle and cuts the trace into pulses.
Oracle (from the statement): every phy_reset pulse lasts exactly N cycles; phy_stop is high throughout the pulse and
for exactly M cycles after it; both are low otherwise; a pulse starts only after a trigger sampled while idle (or
at power-on) and every such trigger starts one within 2 cycles; the controller is idle again no later than
N + M + 3 cycles after the trigger (bounded liveness) and honours the next trigger.
Not judged: the absolute latency between trigger and the first reset cycle beyond "within 2 cycles".
"""
from fractions import Fraction
from rv.sim import Bench

PROPERTY = "C54"
CASES = {"quick": 400, "thorough": 8000}
RULE = ("case = (N, M in 1..300, clock 1e6..120e6, power_on_reset, trigger script of 6-20 triggers incl. held and "
        "mid-sequence ones); non-trivial = >= 3 complete sequences observed; distinct = hash(config, trigger cycles)")
REQUIRED_BINS = ["stop_gt_reset", "stop_lt_reset", "stop_eq_reset", "stop_crosses_pow2_of_reset", "trigger_during_reset",
                 "trigger_during_stop", "trigger_held", "power_on", "no_power_on", "n_is_1", "m_is_1", "max_length_exact_power_of_two",
                 "whole_cycle_durations", "constructor_defaults", "length_gt_300"]
REQUIRED_EVENTS = ["reset_pulses_measured", "stop_tails_measured", "cycles_monitored", "triggers_while_idle"]
ASSUMPTIONS = ["cycle counts are set through lengths (n-0.5)/f so that ceil() is unambiguous",
               "trigger-to-reset latency is only required to be <= 2 cycles"]


def cycles_covering(length, f):
    """Cycle counts that 'the configured duration' may mean for a duration in seconds at clock f: the smallest count whose
    time covers the duration, computed exactly; when duration * f is within float rounding of a whole number both
    neighbouring readings are accepted (2 us at 60 MHz is 120 cycles, but 2e-6 * 60e6 is not exactly 120 in binary)."""
    from math import ceil
    x = Fraction(length) * Fraction(f)
    tol = x * Fraction(1, 10 ** 12)
    return {max(1, ceil(x - tol)), max(1, ceil(x + tol))}


def run_case(rng, tier, res):
    from luna.gateware.architecture.car import PHYResetController
    kind = rng.choice(["gt", "gt", "lt", "eq", "pow2", "pow2", "small", "exact_pow2", "exact_pow2", "dyadic", "dyadic", "special"])
    exact = None       # (clock, reset_length, stop_length) handed over as they are, for the kinds that do not use (n-0.5)/f
    if kind == "special":
        kind = rng.choice(["defaults", "defaults", "long"])
    if kind == "gt":
        n = rng.randint(1, 100); m = rng.randint(n + 1, 300)
    elif kind == "lt":
        m = rng.randint(1, 100); n = rng.randint(m + 1, 300)
    elif kind == "eq":
        n = m = rng.randint(1, 200)
    elif kind == "pow2":
        k = rng.randint(1, 7)
        n = rng.randint(max(1, (1 << (k - 1)) + (0 if k > 1 else 0)), (1 << k))   # needs k bits (or so)
        m = rng.randint((1 << k) + 1, min(300, (1 << (k + 1)) + 8))
    elif kind == "exact_pow2":
        # the longer of the two lengths is exactly a power of two (counter-width boundary), the other anything below or equal
        big = 1 << rng.randint(0, 8)
        small = rng.choice([big, max(1, big - 1), max(1, big // 2), rng.randint(1, big)])
        n, m = (big, small) if rng.random() < 0.5 else (small, big)
        res.bin("max_length_exact_power_of_two")
    elif kind == "dyadic":
        # durations that are a whole number of cycles: the clock is a power of two (Hz) and the lengths are n / f, so
        # 1/f, n/f and their quotient are exact in binary floating point and "the configured number of cycles" is n itself
        n = rng.choice([1, 2, 3, rng.randint(1, 40), rng.randint(1, 300)]); m = rng.choice([1, 2, rng.randint(1, 40), rng.randint(1, 300)])
        fd = float(1 << rng.randint(20, 26))
        exact = (fd, n / fd, m / fd)
        assert Fraction(n / fd) * Fraction(fd) == n and Fraction(m / fd) * Fraction(fd) == m
        res.bin("whole_cycle_durations")
    elif kind == "defaults":
        # constructor defaults (the configuration every luna platform uses): the cycle count is the smallest that covers
        # the duration; where the duration is a whole number of cycles up to float rounding, both neighbours are accepted
        n = m = None
        res.bin("constructor_defaults")
    elif kind == "long":
        n = rng.randint(301, 1500); m = rng.randint(301, 1500)
        res.bin("length_gt_300")
    else:
        n = rng.randint(1, 3); m = rng.randint(1, 6)
    f = rng.choice([1e6, 12e6, 48e6, 60e6, 100e6, 120e6, rng.uniform(1e6, 120e6)])
    por = rng.random() < 0.5
    if kind == "defaults":
        kw = {}
        if rng.random() < 0.5:
            kw["power_on_reset"] = por
        else:
            por = True
        which = rng.choice(["all", "clock", "reset", "stop"])
        f, rl, sl = 60e6, 2e-6, 2e-6
        if which == "clock":
            f = kw["clock_frequency"] = rng.choice([12e6, 48e6, 60e6, 100e6])
        elif which == "reset":
            rl = kw["reset_length"] = rng.choice([1e-6, 2e-6, 5e-6, 0.5e-6])
        elif which == "stop":
            sl = kw["stop_length"] = rng.choice([1e-6, 2e-6, 5e-6, 0.5e-6])
        dut = PHYResetController(**kw)
        n_ok, m_ok = cycles_covering(rl, f), cycles_covering(sl, f)
        n, m = min(n_ok), min(m_ok)
    elif exact:
        f = exact[0]
        dut = PHYResetController(clock_frequency=f, reset_length=exact[1], stop_length=exact[2], power_on_reset=por)
        n_ok, m_ok = {n}, {m}
    else:
        dut = PHYResetController(clock_frequency=f, reset_length=(n - 0.5) / f, stop_length=(m - 0.5) / f, power_on_reset=por)
        n_ok, m_ok = {n}, {m}
    res.desc = {"N": n, "M": m, "clock": f, "power_on_reset": por, "triggers": []}
    res.sig(n, m, por)
    res.bin("stop_gt_reset" if m > n else "stop_lt_reset" if m < n else "stop_eq_reset")
    if m > n and (m - 1).bit_length() > max(1, (n - 1).bit_length()):
        res.bin("stop_crosses_pow2_of_reset")
    res.bin("power_on" if por else "no_power_on")
    if n == 1:
        res.bin("n_is_1")
    if m == 1:
        res.bin("m_is_1")
    seq = n + m
    budget = seq * (rng.randint(4, 6) if kind == "long" else rng.randint(6, 14)) + 200
    b = Bench(dut, domain="sync", freq=60e6, max_cycles=budget + 50)
    b.watch(dut.trigger, dut.phy_reset, dut.phy_stop)

    st = {"phase": "idle", "count": 0, "pending_trigger": None, "since_trigger": None, "seqs": 0,
          "prev_reset": 0, "prev_stop": 0, "stuck": False}
    if por:
        st["pending_trigger"] = 0    # power-on counts as a trigger at cycle 0

    def monitor(b):
        trig, rst, stop = b.get(dut.trigger), b.get(dut.phy_reset), b.get(dut.phy_stop)
        res.event("cycles_monitored")
        ph = st["phase"]
        if st["stuck"]:
            return
        if rst and not stop:
            res.violation("stop_low_during_reset", "cyc=%d N=%d M=%d phy_reset=1 phy_stop=0" % (b.cycle, n, m))
        if ph == "idle":
            if rst or stop:
                if st["pending_trigger"] is None:
                    res.violation("pulse_without_trigger", "cyc=%d N=%d M=%d reset=%d stop=%d with no trigger while idle" % (b.cycle, n, m, rst, stop))
                if rst:
                    st["phase"], st["count"] = "reset", 1
                else:
                    res.violation("stop_without_reset", "cyc=%d N=%d M=%d phy_stop rose without phy_reset" % (b.cycle, n, m))
                    st["phase"], st["count"] = "stop", 1
                st["since_trigger"] = st["pending_trigger"] if st["pending_trigger"] is not None else b.cycle
                st["pending_trigger"] = None
            else:
                if st["pending_trigger"] is not None and b.cycle - st["pending_trigger"] > 2:
                    res.violation("trigger_ignored_while_idle", "N=%d M=%d trigger at cyc=%d, no reset by cyc=%d" % (n, m, st["pending_trigger"], b.cycle))
                    st["pending_trigger"] = None
                if trig and st["pending_trigger"] is None:
                    st["pending_trigger"] = b.cycle
                    res.event("triggers_while_idle")
        elif ph == "reset":
            if trig:
                res.bin("trigger_during_reset")
            if rst:
                st["count"] += 1
                if st["count"] > max(n_ok) + 8:
                    res.violation("reset_never_ends", "N=%d M=%d phy_reset still high after %d cycles" % (n, m, st["count"]))
                    st["stuck"] = True
            else:
                res.event("reset_pulses_measured")
                if st["count"] not in n_ok:
                    res.violation("reset_length_wrong", "N=%d M=%d phy_reset pulse lasted %d cycles" % (n, m, st["count"]))
                if stop:
                    st["phase"], st["count"] = "stop", 1
                else:
                    res.violation("no_stop_after_reset", "N=%d M=%d phy_stop low right after reset" % (n, m))
                    st["phase"] = "idle"
        elif ph == "stop":
            if trig:
                res.bin("trigger_during_stop")
            if rst:
                res.violation("reset_during_stop_phase", "cyc=%d N=%d M=%d" % (b.cycle, n, m))
                st["phase"], st["count"] = "reset", 1
            elif stop:
                st["count"] += 1
                if st["count"] > max(m_ok) + 8:
                    res.violation("stop_never_ends", "N=%d M=%d phy_stop still high %d cycles after reset fell (never returns to idle)" % (n, m, st["count"]))
                    st["stuck"] = True
            else:
                res.event("stop_tails_measured")
                if st["count"] not in m_ok:
                    res.violation("stop_length_wrong", "N=%d M=%d phy_stop stayed %d cycles after reset" % (n, m, st["count"]))
                total = b.cycle - st["since_trigger"]
                if total > max(n_ok) + max(m_ok) + 3:
                    res.violation("sequence_too_long", "N=%d M=%d %d cycles from trigger to idle" % (n, m, total))
                st["phase"] = "idle"
                st["seqs"] += 1
                # a trigger sampled in this very cycle is sampled while idle
                if trig:
                    st["pending_trigger"] = b.cycle
                    res.event("triggers_while_idle")

    def driver():
        t = 0
        b.set(dut.trigger, 0)
        while t < budget:
            mode = rng.choice(["idle_wait", "idle_wait", "mid_reset", "mid_stop", "held", "right_after"])
            if mode == "idle_wait":
                w = rng.randint(seq + 2, seq + 30)
            elif mode == "mid_reset":
                w = rng.randint(1, max(1, n))
            elif mode == "mid_stop":
                w = n + rng.randint(1, max(1, m))
            elif mode == "right_after":
                w = seq + rng.randint(0, 3)
            else:
                w = rng.randint(1, seq + 5)
            for _ in range(w):
                yield
            t += w
            hold = 1
            if mode == "held":
                hold = rng.randint(2, 2 * seq + 10)
                res.bin("trigger_held")
            b.set(dut.trigger, 1)
            res.desc["triggers"].append((t, hold))
            res.sig(t, hold)
            for _ in range(hold):
                yield
            t += hold
            b.set(dut.trigger, 0)
        for _ in range(seq + 10):
            yield

    b.add_monitor(monitor)
    b.add_driver(driver())
    b.run()
    res.cycles = b.cycle
    res.desc["triggers"] = res.desc["triggers"][:10]
    res.nontrivial = st["seqs"] >= 3
