"""C28 — OUT boundary detection marks first/last bytes and delays completion.

DUT: luna.gateware.usb.stream.USBOutStreamBoundaryDetector, stand-alone, in the default domain, domain="usb" given
explicitly, domain="sync" or another name ("ss"/"fast"/"rx"): the Bench clocks the requested domain, "usb"/"sync" stay alive
as bystanders on unrelated clocks (rv.sim.with_bystanders), so a part of the block left in "usb" would misbehave visibly;
a design that does not contain the requested domain at all is reported as `requested_domain_not_used`.

Workload (per case 40-90 packets, explicit per-cycle schedule): packet lengths 0..70 biased to 1/2/3, byte-gap
profiles (dense, random, one long stall, fixed k incl. the real FS-at-60MHz spacing of 39), lead-in cycles
(valid high before the first byte: 0..3), trailing cycles (valid still high after the final byte), inter-packet
gaps down to a single cycle, random garbage on `payload` whenever `next` is low, and complete_in / invalid_in
pulses at every position of the packet: on the cycle `valid` falls (what the real receiver does), on the final
byte, early, at random cycles, several pulses per packet, 2-3 cycle wide pulses, both kinds in one packet.
"Loose" strobes (idle line, lead-in, after `valid` fell) are generated in a minority of cases.  Added after the
coverage audit: `next` toggling while `valid` is low (40 % of the cases; not a byte, bytes are valid & next), strobes in
the very cycle of the first byte (judged: the packet has begun), and as the final pair of 30 % of the cases a packet whose
first byte arrives in the cycle right after a one-cycle gap (valid and next rise together).

Monitor: every cycle samples the inputs the DUT saw and the outputs; it rebuilds the input packets from the sampled
inputs (not from the driver's bookkeeping), records output byte events (processed_stream.valid & next) with
first/last, and the assertion intervals of complete_out / invalid_out.

Oracle (post-hoc over the recorded history, written from the statement):
  * output bytes == input bytes, same order, nothing lost / duplicated / invented; every output byte appears no
    earlier than its input byte and the final byte of a packet within 8 cycles after `valid` fell (bounded progress);
  * `first` set exactly on byte 0 of each packet, `last` exactly on the final byte;
  * complete_out / invalid_out are never high from the first output byte of a packet through its last output byte
    (i.e. also not in the cycle of the last byte) — "only after the last byte";
  * a strobe kind seen inside the packet window (cycle of the first byte ... cycle in which `valid` is first
    sampled low, inclusive) is reported exactly once (one assertion) after the packet's last output byte and
    before the next packet's first output byte, within 8 cycles; a kind not seen is not reported.

Findings on the unchanged tree (known_findings.d/C28.json, findings/C28.md), each with its own narrow mechanism: a strobe
pulsed *only* in the first-byte cycle is dropped (`strobe_in_first_byte_cycle_dropped`); the first byte of a packet that
starts in the cycle right after a one-cycle gap is lost (`first_byte_lost_right_after_one_cycle_gap`; that pair is the
last thing in a schedule, and the rest of the history is judged without it).

Not judged: whether loose strobes (outside the window) are reported or dropped: they only widen the
allowed count of the neighbouring packets.  Width of the complete_out/invalid_out pulses, processed_stream.valid by itself. first/last values while no byte is output.  Zero-byte packets (valid
pulse without any `next`) must produce no output byte; strobes during them are loose.  Exact latency (only
causality and the 8-cycle bound).
"""
from rv.sim import Bench, with_bystanders

PROPERTY = "C28"
CASES = {"quick": 176, "thorough": 3200}
RULE = ("case = 40-90 packets on the unprocessed stream: length 0..70 (biased to 1,2,3), lead 0..3, byte-gap profile, trailing "
        "cycles, inter-packet gap >=1, complete/invalid pulses placed at chosen offsets of the packet window (fall cycle, last byte, "
        "early, random, multiple, wide, both kinds), 15% of the cases add loose strobes outside packets; non-trivial = case has a "
        "1-byte packet, a strobe on the fall cycle, an early strobe and a min-gap packet pair; distinct = hash of the per-cycle schedule")
REQUIRED_BINS = ["len_1", "len_2", "len_ge_32", "len_0", "lead_0", "lead_ge_2", "gap_1", "trail_ge_1", "byte_gaps",
                 "strobe_on_fall_cycle", "strobe_on_last_byte", "strobe_early", "strobe_multiple", "strobe_wide", "strobe_both_kinds",
                 "strobe_none", "invalid_strobe", "loose_strobe", "len_1_with_strobe", "min_spacing_after_strobe",
                 "next_without_valid", "strobe_on_first_byte", "byte_right_after_one_cycle_gap",
                 "domain_default", "domain_explicit_usb", "domain_sync", "domain_other"]
REQUIRED_EVENTS = ["packets_judged", "bytes_compared", "first_flags_seen", "last_flags_seen", "complete_out_seen", "invalid_out_seen",
                   "strobes_required", "cycles_monitored"]
ASSUMPTIONS = ["a strobe during lead-in, on the idle line or after valid fell is 'loose': "
               "it may be reported or dropped (only the upper bound of the neighbouring packets is widened)",
               "byte events are processed_stream.valid & processed_stream.next; first/last are judged only on byte events",
               "latency is bounded (8 cycles after valid falls) but otherwise unconstrained"]

BOUND = 8


def gen_schedule(rng, res):
    """Returns list of per-cycle tuples (valid, next, payload, complete_in, invalid_in)."""
    sched = []
    loose_case = rng.random() < 0.15
    npk = rng.randint(40, 90)
    tag = rng.randrange(256)
    mult = rng.choice([1, 3, 7, 37, 101])
    value_mode = rng.choice(["tag", "tag", "tag", "random", "const"])
    const = rng.choice([0x00, 0xFF, 0x5A])
    counter = [0]

    def nextbyte():
        counter[0] += 1
        if value_mode == "tag":
            return (tag + counter[0] * mult) & 0xFF
        if value_mode == "random":
            return rng.randrange(256)
        return const

    stray_next = rng.random() < 0.4      # `next` toggles while `valid` is low (not a byte: bytes are valid & next)
    if stray_next:
        res.bin("case_with_next_without_valid")

    def idle_cycle(c=0, i=0):
        nx = 1 if (stray_next and rng.random() < 0.5) else 0
        if nx:
            res.bin("next_without_valid")
        sched.append([0, nx, rng.randrange(256), c, i])

    for _ in range(rng.randint(1, 4)):
        idle_cycle()
    prev_had_strobe = False
    prev_igap = 9
    for p in range(npk):
        r = rng.random()
        if r < 0.14:
            n = 1
        elif r < 0.24:
            n = 2
        elif r < 0.31:
            n = 3
        elif r < 0.36:
            n = 0
        elif r < 0.50:
            n = rng.randint(32, 70)
        elif r < 0.56:
            n = rng.choice([8, 16, 64])
        else:
            n = rng.randint(4, 31)
        lead = rng.choice([0, 1, 1, 1, 1, 2, 2, 3]) if n else rng.randint(1, 4)
        if lead == 0 and prev_igap < 2:
            lead = 1          # a byte in the cycle right after a one-cycle gap is not legal UTMI (RXActive precedes RXValid)
        gp = rng.choice(["none", "none", "random", "onestall", "fixed", "fs39"])
        if gp == "fs39" and n > 6:
            gp = "fixed"
        if gp == "none":
            gaps = [0] * n
        elif gp == "random":
            gaps = [rng.choice([0, 0, 1, 2, 3, 6]) for _ in range(n)]
        elif gp == "onestall":
            gaps = [0] * n
            if n:
                gaps[rng.randrange(n)] = rng.randint(5, 20)
        elif gp == "fixed":
            k = rng.randint(1, 5)
            gaps = [k] * n
        else:
            gaps = [39] * n
        if n:
            gaps[0] = 0      # lead handles the time before byte 0
        trail = rng.choice([0, 0, 0, 1, 2, 3])
        start = len(sched)
        for _ in range(lead):
            sched.append([1, 0, rng.randrange(256), 0, 0])
        byte_cyc = []
        for j in range(n):
            for _ in range(gaps[j]):
                sched.append([1, 0, rng.randrange(256), 0, 0])
            byte_cyc.append(len(sched))
            sched.append([1, 1, nextbyte(), 0, 0])
        for _ in range(trail):
            sched.append([1, 0, rng.randrange(256), 0, 0])
        fall = len(sched)
        igap = rng.choice([1, 1, 2, 2, 3, 4, rng.randint(1, 12)])
        for _ in range(igap):
            idle_cycle()
        # ---- bins
        res.bin("len_%d" % n if n <= 2 else "len_ge_32" if n >= 32 else "len_mid")
        if n:
            res.bin("lead_0" if lead == 0 else "lead_ge_2" if lead >= 2 else "lead_1")
        if igap == 1:
            res.bin("gap_1")
        if trail:
            res.bin("trail_ge_1")
        if any(gaps):
            res.bin("byte_gaps")
        if prev_had_strobe and n and lead + prev_igap <= 2:
            res.bin("min_spacing_after_strobe")
        prev_had_strobe = False
        prev_igap = igap
        # ---- strobes
        if n == 0:
            if loose_case and rng.random() < 0.5:
                sched[rng.randrange(start, fall + 1)][3 + rng.randrange(2)] = 1
                res.bin("loose_strobe")
            continue
        first = byte_cyc[0]
        win = list(range(first + 1, fall + 1))       # cycles that count as "during the packet"
        s = rng.random()
        kinds = []
        if s < 0.13:
            res.bin("strobe_none")
        elif s < 0.20:
            # in the very cycle of the first byte: the packet has begun, so this is "during the packet"
            kind = rng.choice([3, 4])
            sched[first][kind] = 1
            kinds.append(kind)
            if rng.random() < 0.3 and win:
                sched[rng.choice(win)][kind] = 1
            res.bin("strobe_on_first_byte")
        elif s < 0.42:
            kind = 3 if rng.random() < 0.65 else 4
            sched[fall][kind] = 1
            kinds.append(kind)
            res.bin("strobe_on_fall_cycle")
        elif s < 0.52:
            kind = rng.choice([3, 4])
            c = byte_cyc[-1]
            if c in win:
                sched[c][kind] = 1
                kinds.append(kind)
                res.bin("strobe_on_last_byte")
        elif s < 0.64:
            kind = rng.choice([3, 4])
            sched[win[0]][kind] = 1
            kinds.append(kind)
            res.bin("strobe_early")
        elif s < 0.76:
            kind = rng.choice([3, 4])
            sched[rng.choice(win)][kind] = 1
            kinds.append(kind)
        elif s < 0.86:
            kind = rng.choice([3, 4])
            for c in rng.sample(win, min(len(win), rng.randint(2, 4))):
                sched[c][kind] = 1
            kinds.append(kind)
            if len(win) >= 2:
                res.bin("strobe_multiple")
        elif s < 0.93:
            kind = rng.choice([3, 4])
            c0 = rng.choice(win)
            w = 0
            for c in range(c0, min(c0 + rng.randint(2, 3), fall + 1)):
                sched[c][kind] = 1
                w += 1
            kinds.append(kind)
            if w >= 2:
                res.bin("strobe_wide")
        else:
            ca, cb = rng.choice(win), rng.choice(win)
            sched[ca][3] = 1
            sched[cb][4] = 1
            kinds += [3, 4]
            res.bin("strobe_both_kinds")
        if 4 in kinds:
            res.bin("invalid_strobe")
        if kinds:
            prev_had_strobe = True
            if n == 1:
                res.bin("len_1_with_strobe")
        if loose_case and rng.random() < 0.4:
            where = rng.choice(["lead", "after", "idle"])
            kind = rng.choice([3, 4])
            if where == "lead" and lead:
                sched[rng.randrange(start, start + lead)][kind] = 1
            elif where == "after":
                sched[min(fall + 1, len(sched) - 1)][kind] = 1
            else:
                sched[rng.randrange(fall + 1, len(sched)) if fall + 1 < len(sched) else fall][kind] = 1
            res.bin("loose_strobe")
    if rng.random() < 0.3:
        # final pair: a packet, ONE cycle with valid low, and the next packet's first byte in the very next cycle
        # (valid and next rise together).  Kept at the end of the schedule so that a loss does not disturb the rest.
        sched.append([0, 0, rng.randrange(256), 0, 0])
        sched.append([1, 0, rng.randrange(256), 0, 0])
        for n in (rng.randint(1, 6), rng.randint(2, 6)):
            for j in range(n):
                for _ in range(rng.choice([0, 0, 1])):
                    sched.append([1, 0, rng.randrange(256), 0, 0])
                sched.append([1, 1, nextbyte(), 0, 0])
            sched.append([0, 0, rng.randrange(256), rng.choice([0, 1]), 0])
        res.bin("byte_right_after_one_cycle_gap")
    for _ in range(BOUND + 6):
        sched.append([0, 0, rng.randrange(256), 0, 0])
    return sched


def run_case(rng, tier, res):
    from luna.gateware.usb.stream import USBOutStreamBoundaryDetector
    sched = gen_schedule(rng, res)
    # clock domain the detector is asked to live in: default ("usb"), "usb" given explicitly, "sync", or another name.
    # The Bench clocks the requested domain; "usb" (and "sync") are kept alive as bystanders on unrelated clocks, so a
    # part of the block that stays in "usb" although another domain was requested misbehaves visibly.
    dom_mode = rng.choice(["default", "default", "explicit_usb", "sync", "other", "other"])
    if dom_mode in ("default", "explicit_usb"):
        dut = USBOutStreamBoundaryDetector() if dom_mode == "default" else USBOutStreamBoundaryDetector(domain="usb")
        b = Bench(dut, domain="usb", freq=60e6, max_cycles=len(sched) + 10)
    else:
        dname = "sync" if dom_mode == "sync" else rng.choice(["ss", "fast", "rx"])
        dut = USBOutStreamBoundaryDetector(domain=dname)
        others = [d for d in ("usb", "sync") if d != dname]
        try:
            b = Bench(with_bystanders(dut, *others), domain=dname, freq=60e6,
                      clocks={d: rng.choice([17e6, 48e6, 120e6, 200e6]) for d in others}, max_cycles=len(sched) + 10)
        except (NameError, ValueError) as e:
            if "not present" not in str(e):
                raise
            res.bin("domain_" + dom_mode)
            res.violation("requested_domain_not_used", "USBOutStreamBoundaryDetector(domain=%r): %s" % (dname, e))
            return
    res.bin("domain_" + dom_mode)
    res.sig(dom_mode)
    i_s, o_s = dut.unprocessed_stream, dut.processed_stream
    ins = [i_s.valid, i_s.next, i_s.payload, dut.complete_in, dut.invalid_in]
    outs = [o_s.valid, o_s.next, o_s.payload, dut.first, dut.last, dut.complete_out, dut.invalid_out]
    b.watch(*ins, *outs)
    for row in sched:
        res.sig(tuple(row))
    res.desc = {"cycles": len(sched), "first_cycles": [tuple(r) for r in sched[:40]]}

    def driver():
        for row in sched:
            for sig, v in zip(ins, row):
                b.set(sig, v)
            yield

    # ---- recorded history
    packets = []          # dict(bytes, cyc, first_cyc, fall, c, i) rebuilt from sampled inputs
    zero_packets = [0]
    loose = {"c": [], "i": []}        # cycles of loose strobes
    cur = {"pkt": None, "active": False, "nbytes": 0}
    out_bytes = []        # (cycle, payload, first, last)
    out_strobe = {"c": [], "i": []}   # [start_cycle, end_cycle] assertion intervals
    prev = {"c": 0, "i": 0}

    def monitor(b):
        iv, inx, ip, ci, ii = (b.get(s) for s in ins)
        ov, onx, op, fi, la, co, io = (b.get(s) for s in outs)
        cyc = b.cycle
        res.event("cycles_monitored")
        pkt = cur["pkt"]
        if iv:
            if inx:
                if pkt is None:
                    # the packet begins with this byte: a strobe in this cycle is already "during the packet"
                    pkt = cur["pkt"] = {"bytes": [], "cyc": [], "first_cyc": cyc, "fall": None, "c": bool(ci), "i": bool(ii),
                                        "c_late": False, "i_late": False}
                else:
                    pkt["c"] |= bool(ci)
                    pkt["i"] |= bool(ii)
                    pkt["c_late"] |= bool(ci)
                    pkt["i_late"] |= bool(ii)
                pkt["bytes"].append(ip)
                pkt["cyc"].append(cyc)
            else:
                if pkt is None:
                    if ci:
                        loose["c"].append(cyc)
                    if ii:
                        loose["i"].append(cyc)
                else:
                    pkt["c"] |= bool(ci)
                    pkt["i"] |= bool(ii)
                    pkt["c_late"] |= bool(ci)
                    pkt["i_late"] |= bool(ii)
            cur["active"] = True
        else:
            if pkt is not None:
                pkt["c"] |= bool(ci)
                pkt["i"] |= bool(ii)
                pkt["c_late"] |= bool(ci)
                pkt["i_late"] |= bool(ii)
                pkt["fall"] = cyc
                packets.append(pkt)
                cur["pkt"] = None
            else:
                if cur["active"]:
                    zero_packets[0] += 1
                if ci:
                    loose["c"].append(cyc)
                if ii:
                    loose["i"].append(cyc)
            cur["active"] = False
        if ov and onx:
            out_bytes.append((cyc, op, fi, la))
            if fi:
                res.event("first_flags_seen")
            if la:
                res.event("last_flags_seen")
        for key, val in (("c", co), ("i", io)):
            if val:
                if not prev[key]:
                    out_strobe[key].append([cyc, cyc])
                else:
                    out_strobe[key][-1][1] = cyc
            prev[key] = val
        if co:
            res.event("complete_out_seen")
        if io:
            res.event("invalid_out_seen")

    b.add_driver(driver())
    b.add_monitor(monitor)
    b.run()
    res.cycles = b.cycle
    judge(res, packets, out_bytes, out_strobe, loose, b.cycle)
    bins = res.bins
    res.nontrivial = all(bins.get(k) for k in ("len_1", "strobe_on_fall_cycle", "strobe_early", "gap_1"))


def judge(res, packets, out_bytes, out_strobe, loose, end_cycle):
    flat = []      # (pkt index, idx, byte, in cycle)
    for k, p in enumerate(packets):
        for j, (v, c) in enumerate(zip(p["bytes"], p["cyc"])):
            flat.append((k, j, v, c))
    # A packet whose first byte arrives in the cycle right after a one-cycle gap: if exactly that byte is missing from the
    # output (and nothing else is wrong with the byte sequence), report it under its own mechanism and judge the rest
    # of the history without that packet.
    tight = [k for k in range(1, len(packets)) if packets[k]["first_cyc"] == packets[k - 1]["fall"] + 1]
    if tight and len(out_bytes) < len(flat):
        k0 = tight[0]
        minus = [f for f in flat if not (f[0] == k0 and f[1] == 0)]
        if [o[1] for o in out_bytes] == [f[2] for f in minus] and k0 == len(packets) - 1:
            p0 = packets[k0]
            res.violation("first_byte_lost_right_after_one_cycle_gap", "packet#%d len=%d: valid fell @%d, valid&next rose @%d with byte %#x, "
                          "which never appears on the processed stream (the following bytes do)" % (
                              k0, len(p0["bytes"]), packets[k0 - 1]["fall"], p0["first_cyc"], p0["bytes"][0]))
            nb0 = len(p0["bytes"]) - 1
            packets = packets[:k0]
            flat = [f for f in flat if f[0] < k0]
            out_bytes = out_bytes[:len(out_bytes) - nb0]
            out_strobe = {kk: [iv for iv in vv if iv[0] < p0["fall"]] for kk, vv in out_strobe.items()}
            end_cycle = p0["fall"] - 1
    n_in, n_out = len(flat), len(out_bytes)
    t_first, t_last = {}, {}
    aligned = True
    for x in range(min(n_in, n_out)):
        k, j, v, cin = flat[x]
        cyc, op, fi, la = out_bytes[x]
        p = packets[k]
        n = len(p["bytes"])
        res.event("bytes_compared")
        ctx = "packet#%d len=%d byte#%d in@%d out@%d" % (k, n, j, cin, cyc)
        if op != v:
            # classify: duplicate of previous / skipped one
            mech = "byte_mismatch"
            if x and op == flat[x - 1][2] and v != op:
                mech = "byte_duplicated"
            elif x + 1 < n_in and op == flat[x + 1][2]:
                mech = "byte_lost"
            res.violation(mech, "%s payload=%#x expected=%#x" % (ctx, op, v))
            aligned = False
            break
        if cyc < cin:
            res.violation("byte_before_input", ctx)
        if bool(fi) != (j == 0):
            mech = "first_missing" if j == 0 else "first_spurious"
            if j == 0 and n == 1:
                mech = "first_missing_single_byte_packet"
            res.violation(mech, "%s first=%d" % (ctx, fi))
        if bool(la) != (j == n - 1):
            mech = "last_missing" if j == n - 1 else "last_spurious"
            res.violation(mech, "%s last=%d" % (ctx, la))
        if j == 0:
            t_first[k] = cyc
        if j == n - 1:
            t_last[k] = cyc
            if cyc > p["fall"] + BOUND:
                res.violation("last_byte_late", "%s valid fell @%d" % (ctx, p["fall"]))
            if cyc < p["fall"] and la:
                pass    # could not have known; not judged
    if aligned and n_out < n_in:
        k, j, v, cin = flat[n_out]
        res.violation("byte_lost", "only %d of %d bytes were output; first missing: packet#%d len=%d byte#%d (%#x) in@%d" %
                      (n_out, n_in, k, len(packets[k]["bytes"]), j, v, cin))
        aligned = False
    elif aligned and n_out > n_in:
        cyc, op, fi, la = out_bytes[n_in]
        res.violation("byte_spurious", "%d output bytes for %d input bytes; extra byte %#x @%d" % (n_out, n_in, op, cyc))
        aligned = False
    if not aligned:
        return
    # ---- strobes
    for key, name in (("c", "complete"), ("i", "invalid")):
        ivs = out_strobe[key]
        lo = loose[key]
        for k, p in enumerate(packets):
            res.event("packets_judged", 1 if key == "c" else 0)
            tf, tl = t_first[k], t_last[k]
            nxt_first = t_first.get(k + 1, end_cycle + 1)
            nxt_in_first = packets[k + 1]["first_cyc"] if k + 1 < len(packets) else end_cycle + 1
            prev_fall = packets[k - 1]["fall"] if k else 0
            n = len(p["bytes"])
            ctx = "packet#%d len=%d in@%d..fall@%d out@%d..%d" % (k, n, p["first_cyc"], p["fall"], tf, tl)
            # never during the packet's output, including the cycle of the last byte
            for s, e in ivs:
                if s <= tl and e >= tf:
                    mech = "%s_out_with_last_byte" % name if s >= tl else "%s_out_before_last_byte" % name
                    res.violation(mech, "%s %s_out high %d..%d" % (ctx, name, s, e))
            got = [iv for iv in ivs if tl < iv[0] < nxt_first]
            required = 1 if p[key] else 0
            if required:
                res.event("strobes_required")
            n_loose = sum(1 for c in lo if prev_fall < c <= nxt_in_first)
            if len(got) < required and not p[key + "_late"]:
                res.violation("strobe_in_first_byte_cycle_dropped", "%s %s_in pulsed only in the cycle of the packet's first byte; no %s_out "
                              "between @%d and @%d" % (ctx, name, name, tl, nxt_first))
            elif len(got) < required:
                res.violation("%s_strobe_dropped" % name, "%s %s_in seen during the packet but no %s_out between @%d and @%d" %
                              (ctx, name, name, tl, nxt_first))
            elif len(got) > required + n_loose:
                mech = "%s_strobe_duplicated" % name if required else "%s_strobe_spurious" % name
                res.violation(mech, "%s %s_out asserted %d times (%s), seen-in-window=%d loose=%d" %
                              (ctx, name, len(got), got[:3], required, n_loose))
            elif required and not n_loose and got[0][0] > tl + BOUND:
                res.violation("%s_strobe_late" % name, "%s %s_out @%d" % (ctx, name, got[0][0]))
            if n_loose:
                res.unjudged += 1
        # before the first packet's first output byte
        if packets:
            early = [iv for iv in ivs if iv[0] < t_first[0]]
            n_loose = sum(1 for c in lo if c <= packets[0]["first_cyc"])
            if len(early) > n_loose:
                res.violation("%s_strobe_spurious" % name, "%s_out %s before any packet was output" % (name, early[:3]))
