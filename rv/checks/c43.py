"""C43 — training ordered sets are emitted and detected exactly.

DUTs (real luna classes, domain "ss", several per case in one wrapper, each with its own stimulus):
  * TSEmitter for TSEQ / TS1 / inverted TS1 / TS2 (with configuration bits), burst lengths 1, 2, 3, 16;
  * TSBurstDetector for TSEQ (32 sets, as the transceiver configures it, and 2/3), TS1, inverted TS1, TS2 with
    configuration outputs (8 sets, and 1/2/3);
  * in one case of four a TSTransceiver: its sink feeds all four detectors, its source / send_* / request_* / burst_complete
    are judged for the select wiring.

Workload, emitters: `start` pulsed for one cycle, held over several bursts, released at random points (mid-set, in the
cycle of `done`, one cycle around it), pulsed in the middle of a burst; `ready` always / random / bursty / stalling on
purpose on the last word of a set, the last word of the burst and the configuration word; request bits changed at
random times.  Detectors: the input is a list of *episodes* separated by a fixed separator (a lone COM word followed
by a garbage word and idle cycles, which ends every run of sets for any reading of the statement).  Episodes: clean
runs of N-1, N, N+1, 2N-1, 2N, 2N+1, 3N, random numbers of sets; one word corrupted in one bit of data or ctrl at a
chosen set / word (first set, N-th set, last word of a set ...); single-bit sweeps (N-1 good sets followed by a set
with one random flipped data or ctrl bit, repeated); truncated sets; a duplicated first word; garbage words
between sets (directly, or after an idle cycle); sets of another type in between (TS1 <-> TS2 <-> inverted TS1 <-> TSEQ);
random words and near-miss words; configuration bits constant, changing per run and changing per set.  Idle cycles
(valid = 0) are inserted with five profiles (none, sparse, heavy, only between sets, only inside sets) and carry
garbage, the word the detector is waiting for, or the first word of a set.

Oracle (written from the statement and USB 3.2 tables 6-3..6-8; never luna code):
  emitter — a cycle-by-cycle checker: every presented word must be the next word of the set (symbols, K flags, `first`
  on word 0, `last` on the last word, bits 0/2/3 of symbol 5 = request bits sampled in that cycle for TS2, zero
  otherwise), payload stable while stalled, a burst begins only when `start` was high (within the 4 preceding cycles
  while idle, or in the `done` cycle of the previous burst), lasts exactly N sets, `done` is high exactly in the cycle
  in which the last word of the N-th set is accepted, a new burst follows within 3 cycles iff `start` was high in
  that cycle, an idle emitter starts within 4 cycles of `start`, and no gap of more than 4 cycles opens inside a burst.
  detector — the valid words of the input (invalid cycles removed) are scanned for all complete, well-formed sets;
  sets that follow each other without any valid word in between form a run; a run of k sets demands floor(k/N) reports,
  the j-th one 0..6 cycles after the last word of its (j*N)-th set; every `detected` cycle must be matched one-to-one
  to a demanded report.  At a matched report the configuration outputs must equal bits 0/2/3 of symbol 5 of the set
  that completed the report (or of the following set if its second word has already been received).

Known finding handling: when an episode deviates, three variants of a small cycle-level model are evaluated that each
contain exactly one of the two deviations of the current implementation (see findings/C43.md); if the observed strobes
of that episode equal such a variant the violation gets that variant's narrow mechanism name, otherwise a generic
one.  The variant with no deviation is compared with the oracle in every case as a self-test of both.

Transceiver source: every activation (span with exactly one send_* high) must carry whole sets of that type from the
first word, `burst_complete` exactly on the last word of every 16th set (TS1/TS2); an activation that instead continues
the word sequence an earlier, interrupted activation of the same type left behind is labelled with the third known
mechanism (the set of possible left-over positions is tracked, so set-aligned interruptions are handled too).

About one case in 30 is instead a single complete TSEQ burst of the transceiver's real length (65536 sets, 524288
words: `run_long_tseq`): burst_complete must come exactly once, on word index 524287, and ~3500 sampled words (all of the
last ~1000 and the first 40 of the next burst) must be the right ones.  include_config is crossed with the set type for
detectors and emitters (TS1 / inverted TS1 with configuration field, TS2 without).

Not judged: `sink.ready` of the detector, `transmitting` of the transceiver, contradictory send_* requests (not
generated), the first cycle after reset, sets whose symbol 4 is not D0.0 (not generated), reports when a request
bit changes while the configuration word is stalled (counted as unjudged), latency beyond the windows above.
"""
from rv.sim import Bench

PROPERTY = "C43"
CASES = {"quick": 224, "thorough": 3360}
TIMEOUT = {"quick": 3600, "thorough": 8 * 3600}      # generous: the watchdog only turns a hang into "inconclusive"
RULE = ("case = wrapper with 2 TSEmitters, 3 TSBurstDetectors (random set type / threshold) and (1 in 4) a TSTransceiver; emitters: "
        "start/ready/request scripts of ~1500 cycles; detectors: ~25 episodes (clean runs around multiples of N, one corrupted word, "
        "truncated set, duplicated first word, garbage between sets, foreign sets, random words) with 5 idle profiles; "
        "non-trivial = at least one demanded report, one corrupted-set episode and one complete emitter burst; distinct = hash of configs + scripts")
REQUIRED_BINS = [
    "det_tseq", "det_ts1", "det_its1", "det_ts2", "det_config_crossed", "emit_config_crossed", "xcvr_tseq_full_65536_burst", "det_n1", "det_n2or3", "det_n8", "det_n32", "xcvr_case",
    "ep_clean_exact_n", "ep_clean_n_minus_1", "ep_clean_n_plus_1", "ep_clean_multi", "ep_corrupt_data_bit", "ep_corrupt_ctrl_bit",
    "ep_corrupt_last_word", "ep_corrupt_first_word", "ep_truncated", "ep_dup_first_word", "ep_garbage_direct", "ep_garbage_after_idle",
    "ep_foreign_sets", "ep_random_words", "ep_cfg_per_set", "ep_bit_sweep",
    "idle_none", "idle_sparse", "idle_heavy", "idle_between_sets", "idle_inside_sets", "idle_payload_looks_valid",
    "run_broken_just_before_report", "cfg_hot_reset", "cfg_loopback", "cfg_no_scrambling", "cfg_all_zero",
    "emit_tseq", "emit_ts1", "emit_its1", "emit_ts2", "emit_n1", "emit_n2or3", "emit_n16",
    "emit_start_pulse_idle", "emit_start_high_at_done", "emit_start_low_at_done", "emit_start_dropped_mid_burst",
    "emit_pulse_mid_burst", "emit_stall_last_word_of_burst", "emit_stall_last_word_of_set", "emit_stall_cfg_word", "emit_back_to_back_bursts",
    "emit_req_hot_reset", "emit_req_loopback", "emit_req_no_scrambling",
]
REQUIRED_EVENTS = ["det_valid_words", "det_sets_wellformed", "det_reports_demanded", "det_reports_matched", "det_detected_cycles",
                   "det_cfg_compared", "det_episodes_judged", "emit_words_accepted", "emit_sets_complete", "emit_bursts_complete",
                   "emit_done_cycles", "emit_cfg_words_checked", "xcvr_reports_matched", "xcvr_words_accepted", "xcvr_burst_complete", "xcvr_tseq_full_burst_complete"]
ASSUMPTIONS = [
    "set contents are those of USB 3.2 tables 6-3 (TSEQ), 6-4/6-5 (TS1), 6-6/6-7 (TS2), symbol 0 in bits 7:0 of the 32-bit word",
    "a TS2 whose reserved bits of symbol 5 are set is still well-formed (receivers ignore reserved bits); symbol 4 is always D0.0",
    "report latency 0..6 cycles after the last word of the completing set; emitter start latency <= 4 cycles",
    "start pulses in the middle of a burst neither demand nor forbid a following burst",
]

LATD = 6
KNOWN_A = "first_set_after_malformed_word_not_counted"
KNOWN_C = "garbage_after_idle_does_not_end_run"
KNOWN_X = "xcvr_emitter_resumes_stale_burst_after_send_dropped"

# ---------------------------------------------------------------------------------- reference set contents (USB 3.2, 6.4.1)
COM = 0xBC
_TSEQ = [COM, 0xFF, 0x17, 0xC0, 0x14, 0xB2, 0xE7, 0x02, 0x82, 0x72, 0x6E, 0x28, 0xA6, 0xBE, 0x6D, 0xBF] + [0x4A] * 16
_TS1 = [COM] * 4 + [0x00, 0x00] + [0x4A] * 10
_TS2 = [COM] * 4 + [0x00, 0x00] + [0x45] * 10
_ITS1 = [COM] * 4 + [0x00, 0x00] + [0xB5] * 10          # D10.2 with every bit inverted; K28.5 / D0.0 decode unchanged


def _words(syms, n_k):
    out = []
    for i in range(0, len(syms), 4):
        data = sum(syms[i + j] << (8 * j) for j in range(4))
        ctrl = sum(1 << j for j in range(4) if i + j < n_k)
        out.append((data, ctrl))
    return out


SETS = {"tseq": _words(_TSEQ, 1), "ts1": _words(_TS1, 4), "its1": _words(_ITS1, 4), "ts2": _words(_TS2, 4)}
CFG_BITS = (0, 2, 3)        # symbol 5: bit 0 reset, bit 2 loopback, bit 3 disable scrambling


def luna_set(kind):
    from luna.gateware.usb.usb3.link import ordered_sets as O
    data = {"tseq": O.TSEQ_SET_DATA, "ts1": O.TS1_SET_DATA, "its1": O.INVERTED_TS1_SET_DATA, "ts2": O.TS2_SET_DATA}[kind]
    return dict(set_data=data, first_word_ctrl=0b0001 if kind == "tseq" else 0b1111)


def word_matches(kind, pos, data, ctrl, with_cfg, lenient=False):
    """lenient: symbol 4 (reserved, transmitted as D0.0) is ignored as well; the statement does not say whether a set
    with another value there is well-formed, so the oracle is evaluated for both readings."""
    d, c = SETS[kind][pos]
    if ctrl != c:
        return False
    if with_cfg and pos == 1:
        return (data & (0xFFFF0000 if lenient else 0xFFFF00FF)) == d          # symbol 5 is the link configuration field
    return data == d


# ---------------------------------------------------------------------------------- detector stimulus

class Stream:
    """Cycle list [(valid, data, ctrl)] plus episode marks [(first_cycle, last_cycle, tags)]."""

    def __init__(self, rng, kind, n, with_cfg):
        self.rng, self.kind, self.n, self.with_cfg = rng, kind, n, with_cfg
        self.cyc = []
        self.episodes = []
        self.want = None         # (pos) the word a detector in the middle of a set would be waiting for
        self.profile = "none"

    def idle(self, k=1):
        for _ in range(k):
            r = self.rng.random()
            if r < 0.4:
                d, c = self.rng.getrandbits(32), self.rng.getrandbits(4)
            elif r < 0.7 and self.want is not None:
                d, c = self.setword(self.want, self.rng.choice([0, 1, 4, 8, 13]))
                self.tag("idle_payload_looks_valid")
            elif r < 0.85:
                d, c = SETS[self.kind][0]
                self.tag("idle_payload_looks_valid")
            else:
                d, c = 0, 0
            self.cyc.append((0, d, c))

    def setword(self, pos, cfg):
        d, c = SETS[self.kind][pos]
        if pos == 1 and self.kind in ("ts1", "its1", "ts2") and self.with_cfg:
            d |= cfg << 8
        return d, c

    def valid(self, d, c):
        self.cyc.append((1, d, c))

    def tag(self, t):
        self.tags.add(t)

    def maybe_idle(self, where):
        p = self.profile
        rng = self.rng
        if p == "none":
            return
        if p == "sparse" and rng.random() < 0.08:
            self.idle(rng.randint(1, 2))
        elif p == "heavy" and rng.random() < 0.5:
            self.idle(rng.randint(1, 5))
        elif p == "between" and where == "between" and rng.random() < 0.7:
            self.idle(rng.randint(1, 5))
        elif p == "inside" and where == "inside" and rng.random() < 0.4:
            self.idle(rng.randint(1, 5))

    def emit_set(self, cfg=0, upto=None, corrupt=None, kind=None):
        """One set (or its first `upto` words); corrupt = (word, 'data'|'ctrl'[, bit])."""
        kind = kind or self.kind
        words = SETS[kind]
        for pos in range(len(words) if upto is None else upto):
            if kind == self.kind:
                d, c = self.setword(pos, cfg)
            else:
                d, c = words[pos]
            if corrupt and corrupt[0] == pos:
                if corrupt[1] == "ctrl":
                    c ^= 1 << (corrupt[2] if len(corrupt) > 2 else self.rng.randrange(4))
                else:
                    lo = 16 if (self.with_cfg and pos == 1) else 0
                    bit = corrupt[2] if len(corrupt) > 2 else self.rng.randrange(lo, 32)
                    if self.with_cfg and pos == 1 and bit < 16:
                        bit += 16                    # symbols 4/5 of a set with configuration field are not set contents
                    d ^= 1 << bit
            self.want = pos if kind == self.kind else None
            if pos:
                self.maybe_idle("inside")
            self.valid(d, c)
        self.want = None

    def garbage_word(self):
        rng = self.rng
        while True:
            r = rng.random()
            if r < 0.4:
                d, c = rng.getrandbits(32), rng.choice([0, 0, 0, rng.getrandbits(4)])
            elif r < 0.6:
                d, c = SETS[self.kind][rng.randrange(1, len(SETS[self.kind]))]       # a non-first word of the set, out of place
            elif r < 0.8:
                d, c = SETS[self.kind][0]
                c ^= 1 << rng.randrange(4)                                           # near miss of the first word
            else:
                d, c = SETS[self.kind][0]
                d ^= 1 << rng.randrange(32)
            if not word_matches(self.kind, 0, d, c, self.with_cfg):
                return d, c

    def separator(self):
        self.idle(self.rng.randint(1, 3))
        self.valid(*SETS[self.kind][0])
        d, c = self.garbage_word()
        self.valid(d, c)
        self.idle(self.rng.randint(LATD + 1, LATD + 3))

    def run(self, k, cfgs=None):
        for i in range(k):
            if i:
                self.maybe_idle("between")
            self.emit_set(cfg=cfgs[i] if cfgs else self.cfg)

    # ------------------------------------------------------------------ episodes
    def episode(self):
        rng, n = self.rng, self.n
        first = len(self.cyc)
        self.tags = set()
        self.profile = rng.choice(["none", "none", "sparse", "heavy", "between", "inside"])
        self.tag("idle_" + {"between": "between_sets", "inside": "inside_sets"}.get(self.profile, self.profile))
        self.cfg = self.pick_cfg()
        nwords = len(SETS[self.kind])
        big = n >= 32
        r = rng.random()
        if r < 0.30:
            choice = rng.choice(["n", "n", "n-1", "n+1", "2n-1", "2n", "2n+1", "3n", "rand"])
            k = {"n": n, "n-1": n - 1, "n+1": n + 1, "2n-1": 2 * n - 1, "2n": 2 * n, "2n+1": 2 * n + 1, "3n": 3 * n,
                 "rand": rng.randint(1, 3 * n + 2)}[choice]
            if big:
                k = min(k, 2 * n + 1)
            k = max(k, 0)
            self.tag({"n": "ep_clean_exact_n", "n-1": "ep_clean_n_minus_1", "n+1": "ep_clean_n_plus_1"}.get(choice, "ep_clean_multi"))
            cfgs = None
            if self.with_cfg and rng.random() < 0.3:
                cfgs = [self.pick_cfg() for _ in range(k)]
                self.tag("ep_cfg_per_set")
            self.run(k, cfgs)
        elif r < 0.50:                                       # one corrupted word
            k = rng.choice([n + 1, 2 * n, 2 * n + 1, n + rng.randint(0, n)]) if not big else rng.choice([n + 1, n + 3])
            j = rng.choice([0, n - 1, n - 1, k - 1, rng.randrange(k)])
            w = rng.choice([0, 1, nwords - 1, nwords - 1, rng.randrange(nwords)])
            how = rng.choice(["data", "data", "ctrl"])
            self.tag("ep_corrupt_%s_bit" % how)
            if w == nwords - 1:
                self.tag("ep_corrupt_last_word")
            if w == 0:
                self.tag("ep_corrupt_first_word")
            if j == n - 1:
                self.tag("run_broken_just_before_report")
            for i in range(k):
                if i:
                    self.maybe_idle("between")
                self.emit_set(cfg=self.cfg, corrupt=(w, how) if i == j else None)
            if rng.random() < 0.5:
                self.run(rng.randint(1, n if not big else 3))
        elif r < 0.60:                                       # truncated set between two runs
            k1 = rng.choice([0, 1, n - 1, rng.randint(0, n)]) if not big else rng.randint(0, 3)
            self.run(k1)
            self.maybe_idle("between")
            self.emit_set(cfg=self.cfg, upto=rng.randint(1, nwords - 1))
            self.maybe_idle("between")
            self.run(rng.choice([n - 1, n, n + 1]))
            self.tag("ep_truncated")
            if k1 == n - 1:
                self.tag("run_broken_just_before_report")
        elif r < 0.67:                                       # duplicated first word
            k1 = rng.choice([0, n - 1, rng.randint(0, n)]) if not big else rng.randint(0, 3)
            self.run(k1)
            self.maybe_idle("between")
            self.valid(*SETS[self.kind][0])
            self.maybe_idle("between")
            self.run(rng.choice([n - 1, n, n + 1]))
            self.tag("ep_dup_first_word")
        elif r < 0.82:                                       # garbage between two runs
            k1 = rng.choice([1, n - 1, n - 1, rng.randint(1, n)]) if not big else rng.randint(1, 3)
            k2 = rng.choice([1, n - k1, n - k1 + 1, n, rng.randint(1, n + 1)])
            k2 = max(1, k2)
            self.run(k1)
            after_idle = rng.random() < 0.5
            if after_idle:
                self.idle(rng.randint(1, 3))
                self.tag("ep_garbage_after_idle")
            else:
                self.tag("ep_garbage_direct")
            for _ in range(rng.randint(1, 3)):
                self.valid(*self.garbage_word())
                if rng.random() < 0.3:
                    self.idle(1)
            if rng.random() < 0.5:
                self.idle(rng.randint(1, 2))
            self.run(k2)
            if k1 == n - 1:
                self.tag("run_broken_just_before_report")
        elif r < 0.88:                                       # single-bit sweep: N-1 good sets, then a set with one flipped bit
            for _ in range(2 if big else rng.randint(4, 8)):
                self.run(n - 1)
                self.maybe_idle("between")
                w = rng.randrange(nwords)
                if rng.random() < 0.2:
                    self.emit_set(cfg=self.cfg, corrupt=(w, "ctrl", rng.randrange(4)))
                else:
                    self.emit_set(cfg=self.cfg, corrupt=(w, "data", rng.randrange(32)))
                self.maybe_idle("between")
            self.tag("ep_bit_sweep")
        elif r < 0.94:                                       # sets of another type in between
            other = rng.choice([k for k in SETS if k != self.kind])
            k1 = rng.choice([n - 1, rng.randint(1, n)]) if not big else rng.randint(1, 3)
            self.run(k1)
            for _ in range(rng.randint(1, 4)):
                self.maybe_idle("between")
                self.emit_set(kind=other)
            self.maybe_idle("between")
            self.run(rng.choice([1, n - k1, n, n + 1]) if not big else rng.choice([1, n]))
            self.tag("ep_foreign_sets")
        else:
            for _ in range(rng.randint(5, 40)):
                if rng.random() < 0.15:
                    self.idle(1)
                if rng.random() < 0.25:
                    d, c = self.setword(rng.randrange(nwords), self.pick_cfg())
                else:
                    d, c = rng.getrandbits(32), rng.choice([0, 0, 0xF, 1, rng.getrandbits(4)])
                self.valid(d, c)
            self.tag("ep_random_words")
        self.separator()
        self.episodes.append((first, len(self.cyc) - 1, sorted(self.tags)))

    def pick_cfg(self):
        if not self.with_cfg:
            return 0
        rng = self.rng
        r = rng.random()
        if r < 0.2:
            return 0
        cfg = sum(1 << b for b in CFG_BITS if rng.random() < 0.5)
        if r > 0.9:
            cfg |= rng.choice([0x02, 0x10, 0x80, 0xF2])        # reserved bits
        return cfg


def build_stream(rng, kind, n, with_cfg, budget):
    st = Stream(rng, kind, n, with_cfg)
    st.tags = set()
    st.idle(rng.randint(3, 6))
    st.cfg = 0
    st.separator()
    while len(st.cyc) < budget:
        st.episode()
    st.idle(LATD + 4)
    return st


# ---------------------------------------------------------------------------------- detector oracle

def demanded_reports(kind, n, with_cfg, cyc, lenient=False):
    """Statement-level reference.  Returns (reports, nsets, nvalid); reports = [(cycle, cfg_of_completing_set, set_index)]."""
    vw = [(t, d, c) for t, (v, d, c) in enumerate(cyc) if v]
    L = len(SETS[kind])
    i = 0
    reports = []
    sets = []           # (index of first valid word, cycle of last word, cfg)
    while i + L <= len(vw):
        if all(word_matches(kind, p, vw[i + p][1], vw[i + p][2], with_cfg, lenient) for p in range(L)):
            cfg = (vw[i + 1][1] >> 8) & 0xFF
            sets.append((i, vw[i + L - 1][0], cfg, vw[i + 1][0]))
            i += L
        else:
            i += 1
    run = 0
    prev_end = None
    for (i0, tlast, cfg, tcfg) in sets:
        run = run + 1 if prev_end == i0 else 1
        prev_end = i0 + L
        if run % n == 0:
            reports.append((tlast, cfg, len(reports)))
    return reports, sets, len(vw)


def variant_reports(kind, n, with_cfg, cyc, quirk_a, quirk_c, lenient=False):
    """Classifier model (NOT the oracle): a cycle-level counter of consecutive sets with optional deviations.
    quirk_a: after a word that breaks a set in progress (or directly follows a complete set and is not a first word) the
             breaking word is not reconsidered as the first word of a new set and the following cycle is not looked at.
    quirk_c: a non-matching word that arrives while no set is in progress (at least one idle cycle after the last set)
             does not end the run."""
    L = len(SETS[kind])
    pos, cnt = 0, 0
    blind = False
    boundary = False        # the previous cycle delivered the last word of a set
    out = []
    for t, (v, d, c) in enumerate(cyc):
        if blind:
            blind = False
            boundary = False
            continue
        if not v:
            boundary = False
            continue
        at_boundary, boundary = boundary, False
        if word_matches(kind, pos, d, c, with_cfg, lenient):
            pos += 1
            if pos == L:
                pos = 0
                boundary = True
                cnt += 1
                if cnt == n:
                    out.append(t)
                    cnt = 0
            continue
        if pos > 0 or at_boundary:
            cnt = 0
            pos = 0
            if quirk_a:
                blind = True
            elif word_matches(kind, 0, d, c, with_cfg):
                pos = 1
        elif not quirk_c:
            cnt = 0
    return out


def match_times(pred, obs, lo, hi):
    """Greedy one-to-one matching of observed strobe cycles to predicted cycles inside [lo, hi] (prediction window
    p..p+LATD).  Returns (unmatched_pred, unmatched_obs, pairs)."""
    pred = [p for p in pred if lo <= p <= hi]
    obs = [o for o in obs if lo <= o <= hi]
    up, uo, pairs = [], [], []
    j = 0
    for p in pred:
        while j < len(obs) and obs[j] < p:
            uo.append(obs[j])
            j += 1
        if j < len(obs) and obs[j] <= p + LATD:
            pairs.append((p, obs[j]))
            j += 1
        else:
            up.append(p)
    uo += obs[j:]
    return up, uo, pairs


def judge_detector(res, tag, kind, n, with_cfg, cyc, episodes, det, cfg_out, deferred, xcvr=False):
    """det: per-cycle `detected`; cfg_out: per-cycle (hot_reset, loopback, no_scrambling) or None."""
    reports, sets, nvalid = demanded_reports(kind, n, with_cfg, cyc)
    res.event("det_valid_words", nvalid)
    res.event("det_sets_wellformed", len(sets))
    res.event("det_reports_demanded", len(reports))
    obs = [t for t, v in enumerate(det) if v]
    res.event("det_detected_cycles", len(obs))
    pred = [r[0] for r in reports]
    if variant_reports(kind, n, with_cfg, cyc, False, False) != pred:
        raise RuntimeError("reference self-test failed: set-scanning oracle and counter model disagree (%s n=%d)" % (kind, n))
    pred_len = pred
    if with_cfg:
        pred_len = [r[0] for r in demanded_reports(kind, n, with_cfg, cyc, True)[0]]
        if variant_reports(kind, n, with_cfg, cyc, False, False, True) != pred_len:
            raise RuntimeError("reference self-test failed (lenient reading) (%s n=%d)" % (kind, n))
    variants = None
    ctx = "%s[%s N=%d%s]" % (tag, kind, n, " cfg" if with_cfg else "")
    cfg_by_time = dict((r[0], r) for r in reports)
    setcfg_times = [(s[3], s[2]) for s in sets]        # (cycle of the configuration word, cfg) of every well-formed set
    for (first, last, tags) in episodes:
        res.event("det_episodes_judged")
        for tg in tags:
            res.bin(tg)
        if pred_len is not pred and [p for p in pred if first <= p <= last] != [p for p in pred_len if first <= p <= last]:
            res.unjudged += 1               # a word with a non-zero reserved symbol 4 decides whether a set is well-formed
            res.bin("ep_unjudged_reserved_symbol")
            continue
        up, uo, pairs = match_times(pred, obs, first, last)
        res.event("det_reports_matched", len(pairs))
        if xcvr:
            res.event("xcvr_reports_matched", len(pairs))
        if cfg_out is not None:
            for p, o in pairs:
                want = cfg_by_time[p][1]
                alts = [want] + [c for (tc, c) in setcfg_times if p < tc <= o]
                got = cfg_out[o]
                res.event("det_cfg_compared")
                for b, nm in zip(CFG_BITS, ("cfg_hot_reset", "cfg_loopback", "cfg_no_scrambling")):
                    if (want >> b) & 1:
                        res.bin(nm)
                if not want & 0x0D:
                    res.bin("cfg_all_zero")
                if not any(tuple((a >> b) & 1 for b in CFG_BITS) == got for a in alts):
                    res.violation("config_bits_wrong_at_report", "%s report at cycle %d: outputs (hot_reset, loopback, no_scrambling)=%s, symbol 5 of the completing set=%#04x"
                                  % (ctx, o, got, want))
        if not up and not uo:
            continue
        # deviation in this episode: is it exactly one of the known ones?
        if variants is None:
            variants = {}
            for len_ in ((False, True) if with_cfg else (False,)):
                for qa, qc in ((1, 0), (0, 1), (1, 1)):
                    variants.setdefault((qa, qc), []).append(variant_reports(kind, n, with_cfg, cyc, bool(qa), bool(qc), len_))

        def equals(key):
            for v in variants[key]:
                a, b_, _ = match_times(v, obs, first, last)
                if not a and not b_:
                    return True
            return False
        va, vc, vac = (1, 0), (0, 1), (1, 1)
        detail = "%s episode cycles %d..%d %s: demanded reports at %s, detected at %s" % (
            ctx, first, last, tags, [p for p in pred if first <= p <= last], [o for o in obs if first <= o <= last])
        if equals(va):
            deferred.append((KNOWN_A, detail))
            res.event("known_a_hits")
        elif equals(vc):
            deferred.append((KNOWN_C, detail))
            res.event("known_c_hits")
        elif equals(vac):
            first_up = up[0] if up else 1 << 60
            first_uo = uo[0] if uo else 1 << 60
            deferred.append((KNOWN_A if first_up < first_uo else KNOWN_C, detail))
            res.event("known_ac_hits")
        else:
            if uo:
                near = [s for s in sets if first <= s[1] <= last]
                mech = "detected_without_enough_consecutive_sets" if near else "detected_on_other_data"
                if len(uo) >= 2 and any(b_ - a == 1 for a, b_ in zip(uo, uo[1:])):
                    mech = "detected_longer_than_one_cycle"
                res.violation(mech, detail + "; unexpected at %s" % uo[:4])
            if up:
                res.violation("report_missing", detail + "; missing for %s" % up[:4])


# ---------------------------------------------------------------------------------- emitter stimulus / oracle

def emitter_script(rng, kind, n, with_cfg, ncyc):
    """Per-cycle lists start[], ready_mode events are produced online by the driver; here: start levels and cfg changes."""
    L = len(SETS[kind])
    burst = n * L
    start = []
    tags = []
    while len(start) < ncyc:
        r = rng.random()
        if r < 0.25:
            start += [1]
            tags.append("emit_start_pulse_idle")
            low = burst + rng.randint(4, 20) if rng.random() < 0.6 else rng.randint(1, burst + 6)
            start += [0] * low
        elif r < 0.55:
            k = rng.randint(1, 3) if n >= 16 else rng.randint(1, 6)
            hold = max(1, k * burst + rng.randint(-3, 4))
            start += [1] * hold
            start += [0] * rng.choice([1, 2, 3, rng.randint(1, burst + 10), burst + rng.randint(5, 15)])
        elif r < 0.75:
            hold = rng.randint(1, 2 * burst + 4)
            start += [1] * hold
            start += [0] * rng.choice([1, 2, rng.randint(1, burst + 10), 2 * burst + 10])
        else:                                                  # pulses in the middle of a burst
            start += [1]
            for _ in range(rng.randint(1, 3)):
                start += [0] * rng.randint(1, max(2, burst // 2))
                start += [1] * rng.randint(1, 2)
            start += [0] * (burst + rng.randint(5, 15))
    return start[:ncyc] + [0] * (burst * 2 + 12), tags


def judge_emitter(res, tag, kind, n, with_cfg, tr, xcvr=False):
    """tr: dict of per-cycle lists start, ready, valid, data, ctrl, first, last, done, req (req = cfg byte from request bits)."""
    words = SETS[kind]
    L = len(words)
    T = len(tr["valid"])
    ctx = "%s[%s N=%d]" % (tag, kind, n)
    pos = setn = 0
    active = False
    gap = 0
    idle_wait = 0
    required_next = 0        # countdown: a burst must begin within this many cycles
    allowed_next = 0
    pulse_mid = False
    prev = None
    prev_done_t = -100
    viol = set()

    def V(mech, detail):
        if mech not in viol:
            viol.add(mech)
            res.violation(mech, "%s %s" % (ctx, detail))

    for t in range(T):
        st, rd, va = tr["start"][t], tr["ready"][t], tr["valid"][t]
        data, ctrl, fi, la, dn, req = tr["data"][t], tr["ctrl"][t], tr["first"][t], tr["last"][t], tr["done"][t], tr["req"][t]
        if dn:
            res.event("emit_done_cycles")
        if va:
            gap = 0
            if not active:
                recent = any(tr["start"][max(0, t - 4):t + 1])
                if not (recent or required_next or allowed_next):
                    V("burst_without_start", "first word presented at cycle %d, start was low in cycles %d..%d" % (t, max(0, t - 4), t))
                if t - prev_done_t <= 3:
                    res.bin("emit_back_to_back_bursts")
                active, pos, setn = True, 0, 0
                required_next = allowed_next = 0
                pulse_mid = False
                idle_wait = 0
            d, c = words[pos]
            stalled_before = prev is not None and prev[0] and not prev[1]
            judged_cfg = True
            if with_cfg and pos == 1:
                if stalled_before and prev[6] != req:
                    res.unjudged += 1
                    judged_cfg = False
                d |= (req & 0x0D) << 8
                res.event("emit_cfg_words_checked")
                for b, nm in zip(CFG_BITS, ("emit_req_hot_reset", "emit_req_loopback", "emit_req_no_scrambling")):
                    if (req >> b) & 1:
                        res.bin(nm)
            if judged_cfg and data != d:
                if with_cfg and pos == 1 and (data & 0xFFFF00FF) == (d & 0xFFFF00FF):
                    V("config_bits_wrong_in_ts2", "cycle %d set %d word 1: data %#010x, requested symbol 5 = %#04x" % (t, setn, data, req & 0x0D))
                else:
                    V("wrong_symbols", "cycle %d set %d word %d: data %#010x expected %#010x" % (t, setn, pos, data, d))
            if ctrl != c:
                V("wrong_ctrl_flags", "cycle %d set %d word %d: ctrl %#x expected %#x" % (t, setn, pos, ctrl, c))
            if bool(fi) != (pos == 0) or bool(la) != (pos == L - 1):
                V("first_last_flags_wrong", "cycle %d word %d of %d: first=%d last=%d" % (t, pos, L, fi, la))
            if stalled_before and judged_cfg and (prev[2], prev[3]) != (data, ctrl):
                V("payload_changed_while_stalled", "cycle %d: payload %#010x/%x after %#010x/%x without ready" % (t, data, ctrl, prev[2], prev[3]))
            if not rd:
                if pos == L - 1 and setn == n - 1:
                    res.bin("emit_stall_last_word_of_burst")
                elif pos == L - 1:
                    res.bin("emit_stall_last_word_of_set")
                if with_cfg and pos == 1:
                    res.bin("emit_stall_cfg_word")
                if dn:
                    V("done_without_transfer", "done high at cycle %d while the word is not accepted" % t)
            else:
                res.event("emit_words_accepted")
                if xcvr:
                    res.event("xcvr_words_accepted")
                last_of_burst = pos == L - 1 and setn == n - 1
                if last_of_burst:
                    res.event("emit_bursts_complete")
                    if xcvr:
                        res.event("xcvr_burst_complete")
                    if not dn:
                        V("done_missing", "last word of set %d of %d accepted at cycle %d without done" % (setn + 1, n, t))
                    active = False
                    prev_done_t = t
                    if st:
                        required_next = 3
                        res.bin("emit_start_high_at_done")
                    else:
                        res.bin("emit_start_low_at_done")
                        if pulse_mid:
                            allowed_next = 4
                elif dn:
                    V("done_early", "done at cycle %d on word %d of set %d of %d" % (t, pos, setn + 1, n))
                pos += 1
                if pos == L:
                    pos = 0
                    setn += 1
                    res.event("emit_sets_complete")
                if active and not st and t >= 1 and tr["start"][t - 1]:
                    res.bin("emit_start_dropped_mid_burst")
            if active and st and not (t >= 1 and tr["start"][t - 1]) and (pos or setn):
                pulse_mid = True
                res.bin("emit_pulse_mid_burst")
        else:
            if dn:
                V("done_while_idle", "done high at cycle %d without a valid word" % t)
            if active:
                gap += 1
                if gap == 5:
                    V("gap_inside_burst", "valid low for 5 cycles from cycle %d inside a burst (set %d word %d)" % (t - 4, setn, pos))
            else:
                if required_next:
                    required_next -= 1
                    if required_next == 0:
                        V("burst_not_restarted", "start was high in the done cycle but no new burst began within 3 cycles (cycle %d)" % t)
                if allowed_next:
                    allowed_next -= 1
                if st:
                    idle_wait += 1
                    if idle_wait == 5:
                        V("emitter_does_not_start", "start high for 5 cycles from cycle %d on an idle emitter" % (t - 4))
                else:
                    idle_wait = 0
        prev = (va, rd, data, ctrl, fi, la, req)


# ---------------------------------------------------------------------------------- case

DET_CHOICES = [("tseq", 32, False), ("tseq", 2, False), ("tseq", 3, False),
               ("ts1", 8, False), ("ts1", 8, False), ("ts1", 1, False), ("ts1", 2, False),
               ("its1", 8, False), ("its1", 3, False),
               ("ts2", 8, True), ("ts2", 8, True), ("ts2", 8, True), ("ts2", 1, True), ("ts2", 2, True), ("ts2", 3, True),
               # include_config crossed with the other set types / include_config off for TS2
               ("ts1", 8, True), ("ts1", 2, True), ("its1", 8, True), ("ts2", 8, False)]
EMIT_CHOICES = [("tseq", 1, False), ("tseq", 2, False), ("tseq", 16, False), ("ts1", 1, False), ("ts1", 2, False), ("ts1", 3, False),
                ("ts1", 16, False), ("its1", 1, False), ("its1", 16, False), ("ts2", 1, True), ("ts2", 2, True), ("ts2", 3, True),
                ("ts2", 16, True), ("ts2", 16, True),
                # include_config crossed with the other set types / include_config off for TS2
                ("ts1", 2, True), ("ts1", 16, True), ("its1", 3, True), ("ts2", 2, False)]


def ready_gen(rng, profile):
    """Yields ready decisions; .send((pos, last_of_burst, is_cfg)) not needed: decisions may look at a shared hint dict."""
    kind = profile[0]
    while True:
        if kind == "always":
            yield 1
        elif kind == "random":
            yield 1 if rng.random() < profile[1] else 0
        else:               # bursty
            for _ in range(rng.randint(1, profile[2])):
                yield 1
            for _ in range(rng.randint(1, profile[1])):
                yield 0


def run_long_tseq(rng, res):
    """One complete TSEQ burst of the transceiver's real length (65536 sets = 524288 words; the emitter's set counter is
    exactly 16 bits wide).  Runs on amaranth's Simulator directly: harness-side counters in a wrapper count accepted
    words and burst_complete cycles and latch the word index of the first burst_complete, the test bench wakes every
    1000-6000 cycles (and every cycle around the expected end) and compares the presented word with the reference set."""
    from amaranth import Module, Elaboratable, Signal
    from amaranth.sim import Simulator
    from luna.gateware.usb.usb3.link.ordered_sets import TSTransceiver
    import warnings
    x = TSTransceiver()
    words, bc_count, bc_at = Signal(32), Signal(8), Signal(32)

    class Wrapper(Elaboratable):
        def elaborate(self, platform):
            m = Module()
            m.submodules.x = x
            with m.If(x.source.valid & x.source.ready):
                m.d.ss += words.eq(words + 1)
            with m.If(x.burst_complete):
                m.d.ss += bc_count.eq(bc_count + 1)
                with m.If(bc_count == 0):
                    m.d.ss += bc_at.eq(words)
            return m

    L = len(SETS["tseq"])
    total = 65536 * L
    sim = Simulator(Wrapper())
    sim.add_clock(8e-9, domain="ss")
    st = {"cycles": 0, "checked": 0}
    res.bin("xcvr_tseq_full_65536_burst")
    res.desc = {"long_tseq_burst": True}
    res.sig("long_tseq", rng.random())

    async def tb(ctx):
        def check(where):
            w = ctx.get(words)
            got = (ctx.get(x.source.valid), ctx.get(x.source.data), ctx.get(x.source.ctrl), ctx.get(x.source.first), ctx.get(x.source.last))
            pos = w % L
            want = (1,) + SETS["tseq"][pos] + (int(pos == 0), int(pos == L - 1))
            st["checked"] += 1
            if got != want:
                res.violation("xcvr_source_wrong_word", "full TSEQ burst, %s: word index %d presented as %s, expected %s" % (where, w, got, want))
                return False
            return True
        ctx.set(x.sink.valid, 0)
        ctx.set(x.source.ready, 1)
        ctx.set(x.send_tseq_burst, 1)
        await ctx.tick("ss").repeat(2)
        st["cycles"] += 2
        ok = True
        while ok and ctx.get(words) < total - 7000:
            n = rng.randint(1000, 6000)
            await ctx.tick("ss").repeat(n)
            st["cycles"] += n
            ok = check("mid-burst")
            if rng.random() < 0.3:                      # a short stall
                ctx.set(x.source.ready, 0)
                k = rng.randint(1, 3)
                await ctx.tick("ss").repeat(k)
                st["cycles"] += k
                ok = ok and check("stalled")
                ctx.set(x.source.ready, 1)
        # cycle by cycle around the end of the burst and into the next one
        guard = 0
        while ok and ctx.get(words) < total + 40 and guard < 20000:
            guard += 1
            if rng.random() < 0.1:
                ctx.set(x.source.ready, 0)
                await ctx.tick("ss")
                ctx.set(x.source.ready, 1)
                st["cycles"] += 1
            await ctx.tick("ss")
            st["cycles"] += 1
            ok = check("around the end")
        n_bc, at = ctx.get(bc_count), ctx.get(bc_at)
        res.event("xcvr_tseq_full_burst_words", ctx.get(words))
        if ok:
            if n_bc != 1 or at != total - 1:
                res.violation("xcvr_tseq_burst_length_wrong", "send_tseq_burst held, %d words accepted: burst_complete seen %d time(s), first on word index %d; "
                              "expected exactly once, on word index %d (last word of set 65536)" % (ctx.get(words), n_bc, at, total - 1))
            else:
                res.event("xcvr_tseq_full_burst_complete")

    sim.add_testbench(tb)
    with warnings.catch_warnings():
        warnings.simplefilter("ignore")
        sim.run()
    res.cycles = st["cycles"]
    res.event("xcvr_tseq_words_checked", st["checked"])
    res.nontrivial = True


def run_case(rng, tier, res):
    from amaranth import Module, Elaboratable, Cat
    from luna.gateware.usb.usb3.link.ordered_sets import TSEmitter, TSBurstDetector, TSTransceiver

    if rng.random() < 0.035:
        return run_long_tseq(rng, res)

    det_budget = rng.randint(3000, 5000)
    emit_cycles = rng.randint(1200, 2200)
    det_cfgs = [rng.choice(DET_CHOICES) for _ in range(3)]
    if det_cfgs[0][1] == 32:
        det_budget = max(det_budget, 4500)
    emit_cfgs = [rng.choice(EMIT_CHOICES) for _ in range(2)]
    use_xcvr = rng.random() < 0.25

    dets = [TSBurstDetector(sets_in_burst=n, include_config=wc, **luna_set(kind)) for (kind, n, wc) in det_cfgs]
    emits = [TSEmitter(transmit_burst_length=n, include_config=wc, **luna_set(kind)) for (kind, n, wc) in emit_cfgs]
    xcvr = TSTransceiver() if use_xcvr else None

    class Wrapper(Elaboratable):
        def elaborate(self, platform):
            m = Module()
            for i, d in enumerate(dets):
                m.submodules["det%d" % i] = d
            for i, e in enumerate(emits):
                m.submodules["emit%d" % i] = e
            if xcvr is not None:
                m.submodules.xcvr = xcvr
            return m

    b = Bench(Wrapper(), domain="ss", freq=125e6, max_cycles=60000)
    fields = []          # (key, signal, width)

    def add(key, sig):
        fields.append((key, sig, len(sig)))

    # ---- detectors
    streams = []
    for i, ((kind, n, wc), d) in enumerate(zip(det_cfgs, dets)):
        st = build_stream(rng, kind, n, wc, det_budget)
        streams.append(st)
        res.bin("det_" + kind)
        if wc != (kind == "ts2"):
            res.bin("det_config_crossed")
        res.bin("det_n%s" % {1: "1", 2: "2or3", 3: "2or3", 8: "8", 32: "32"}[n])
        add(("d", i, "valid"), d.sink.valid); add(("d", i, "data"), d.sink.data); add(("d", i, "ctrl"), d.sink.ctrl)
        add(("d", i, "det"), d.detected)
        if wc:
            add(("d", i, "hr"), d.hot_reset); add(("d", i, "lb"), d.loopback_requested); add(("d", i, "ns"), d.scrambling_disabled)

        def drv(d=d, cyc=st.cyc):
            for (v, data, c) in cyc:
                b.set(d.sink.valid, v); b.set(d.sink.data, data); b.set(d.sink.ctrl, c)
                yield
            b.set(d.sink.valid, 0)
            yield
        b.add_driver(drv())

    # ---- emitters
    escripts = []
    for i, ((kind, n, wc), e) in enumerate(zip(emit_cfgs, emits)):
        if wc != (kind == "ts2"):
            res.bin("emit_config_crossed")
        start, tags = emitter_script(rng, kind, n, wc, emit_cycles)
        profile = rng.choice([("always",), ("random", 0.8), ("random", 0.5), ("random", 0.2), ("bursty", 6, 12), ("bursty", 3, 3)])
        escripts.append((start, profile))
        for tg in tags:
            res.bin(tg)
        res.bin("emit_" + kind)
        res.bin("emit_n%s" % {1: "1", 2: "2or3", 3: "2or3", 16: "16"}[n])
        add(("e", i, "start"), e.start); add(("e", i, "ready"), e.source.ready); add(("e", i, "valid"), e.source.valid)
        add(("e", i, "data"), e.source.data); add(("e", i, "ctrl"), e.source.ctrl); add(("e", i, "first"), e.source.first)
        add(("e", i, "last"), e.source.last); add(("e", i, "done"), e.done)
        if wc:
            add(("e", i, "rhr"), e.request_hot_reset); add(("e", i, "rlb"), e.request_loopback); add(("e", i, "rns"), e.request_no_scrambling)

        def edrv(e=e, start=start, profile=profile, wc=wc, kind=kind, n=n):
            rg = ready_gen(rng, profile)
            L = len(SETS[kind])
            acc = 0
            for t, s in enumerate(start):
                b.set(e.start, s)
                r = next(rg)
                # deliberate stalls on interesting words (position estimated from the words accepted so far)
                p = acc % L
                if rng.random() < 0.25 and (p == L - 1 or (wc and p == 1)):
                    r = 0
                b.set(e.source.ready, r)
                if wc and rng.random() < 0.04:
                    b.set(e.request_hot_reset, rng.getrandbits(1))
                    b.set(e.request_loopback, rng.getrandbits(1))
                    b.set(e.request_no_scrambling, rng.getrandbits(1))
                yield
                if b.get(e.source.valid) and b.get(e.source.ready):
                    acc += 1
        b.add_driver(edrv())

    # ---- transceiver
    if use_xcvr:
        res.bin("xcvr_case")
        xs = build_xcvr_stimulus(rng, det_budget)
        add(("x", "valid"), xcvr.sink.valid); add(("x", "data"), xcvr.sink.data); add(("x", "ctrl"), xcvr.sink.ctrl)
        for k in ("tseq_detected", "ts1_detected", "inverted_ts1_detected", "ts2_detected", "hot_reset_requested",
                  "loopback_requested", "no_scrambling_requested", "send_tseq_burst", "send_ts1_burst", "send_ts2_burst",
                  "burst_complete", "request_hot_reset", "request_loopback", "request_no_scrambling"):
            add(("x", k), getattr(xcvr, k))
        add(("x", "svalid"), xcvr.source.valid); add(("x", "sready"), xcvr.source.ready); add(("x", "sdata"), xcvr.source.data)
        add(("x", "sctrl"), xcvr.source.ctrl); add(("x", "sfirst"), xcvr.source.first); add(("x", "slast"), xcvr.source.last)

        def xsink():
            for (v, data, c) in xs["cyc"]:
                b.set(xcvr.sink.valid, v); b.set(xcvr.sink.data, data); b.set(xcvr.sink.ctrl, c)
                yield
            b.set(xcvr.sink.valid, 0)
            yield
        b.add_driver(xsink())
        b.add_driver(xcvr_source_driver(b, rng, xcvr, xs, res))

    allbits = Cat(*[f[1] for f in fields])
    b.watch(allbits)
    if use_xcvr:
        b.watch(xcvr.source.valid, xcvr.source.ready, xcvr.burst_complete)
    for e in emits:
        b.watch(e.source.valid, e.source.ready)
    words = []
    b.add_monitor(lambda bb: words.append(bb.get(allbits)))
    res.desc = {"detectors": [{"kind": k, "N": n, "cfg": wc, "episodes": [e[2] for e in st.episodes[:6]]}
                              for (k, n, wc), st in zip(det_cfgs, streams)],
                "emitters": [{"kind": k, "N": n, "ready": list(p), "start_head": s[:40]} for (k, n, _), (s, p) in zip(emit_cfgs, escripts)],
                "xcvr": use_xcvr}
    res.sig(det_cfgs, emit_cfgs, [st.cyc for st in streams], escripts, use_xcvr)
    b.run()
    res.cycles = b.cycle
    if b.hit_max_cycles:
        res.violation("harness_cycle_budget_exceeded", "scripts did not finish within %d cycles" % b.max_cycles)

    # ---- unpack traces
    tr = {}
    shift = 0
    for key, sig, w in fields:
        mask = (1 << w) - 1
        tr[key] = [(x >> shift) & mask for x in words]
        shift += w
    T = len(words)
    deferred = []
    for i, ((kind, n, wc), st) in enumerate(zip(det_cfgs, streams)):
        cyc = list(zip(tr[("d", i, "valid")], tr[("d", i, "data")], tr[("d", i, "ctrl")]))
        # trace index 0 is the first clock edge, which samples what the drivers set before it: no offset
        off = 0
        eps = [(f + off, l + off, tags) for (f, l, tags) in st.episodes]
        cfg_out = list(zip(tr[("d", i, "hr")], tr[("d", i, "lb")], tr[("d", i, "ns")])) if wc else None
        if cyc[off:off + len(st.cyc)] != st.cyc[:T - off]:
            raise RuntimeError("harness: sampled detector input differs from the script")
        judge_detector(res, "det%d" % i, kind, n, wc, cyc, eps, tr[("d", i, "det")], cfg_out, deferred)
    for i, (kind, n, wc) in enumerate(emit_cfgs):
        t_ = {k: tr[("e", i, k)] for k in ("start", "ready", "valid", "data", "ctrl", "first", "last", "done")}
        if wc:
            t_["req"] = [a | (l << 2) | (s << 3) for a, l, s in zip(tr[("e", i, "rhr")], tr[("e", i, "rlb")], tr[("e", i, "rns")])]
        else:
            t_["req"] = [0] * T
        judge_emitter(res, "emit%d" % i, kind, n, wc, t_)
    if use_xcvr:
        judge_xcvr(res, tr, xs, deferred)
    shown = {}
    for mech, detail in deferred:           # at most two per known mechanism, after everything else
        shown[mech] = shown.get(mech, 0) + 1
        if shown[mech] <= 2:
            res.violation(mech, detail)
    ev, bins = res.events, res.bins
    res.nontrivial = bool(ev.get("det_reports_demanded") and ev.get("emit_bursts_complete") and
                          (bins.get("ep_corrupt_data_bit") or bins.get("ep_corrupt_ctrl_bit") or bins.get("ep_truncated")))


# ---------------------------------------------------------------------------------- transceiver

XCVR_DET = [("tseq", 32, False, "tseq_detected"), ("ts1", 8, False, "ts1_detected"), ("its1", 8, False, "inverted_ts1_detected"),
            ("ts2", 8, True, "ts2_detected")]
XCVR_EMIT = {"tseq": ("send_tseq_burst", 65536), "ts1": ("send_ts1_burst", 16), "ts2": ("send_ts2_burst", 16)}


def build_xcvr_stimulus(rng, budget):
    """Sink: one stream whose episodes alternate between the four set types (each episode is built by a Stream of that type
    so that the separator and garbage are meaningful for it); all four detectors are judged on the whole stream."""
    cyc = []
    episodes = {k[0]: [] for k in XCVR_DET}
    builders = {kind: Stream(rng, kind, n, wc) for kind, n, wc, _ in XCVR_DET}
    for s in builders.values():
        s.tags = set()
        s.cfg = 0
    cyc += [(0, 0, 0)] * 4
    while len(cyc) < budget:
        kind = rng.choice(["ts1", "ts1", "ts2", "ts2", "its1", "tseq"])
        s = builders[kind]
        s.cyc = []
        s.episodes = []
        s.episode()
        first = len(cyc)
        cyc += s.cyc
        # a separator valid for *every* type: lone first words of both kinds, each followed by a garbage word, then idle
        for k2 in ("ts1", "tseq"):
            cyc.append((1,) + SETS[k2][0])
            cyc.append((1, 0x12345678, 0))
        cyc += [(0, 0, 0)] * (LATD + 1)
        for k in episodes:
            episodes[k].append((first, len(cyc) - 1, sorted(s.tags) if k == kind else []))
    cyc += [(0, 0, 0)] * (LATD + 4)
    # source side: list of activations (kind, sets to let through, clean end?)
    acts = []
    for _ in range(200):
        kind = rng.choice(["ts1", "ts1", "ts2", "ts2", "tseq"])
        acts.append({"kind": kind, "bursts": rng.choice([1, 1, 2]), "clean": rng.random() < 0.7,
                     "extra_words": rng.randint(1, 40), "cfg": rng.choice([0, 1, 4, 8, 13, 5, 9, 12]),
                     "ready": rng.choice([("always",), ("random", 0.7), ("bursty", 3, 5)])})
    return {"cyc": cyc, "episodes": episodes, "acts": acts}


def xcvr_source_driver(b, rng, xcvr, xs, res):
    """Activates one send_* at a time and lets an exact number of words through (`get()` after the `yield` shows the
    cycle in which the values set before it were effective, so accepted words are counted without lag).  A *clean*
    activation is dropped in the cycle after the last word of a whole burst, a *dirty* one after a number of words that
    is not a multiple of a burst (often not even of a set)."""
    total = len(xs["cyc"])
    for k in ("send_tseq_burst", "send_ts1_burst", "send_ts2_burst"):
        b.set(getattr(xcvr, k), 0)
    yield
    for act in xs["acts"]:
        if b.cycle > total - 300:
            break
        kind = act["kind"]
        send, n = XCVR_EMIT[kind]
        L = len(SETS[kind])
        if kind == "tseq":
            target = L * rng.randint(2, 12) if act["clean"] else L * rng.randint(1, 6) + rng.randint(1, L - 1)
        elif act["clean"]:
            target = act["bursts"] * n * L
        else:
            target = (act["bursts"] - 1) * n * L + act["extra_words"]
        cfg = act["cfg"]
        b.set(xcvr.request_hot_reset, cfg & 1); b.set(xcvr.request_loopback, (cfg >> 2) & 1); b.set(xcvr.request_no_scrambling, (cfg >> 3) & 1)
        b.set(getattr(xcvr, send), 1)
        rg = ready_gen(rng, act["ready"])
        acc = 0
        guard = 0
        while acc < target and guard < 40 * target + 200:
            guard += 1
            b.set(xcvr.source.ready, next(rg))
            yield
            if b.get(xcvr.source.valid) and b.get(xcvr.source.ready):
                acc += 1
        b.set(xcvr.source.ready, 0)
        b.set(getattr(xcvr, send), 0)
        for _ in range(rng.randint(1, 6)):
            yield
    for _ in range(5):
        yield


def judge_xcvr(res, tr, xs, deferred):
    T = len(tr[("x", "valid")])
    cyc = list(zip(tr[("x", "valid")], tr[("x", "data")], tr[("x", "ctrl")]))
    for kind, n, wc, out in XCVR_DET:
        eps = list(xs["episodes"][kind])
        cfg_out = list(zip(tr[("x", "hot_reset_requested")], tr[("x", "loopback_requested")], tr[("x", "no_scrambling_requested")])) if wc else None
        judge_detector(res, "xcvr." + out, kind, n, wc, cyc, eps, tr[("x", out)], cfg_out, deferred, xcvr=True)

    # ---- source side.  Activation = maximal span with exactly one send_* high.
    sends = {k: tr[("x", v[0])] for k, v in XCVR_EMIT.items()}
    sv, sr, bc = tr[("x", "svalid")], tr[("x", "sready")], tr[("x", "burst_complete")]
    acts = []            # [kind, t_on, [(t, data, ctrl, first, last, bc, req)]]
    cur = None
    once = set()

    def V(mech, detail):
        if mech not in once:
            once.add(mech)
            res.violation(mech, detail)

    for t in range(T):
        active = [k for k in XCVR_EMIT if sends[k][t]]
        if len(active) != 1:
            cur = None
            if not active:
                if sv[t]:
                    V("xcvr_source_valid_without_send", "xcvr source.valid high at cycle %d while no send_* is asserted" % t)
                if bc[t]:
                    V("xcvr_burst_complete_without_send", "xcvr burst_complete at cycle %d while no send_* is asserted" % t)
            continue
        if cur is None or cur[0] != active[0]:
            cur = [active[0], t, []]
            acts.append(cur)
        if sv[t] and sr[t]:
            req = tr[("x", "request_hot_reset")][t] | (tr[("x", "request_loopback")][t] << 2) | (tr[("x", "request_no_scrambling")][t] << 3)
            cur[2].append((t, tr[("x", "sdata")][t], tr[("x", "sctrl")][t], tr[("x", "sfirst")][t], tr[("x", "slast")][t], bc[t], req))
        elif bc[t]:
            V("xcvr_burst_complete_misplaced", "xcvr %s cycle %d: burst_complete without an accepted word" % (active[0], t))

    def check(kind, seq, idx0):
        n = XCVR_EMIT[kind][1]
        L = len(SETS[kind])
        for j, (t, data, ctrl, fi, la, b_, req) in enumerate(seq):
            idx = idx0 + j
            pos, setn = idx % L, (idx // L) % n
            d, c = SETS[kind][pos]
            if kind == "ts2" and pos == 1:
                d |= req << 8
            want = (d, c, int(pos == 0), int(pos == L - 1), int(pos == L - 1 and setn == n - 1))
            if (data, ctrl, fi, la, b_) != want:
                return "cycle %d: word %d of this activation is (data %#010x ctrl %x first %d last %d burst_complete %d), expected word %d of set %d of %d: (%#010x %x %d %d %d)" % (
                    (t, j, data, ctrl, fi, la, b_, pos, setn + 1, n) + want)
        return None

    # classifier state: possible numbers of words (mod burst) that earlier, unfinished activations left behind in the emitter
    hyps = {k: {0} for k in XCVR_EMIT}
    for kind, t_on, seq in acts:
        n = XCVR_EMIT[kind][1]
        L = len(SETS[kind])
        period = n * L
        err = check(kind, seq, 0)
        passing = [h for h in hyps[kind] if h % period and check(kind, seq, h) is None]
        new = set((h + len(seq)) % period for h in passing)
        if err is None:
            res.event("xcvr_words_accepted", len(seq))
            res.event("xcvr_burst_complete", sum(1 for w in seq if w[5]))
            new.add(len(seq) % period)
        elif passing:
            c = passing[0]
            res.event("known_x_hits")
            deferred.append((KNOWN_X, "xcvr %s: an earlier activation was dropped after %d accepted words of a burst (inside set %d of %d); the activation at cycle %d "
                             "continues that burst instead of emitting whole sets from the first word: %s" % (kind, c, c // L + 1, n, t_on, err)))
        else:
            V("xcvr_source_wrong_word", "xcvr %s activation at cycle %d: %s" % (kind, t_on, err))
        hyps[kind] = new
