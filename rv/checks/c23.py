"""C23 — ULPI transmit translation delivers the UTMI packet unchanged.

DUTs: (a) the real `ULPITransmitTranslator` alone, glued to a ULPI record the way `UTMITranslator` does it (data/stp only
while `ulpi_out_req`, `bus_idle = ~dir & ~busy_of_the_other_bus_user`), and (b) the real `UTMITranslator`; both against
the reference ULPI 1.1 PHY model `rv/ref/c22_ulpiphy.py` (Moore PHY: NXT answers a command byte 1..9 cycles after it
appears, NXT profile in the packet body always / every k / random / bursty, NXT randomly high or low in the STP cycle).

Workload (one case = one session of 15-40 UTMI packets): lengths 1-70 (1 = handshake, 3, 64/65, long zero-filled
"chirp" packets in NOPID mode), first bytes with every PID nibble and an arbitrary high nibble, op modes 0b00 (normal) and
0b10 (bit-stuffing disabled; in (b) selected through the real register write, the bench waits for it before transmitting),
packet gaps down to a single cycle, in (a) op_mode changing in the very cycle tx_valid rises and back-to-back packets
(tx_valid low for the STP cycle only) in alternating op modes -- TXCMD kind and STP data of a packet must both follow the
op_mode presented from the cycle tx_valid rose (op_mode is held during a packet; in (b) this cannot be generated as long
as the C24 finding regwrite_started_while_txcmd_pending is open: it dead-locks), the UTMI side moving to the next byte in the cycle after `tx_ready` exactly like a
synchronous UTMI transmitter, PHY-originated DIR activity (RxCmd updates, whole receive packets, DIR+NXT starts) placed
-4..+5 cycles around the start of the transmission (the TXCMD is then aborted and has to be presented again) and right
behind the STP, in (a) the "other bus user busy" input held across the start of a transmission.

Oracle (ULPI 1.1 3.8.2, no luna code), per UTMI packet i and PHY-side packet i as logged by the PHY model:
  * exactly one transmit command per UTMI packet (counts equal; no command withdrawn / changed before its NXT, no NXT
    answered by an idle bus, no register command, nothing else on the bus);
  * command byte = 0x40 | low nibble of the first UTMI byte in normal mode, 0x40 (NOPID) in 0b10 mode;
  * the bytes the PHY consumed (NXT high, DIR low, no STP) = the remaining UTMI bytes (all UTMI bytes for NOPID), in order;
  * STP exactly in the cycle after the last consumed byte, for one cycle, with data 0x00 (normal) / 0xFF (0b10 mode);
  * per cycle: `tx_valid & tx_ready` <=> the PHY consumed a byte of the UTMI packet in this cycle (the TXCMD counts as
    UTMI byte 0 in normal mode, never in NOPID mode);
  * `data.oe` is low in every cycle in which DIR is high;
  * bounded progress: a packet completes within 400 + 12 x length cycles of bus-free time.

Op modes 0b01 / 0b11 (non-driving / reserved; nothing meaningful can be transmitted) are exercised in a seventh of the
packets, but there only the mode-independent part is judged (whichever framing the command byte announces must be delivered
intact, STP position, tx_ready equivalence), not the choice of framing nor the STP data.  In (b) a quarter of the cases have the `rst` pin (start-up delay scaled to 10-60 cycles; the first packet may be requested
inside it), and a third of the packets have another control input changing 1-6 cycles before tx_valid or inside the packet
body, so that a register write and the packet share the bus.  Not judged: `tx_ready` while
`tx_valid` is low, the receive path (C22), the register contents (C24).  In (b) the control inputs are only changed while
no transmission is pending (the interaction of both is C24's subject).
"""
from rv.sim import Bench
from rv.ref.c22_ulpiphy import ULPIPhy, act_receive, act_rxcmds, rxcmd
from rv.checks.c22 import make_ulpi, ResProxy, function_control, otg_control, CTL_QUIET

PROPERTY = "C23"
CASES = {"quick": 320, "thorough": 5000}
RULE = ("case = session of 15-40 UTMI transmit packets (length 1-70, PID nibble x arbitrary high nibble, op mode normal / "
        "no-bit-stuff, gap 1-30 cycles) against a PHY with random command latency and NXT profile, with PHY DIR activity placed "
        "around the start of transmissions; DUT = bare ULPITransmitTranslator or full UTMITranslator; non-trivial = >=1 packet of "
        "each op mode, >=1 TXCMD aborted by DIR and >=1 throttled packet; distinct = hash of packets, profiles and activity placement")
REQUIRED_BINS = ["dut_bare", "dut_translator", "mode_normal", "mode_nopid", "mode_other", "len_1", "len_2", "len_ge_64", "nopid_zero_filled",
                 "nxt_always", "nxt_throttled", "cmd_latency_0", "cmd_latency_ge_3", "txcmd_aborted_by_dir", "dirnxt_while_txcmd_pending",
                 "rx_activity_right_after_stp", "nxt_high_in_stp_cycle", "nxt_low_in_stp_cycle", "gap_1_cycle", "first_byte_high_nibble_not_complement",
                 "other_bus_user_busy_at_start", "opmode_regwrite_before_tx", "nxt_low_right_after_txcmd",
                 "opmode_change_on_tx_valid_rise", "back_to_back_alternating_modes", "with_rst_pin", "tx_requested_before_phy_ready",
                 "regwrite_started_just_before_tx", "control_change_inside_tx_body"]
REQUIRED_EVENTS = ["utmi_packets", "phy_packets_compared", "utmi_bytes_accepted", "phy_bytes_consumed", "stp_checked",
                   "accept_cycles_compared", "dir_high_cycles_checked"]
ASSUMPTIONS = ["in op modes 0b01 and 0b11 the choice PID/NOPID and the STP data are not judged", "UTMI transmitter holds tx_data until tx_ready and drops tx_valid in the cycle after the last accepted byte",
               "the PHY never raises DIR inside the body of a transmit packet",
               "control inputs (op_mode) change only while no transmission is pending; the bench waits for the register write before transmitting"]

PIDS = [0x1, 0x9, 0x5, 0xD, 0x3, 0xB, 0x7, 0xF, 0x2, 0xA, 0xE, 0x6, 0xC, 0x4, 0x8]


def first_byte(rng, res):
    pid = rng.choice(PIDS)
    if rng.random() < 0.6:
        return pid | ((pid ^ 0xF) << 4)
    res.bin("first_byte_high_nibble_not_complement")
    return pid | (rng.randrange(16) << 4)


def make_packet(rng, res, nopid):
    r = rng.random()
    if r < 0.2:
        n = 1
    elif r < 0.3:
        n = 2
    elif r < 0.45:
        n = rng.choice([3, 4, 11])
    elif r < 0.6:
        n = rng.choice([64, 65, 66, 67, 70])
    else:
        n = rng.randint(1, 70)
    if nopid and rng.random() < 0.3:
        data = [0] * n
        res.bin("nopid_zero_filled")
    else:
        style = rng.random()
        if style < 0.5:
            start = rng.randrange(256)
            data = [(start + 29 * i) & 0xFF for i in range(n)]
        elif style < 0.6:
            data = [rng.choice([0x00, 0xFF, 0x40, 0x80, 0xC0, 0x41]) for _ in range(n)]
        else:
            data = [rng.randrange(256) for _ in range(n)]
        if not nopid:
            data[0] = first_byte(rng, res)
    res.bin("len_1" if n == 1 else "len_2" if n == 2 else "len_ge_64" if n >= 64 else "len_mid")
    return data


def run_case(rng, tier, res0):
    res = ResProxy(res0)
    try:
        _run_case(rng, tier, res)
    finally:
        res._col.flush()


def _run_case(rng, tier, res):
    from amaranth import Module, Elaboratable, Signal, Mux
    from luna.gateware.interface.ulpi import ULPITransmitTranslator, UTMITranslator
    bare = rng.random() < 0.45
    with_rst = (not bare) and rng.random() < 0.3
    startup = rng.randint(10, 60) if with_rst else 0
    ulpi = make_ulpi(with_rst)
    if bare:
        class Harness(Elaboratable):
            def __init__(self):
                self.tx = ULPITransmitTranslator()
                self.other_busy = Signal()

            def elaborate(self, platform):
                m = Module()
                m.submodules.tx = tx = self.tx
                m.d.comb += [
                    ulpi.data.oe.eq(~ulpi.dir.i),
                    ulpi.data.o.eq(Mux(tx.ulpi_out_req, tx.ulpi_data_out, 0)),
                    ulpi.stp.o.eq(Mux(tx.ulpi_out_req, tx.ulpi_stp, 0)),
                    tx.ulpi_nxt.eq(ulpi.nxt.i),
                    tx.bus_idle.eq(~ulpi.dir.i & ~self.other_busy),
                ]
                return m
        h = Harness()
        dut, top = h.tx, h
        res.bin("dut_bare")
    else:
        dut = top = UTMITranslator(ulpi=ulpi, handle_clocking=False)
        res.bin("dut_translator")
        if with_rst:
            dut._CYCLES_1_MILLISECONDS = startup      # start-up delay (phy_ready) scaled down
            res.bin("with_rst_pin")
    b = Bench(top, domain="usb", freq=60e6, max_cycles=40000)
    lat = rng.choice([(0, 0), (0, 0), (0, 2), (1, 4), (3, 8)])
    tx_nxt = rng.choice(["always", "always", ("every", rng.randint(2, 6)), ("random", rng.choice([0.2, 0.5, 0.8])),
                         ("bursty", rng.randint(1, 6), rng.randint(1, 8))])
    phy = ULPIPhy(b, ulpi, rng, cmd_latency=lat, tx_nxt=tx_nxt, reg_nxt=rng.choice(["always", ("random", 0.7)]), garbage=rng.random() < 0.8)
    res.bin("nxt_always" if tx_nxt == "always" else "nxt_throttled")
    if lat[1] == 0:
        res.bin("cmd_latency_0")
    if lat[1] >= 3:
        res.bin("cmd_latency_ge_3")
    b.watch(dut.tx_valid, dut.tx_data, dut.tx_ready, dut.op_mode)
    if not bare:
        for name in CTL_QUIET:
            b.watch(getattr(dut, name))
    res.desc = {"dut": "ULPITransmitTranslator" if bare else "UTMITranslator", "cmd_latency": lat, "tx_nxt": tx_nxt, "packets": []}
    res.sig(bare, lat, tx_nxt)

    utmi_accepts = []          # cycles with tx_valid & tx_ready
    sent = []                  # per UTMI packet: dict(data, nopid, start, accepts=[cycles], end)
    st = {"cur": None, "done": False}

    def monitor(b):
        if b.get(dut.tx_valid) and b.get(dut.tx_ready):
            utmi_accepts.append(b.cycle)
            res.event("utmi_bytes_accepted")

    def rx_activity():
        r = rng.random()
        if r < 0.4:
            return act_rxcmds(rng, [rxcmd(rng.randrange(4), 3, 0) for _ in range(rng.randint(1, 3))], garbage=phy.garbage), "rxcmd"
        n = rng.choice([1, 3, 8, 20])
        start = rng.choice(["dirnxt", "dirnxt", "rxcmd"])
        return act_receive(rng, [rng.randrange(256) for _ in range(n)], start=start, status=0x0D, gap_profile=rng.choice(["none", ("random", 0.3)]),
                           end=rng.choice(["dir", "rxcmd"]), garbage=phy.garbage), start

    def send(data, nopid, op, set_op=False):
        rec = {"data": list(data), "nopid": nopid, "op": op, "start": b.cycle + 1, "accepts": [], "end": None}
        sent.append(rec)
        res.event("utmi_packets")
        i = 0
        if set_op:
            b.set(dut.op_mode, op)          # the operating mode changes in the very cycle tx_valid rises
        b.set(dut.tx_valid, 1)
        b.set(dut.tx_data, data[0])
        budget = 400 + 12 * len(data) + startup
        free = 0
        while True:
            yield
            if b.get(dut.tx_ready):
                rec["accepts"].append(b.cycle)
                i += 1
                if i == len(data):
                    b.set(dut.tx_valid, 0)
                    b.set(dut.tx_data, rng.randrange(256))
                    break
                b.set(dut.tx_data, data[i])
            if not b.get(ulpi.dir.i):
                free += 1
                if free > budget:
                    res.violation("tx_never_completed", "UTMI packet %d (%d bytes, nopid=%s): only %d bytes accepted after %d bus-free cycles"
                                  % (len(sent) - 1, len(data), nopid, i, free))
                    b.set(dut.tx_valid, 0)
                    st["dead"] = True
                    return
        rec["end"] = b.cycle

    def driver():
        op = 0
        if not bare:
            # PHY reset values of the control registers, so that only op_mode changes cause register writes
            b.set(dut.xcvr_select, 1)
            b.set(dut.dp_pulldown, 1)
            b.set(dut.dm_pulldown, 1)
        yield
        ctl = dict(CTL_QUIET)
        if with_rst and rng.random() < 0.6:
            res.bin("tx_requested_before_phy_ready")      # the first packet is requested inside the start-up delay and has to wait
        else:
            for _ in range(rng.randint(3, 8) + startup):
                yield
        n_pkts = rng.randint(15, 40)
        mode_run = 0
        for p in range(n_pkts):
            # op mode for this packet
            op_on_rise = False
            if mode_run <= 0:
                new_op = rng.choice([0, 0, 0, 2, 2, 1, 3])
                mode_run = rng.randint(1, 6)
                if new_op != op and bare and rng.random() < 0.5:
                    op = new_op
                    op_on_rise = True
                    res.bin("opmode_change_on_tx_valid_rise")
                elif new_op != op:
                    op = new_op
                    b.set(dut.op_mode, op)
                    if not bare:
                        res.bin("opmode_regwrite_before_tx")
                        want = function_control(dict(ctl, op_mode=op))
                        waited = 0
                        yield
                        while phy.regs.get(0x04) != want or phy.link_active:
                            yield
                            waited += 1
                            if waited > 600:
                                res.violation("harness_opmode_write_not_seen", "function control never became %#04x" % want)
                                return
                        for _ in range(rng.randint(3, 8)):
                            yield
                    else:
                        yield
            mode_run -= 1
            nopid = (op == 2)
            res.bin("mode_nopid" if nopid else "mode_normal" if op == 0 else "mode_other")
            data = make_packet(rng, res, nopid)
            # PHY-originated activity around the start / behind the end
            place = rng.random()
            if place < 0.45:
                cyc, kind = rx_activity()
                off = rng.randint(-4, 5 + lat[1])
                phy.schedule(cyc, at=b.cycle + 4 + off, name=kind)
                pre = 4
                res.sig("rx", off, kind, len(cyc))
            elif place < 0.6:
                pre = 0
                cyc, kind = rx_activity()
                phy.schedule(cyc, at=b.cycle + 3 + len(data), name="after")   # deferred by the model to the cycle after STP
                res.sig("rx_after", kind, len(cyc))
            else:
                pre = 0
            if bare and rng.random() < 0.3:
                # the other bus user (register window) is busy across the start of the transmission
                b.set(top.other_busy, 1)
                hold = rng.randint(1, 12)
                res.bin("other_bus_user_busy_at_start")

                def release(hold=hold):
                    for _ in range(hold):
                        yield
                    b.set(top.other_busy, 0)
                b.add_driver(release(), main=False)
                for _ in range(rng.randint(1, 3)):
                    yield
            for _ in range(pre):
                yield
            body_change = None
            if not bare and rng.random() < 0.3:
                # another control input (not op_mode) changes close to this packet: the register write and the packet have to share
                # the bus.  Either 1-6 cycles before tx_valid (the packet waits for the write), or inside the packet body (the
                # write waits for the STP).  Not between tx_valid and the TXCMD's NXT: that is C24's open finding.
                name = rng.choice(["term_select", "suspend", "id_pullup", "dp_pulldown", "chrg_vbus", "use_external_vbus_indicator"])
                while b.cycle <= startup + 3:
                    yield           # not inside the start-up delay: write and packet would become startable together (C24's open finding)
                if rng.random() < 0.5 or len(data) < 4:
                    ctl[name] ^= 1
                    b.set(getattr(dut, name), ctl[name])
                    res.bin("regwrite_started_just_before_tx")
                    res.sig("ctl_before", name)
                    for _ in range(rng.randint(1, 6)):
                        yield
                else:
                    body_change = name
            res.sig(p, nopid, tuple(data))
            if len(res.desc["packets"]) < 6:
                res.desc["packets"].append({"nopid": nopid, "data": bytes(data[:16]).hex(), "len": len(data)})
            if body_change:
                def later(name=body_change, n_sent=len(sent)):
                    # wait for the first accepted byte of this packet, then change the input inside the body
                    for _ in range(600):
                        yield
                        if len(sent) > n_sent and sent[n_sent]["accepts"]:
                            break
                    else:
                        return
                    if sent[n_sent]["end"] is None:
                        ctl[name] ^= 1
                        b.set(getattr(dut, name), ctl[name])
                        res.bin("control_change_inside_tx_body")
                b.add_driver(later(), main=False)
            yield from send(data, nopid, op, set_op=op_on_rise)
            if st.get("dead"):
                return
            if not bare:
                # let a pending register write finish before the next packet is requested (see above)
                want4 = function_control(dict(ctl, op_mode=op))
                wantA = otg_control(ctl)
                waited = 0
                yield
                while phy.regs.get(0x04) != want4 or phy.regs.get(0x0A) != wantA or phy.link_active:
                    yield
                    waited += 1
                    if waited > 600:
                        res.violation("regwrite_around_packet_not_completed", "after packet %d: function control %s (requested %#04x), OTG control %s (requested %#04x)"
                                      % (p, phy.regs.get(0x04), want4, phy.regs.get(0x0A), wantA))
                        return
            while bare and rng.random() < 0.35:
                # back-to-back: tx_valid is low for exactly one cycle (the STP cycle of the previous packet), the next packet is
                # in the other operating mode and op_mode changes in the cycle tx_valid rises again
                yield
                op = rng.choice([m for m in (0, 2, 0, 2, 1, 3) if m != op])
                nopid = (op == 2)
                res.bin("mode_nopid" if nopid else "mode_normal" if op == 0 else "mode_other")
                res.bin("back_to_back_alternating_modes")
                res.bin("opmode_change_on_tx_valid_rise")
                data = make_packet(rng, res, nopid)
                res.sig("b2b", op, tuple(data))
                yield from send(data, nopid, op, set_op=True)
                if st.get("dead"):
                    return
            gap = rng.choice([1, 1, 2, 3, 5, rng.randint(1, 30)])
            if gap == 1:
                res.bin("gap_1_cycle")
            for _ in range(gap):
                yield
            # do not let PHY activity pile up: wait until the queue is empty (bounded)
            waited = 0
            while phy.rx_pending and waited < 400:
                yield
                waited += 1
        for _ in range(12):
            yield

    b.add_monitor(monitor)
    b.add_driver(driver())
    b.run()
    res.cycles = b.cycle
    if b.hit_max_cycles:
        res.violation("harness_max_cycles", "session did not finish in %d cycles" % b.max_cycles)
        return
    judge(res, phy, sent, utmi_accepts, bare)


def judge(res, phy, sent, utmi_accepts, bare):
    complete = [s for s in sent if s["end"] is not None]
    pk = phy.tx_packets
    # the bus must not carry anything the UTMI side did not ask for
    for (k, name, info) in phy.anomalies:
        res.violation("bus_" + name, "cycle %d: %s %s" % (k, name, info))
    if phy.pkt is not None:
        res.violation("transmit_without_stp", "PHY is still inside a transmit (cmd %#04x accepted at %d, %d bytes) at the end of the session"
                      % (phy.pkt["cmd"], phy.pkt["accept"], len(phy.pkt["bytes"])))
    if bare and phy.reg_writes:
        res.violation("unsolicited_register_write", "bare transmit translator produced register writes %s" % (phy.reg_writes[:3],))
    if len(pk) != len(complete):
        res.violation("packet_count_mismatch", "UTMI side completed %d packets, PHY saw %d transmit commands with STP; first PHY cmds %s"
                      % (len(complete), len(pk), [hex(p["cmd"]) for p in pk[:6]]))
    phy_accepts = set()
    for i, (s, p) in enumerate(zip(complete, pk)):
        res.event("phy_packets_compared")
        data, nopid = s["data"], s["nopid"]
        framing_judged = s["op"] in (0, 2)
        if not framing_judged:
            # op modes 0b01 / 0b11: which framing the link picks is not judged, only that the packet is delivered intact in that framing
            nopid = (p["cmd"] == 0x40)
        ctx = "packet %d (len %d, nopid=%s, first byte %#04x, UTMI start cycle %d)" % (i, len(data), nopid, data[0], s["start"])
        want_cmd = 0x40 if nopid else 0x40 | (data[0] & 0xF)
        want_bytes = data if nopid else data[1:]
        if p["cmd"] != want_cmd:
            res.violation("txcmd_wrong_nopid" if nopid else "txcmd_wrong", "%s: PHY accepted command %#04x, expected %#04x" % (ctx, p["cmd"], want_cmd))
        res.event("phy_bytes_consumed", len(p["bytes"]))
        if p["bytes"] != want_bytes:
            if len(p["bytes"]) < len(want_bytes):
                mech = "tx_bytes_missing"
            elif len(p["bytes"]) > len(want_bytes):
                mech = "tx_bytes_extra"
            else:
                mech = "tx_bytes_differ"
            d = next((j for j in range(min(len(p["bytes"]), len(want_bytes))) if p["bytes"][j] != want_bytes[j]), min(len(p["bytes"]), len(want_bytes)))
            res.violation(mech + ("_nopid" if nopid else ""), "%s: PHY consumed %d bytes, expected %d; first difference at index %d: got %s expected %s"
                          % (ctx, len(p["bytes"]), len(want_bytes), d, bytes(p["bytes"][d:d + 4]).hex(), bytes(want_bytes[d:d + 4]).hex()))
        last = p["cycles"][-1] if p["cycles"] else p["accept"]
        res.event("stp_checked")
        if p["stp_cycle"] != last + 1:
            res.violation("stp_not_in_cycle_after_last_byte", "%s: last byte consumed in cycle %d, STP in cycle %s" % (ctx, last, p["stp_cycle"]))
        want_stp = 0xFF if nopid else 0x00
        if framing_judged and p["stp_data"] != want_stp:
            res.violation("stp_data_wrong_nopid" if nopid else "stp_data_wrong", "%s: data bus during STP = %#04x, expected %#04x" % (ctx, p["stp_data"], want_stp))
        res.bin("nxt_high_in_stp_cycle" if p["nxt_at_stp"] else "nxt_low_in_stp_cycle")
        if p["cycles"] and p["cycles"][0] > p["accept"] + 1:
            res.bin("nxt_low_right_after_txcmd")
        if not nopid:
            phy_accepts.add(p["accept"])
        phy_accepts.update(p["cycles"])
    if len(pk) == len(complete) == len(sent):
        ua = set(utmi_accepts)
        res.event("accept_cycles_compared", len(ua | phy_accepts))
        only_u = sorted(ua - phy_accepts)
        only_p = sorted(phy_accepts - ua)
        if only_u:
            res.violation("tx_ready_without_phy_accept", "tx_valid & tx_ready in cycles %s but the PHY consumed no UTMI byte there" % only_u[:6])
        if only_p:
            res.violation("phy_accept_without_tx_ready", "PHY consumed UTMI bytes in cycles %s but tx_ready was low" % only_p[:6])
    # stp length: STP must be a single cycle -> a second STP cycle would be seen by the model as 'stp while idle'; checked via wire counters
    res.event("dir_high_cycles_checked", phy.dir_cycles)
    if phy.oe_while_dir:
        res.violation("link_drives_bus_while_dir_high", "data.oe high in %d of %d cycles with DIR high" % (phy.oe_while_dir, phy.dir_cycles))
    for (k, what, info) in phy.aborts:
        if what == "cmdwait" and info and (info[1] >> 6) == 1:
            res.bin("txcmd_aborted_by_dir")
    for name in ("dirnxt_while_txcmd_pending", "rx_activity_right_after_stp"):
        if phy.notes.get(name):
            res.bin(name, phy.notes[name])
    res.nontrivial = bool(res.bins.get("mode_normal") and res.bins.get("mode_nopid") and res.bins.get("txcmd_aborted_by_dir"))
