"""C01 — USB2 tokens are reported iff well-formed and addressed to the device.

DUTs
  * `USBTokenDetector(utmi=UTMIInterface(), filter_by_address=True)` stand-alone, in its 60 MHz and
    12 MHz/fs_only timer configurations, `address` input driven by the testbench (all 128 values
    over a run, changed only while the bus is idle);
  * the instance inside a real `USBDevice(bus=UTMIInterface())`: a passive spy endpoint (an object
    with an `EndpointInterface`, added through `USBDevice.add_endpoint`) observes the multiplexed
    `tokenizer` record; the device address is set through the same public extension point
    (`address_changed` / `new_address`), so the real `device.py` wiring address -> detector is in
    the loop.

Workload (one case = a session of 50-130 packets on the UTMI receive side, rv/ref/c01_rxwire.py):
  well-formed IN/OUT/SETUP/PING for the current address, well-formed SOFs (frame numbers whose low
  7 bits do / do not equal the address), tokens for a foreign address (one address bit different,
  or random), CRC5 damaged (each single-bit flip of the 16 payload/CRC bits, or random CRC), PID
  check nibble damaged, truncated (0, 1, 2 bytes), over-long (4-6 bytes, including two well-formed
  tokens glued together and a damaged token followed by a well-formed one inside the same packet),
  concatenations inside one packet (6-8 bytes: [complete CRC-valid token for us or a foreign address
  | handshake/data PID byte] + 0/1/2 filler bytes + [well-formed token for us | well-formed SOF],
  each filler length both gapless and with rx_valid gaps, so that a detector which re-arms on later
  bytes of the same packet is caught whatever its re-parse alignment),
  three-byte packets with a non-token PID (SPLIT, PRE/ERR, reserved, DATAx, handshakes) whose
  payload would be a valid token, data packets whose payload is a token image, handshakes.
  Every packet draws its own timing: lead-in 1-3, byte gaps none/fixed/random/one long stall,
  trailing rx_active cycles 0-9, and 1..12 idle cycles to the next packet (1 = the UTMI minimum);
  rx_data carries PID-like / next-byte-like garbage whenever rx_valid is low.

Monitor / oracle
  The monitor rebuilds every packet from the sampled rx_active/rx_valid/rx_data and samples
  new_token, new_frame, pid, address, endpoint, frame and is_* every cycle.  The reference decoder
  (PID nibble, token class, bit-serial CRC5 from rv/ref/crc.py, address compare) says for each
  packet whether exactly one `new_token` (with which pid/address/endpoint), exactly one `new_frame`
  (with which 11-bit number), or nothing is due.  A strobe is matched to a packet that ended at most
  WINDOW cycles before it (registration latency is not constrained beyond that); unmatched strobes
  and unfulfilled expectations are violations.  `frame` must hold the number of the last well-formed
  SOF (judged outside the window after a SOF); is_in/out/setup/ping must equal the decode of `pid`.

Deviations from DESIGN.md section 7: window 6 cycles instead of 4 with strobe-to-packet matching
(robust against added registers even with 1-cycle inter-packet gaps); in-device the address is set
through the endpoint's `address_changed/new_address` instead of a SET_ADDRESS transfer (C08 covers
that path), which makes all 128 addresses cheap to reach; the 2^11 payloads are sampled at random
(about 45 k well-formed payloads per quick run), not enumerated.

Not judged: `ready_for_response` (C05), the value of pid/address/endpoint between tokens (luna
clears `pid` on foreign tokens; the statement does not speak about it), `frame` before the first
SOF, `filter_by_address=False` detectors, address changes while a packet is on the wire.
"""
from rv.sim import Bench
from rv.ref.crc import usb2_token_crc5
from rv.ref.c01_rxwire import RxWire

PROPERTY = "C01"
CASES = {"quick": 384, "thorough": 5600}
RULE = ("case = (stand-alone 60MHz | stand-alone 12MHz fs_only | in-device spy endpoint) x session of 50-130 packets drawn from "
        "13 classes (good token, good SOF, foreign address, CRC5 bit flip, bad PID nibble, truncated, over-long, non-token PID, ...) "
        "with per-packet lead/gap/trail/idle timing and 2-6 address changes; non-trivial = >=1 accepted token, >=1 SOF and >=3 "
        "different rejection reasons; distinct = hash of all packets, their timing and the addresses")
REQUIRED_BINS = [
    "accepted_IN", "accepted_OUT", "accepted_SETUP", "accepted_PING", "accepted_sof",
    "reject_foreign_address", "reject_foreign_one_bit", "reject_crc5", "reject_crc5_single_bit", "reject_pid_nibble",
    "reject_truncated_1", "reject_truncated_2", "reject_empty", "reject_overlong", "reject_overlong_two_tokens",
    "reject_bad_then_good_in_one_packet", "reject_nontoken_pid_3bytes", "reject_data_packet", "reject_handshake",
    "gap_none", "gap_fixed", "gap_random", "gap_onestall", "trail_nonzero", "lead_gt1", "idle_1_before_good_token",
    "good_after_rejected", "mode_standalone_60", "mode_standalone_12", "mode_device", "address_nonzero", "address_changed",
    "sof_low7_equals_address", "sof_low7_differs", "endpoint_nonzero", "same_token_twice",
] + ["reject_concat_%s_f%d_%s" % (k, f, g) for k in ("token", "nontoken") for f in (0, 1, 2) for g in ("gapless", "gapped")]
REQUIRED_EVENTS = ["packets_judged", "new_token_strobes", "new_frame_strobes", "token_fields_compared", "frame_compared",
                   "is_flags_compared", "cycles_monitored", "expect_token", "expect_frame", "expect_nothing"]
ASSUMPTIONS = [
    "a strobe may come 0..6 cycles after the cycle in which rx_active is first sampled low (latency not constrained further)",
    "UTMI receive rules: rx_valid only while rx_active, rx_active >= 1 cycle before the first rx_valid, >= 1 idle cycle between packets",
    "the device address changes only while the bus is idle (>= 8 cycles after a packet, >= 2 before the next)",
    "frame output is judged only after the first well-formed SOF; pid/address/endpoint only on the new_token strobe",
]

WINDOW = 6

OUT, IN, SOF, SETUP, PING = 0x1, 0x9, 0x5, 0xD, 0x4
TOKEN_NAMES = {OUT: "OUT", IN: "IN", SETUP: "SETUP", PING: "PING"}
NONTOKEN_PIDS = (0x0, 0x8, 0xC, 0x3, 0xB, 0x7, 0xF, 0x2, 0xA, 0xE, 0x6)


# ------------------------------------------------------------------------------- reference
def pid_byte(pid):
    return (pid & 0xF) | ((~pid & 0xF) << 4)


def token_bytes(pid, addr, endp):
    v = (addr & 0x7F) | ((endp & 0xF) << 7)
    return bytes([pid_byte(pid), v & 0xFF, (v >> 8) | (usb2_token_crc5(addr, endp) << 3)])


def decode(pkt, device_address):
    """Reference decision for one received packet: ('token', pid, addr, endp) | ('sof', frame) | ('none', reason)."""
    pkt = bytes(pkt)
    if not pkt:
        return ("none", "empty")
    b0 = pkt[0]
    if (b0 & 0xF) != ((~b0 >> 4) & 0xF):
        return ("none", "pid_nibble")
    pid = b0 & 0xF
    if pid not in (OUT, IN, SOF, SETUP, PING):
        return ("none", "nontoken_pid")
    if len(pkt) < 3:
        return ("none", "truncated_%d" % len(pkt))
    if len(pkt) > 3:
        return ("none", "overlong")
    v = pkt[1] | ((pkt[2] & 7) << 8)
    addr, endp = v & 0x7F, v >> 7
    if (pkt[2] >> 3) != usb2_token_crc5(addr, endp):
        return ("none", "crc5")
    if pid == SOF:
        return ("sof", v)
    if addr != device_address:
        return ("none", "foreign_address")
    return ("token", pid, addr, endp)


# ------------------------------------------------------------------------------- DUT construction
def build(mode):
    from amaranth import Elaboratable, Module
    from luna.gateware.interface.utmi import UTMIInterface
    utmi = UTMIInterface()
    if mode == "device":
        from luna.gateware.usb.usb2.device import USBDevice
        from luna.gateware.usb.usb2.endpoint import EndpointInterface

        class SpyEndpoint(Elaboratable):
            def __init__(self):
                self.interface = EndpointInterface()

            def elaborate(self, platform):
                return Module()

        dev = USBDevice(bus=utmi)
        spy = SpyEndpoint()
        dev.add_endpoint(spy)
        return dev, utmi, spy.interface.tokenizer, spy, dev
    from luna.gateware.usb.usb2.packet import USBTokenDetector
    if mode == "standalone_12":
        det = USBTokenDetector(utmi=utmi, domain_clock=12e6, fs_only=True)
    else:
        det = USBTokenDetector(utmi=utmi)
    return det, utmi, det.interface, None, None


# ------------------------------------------------------------------------------- case
def run_case(rng, tier, res):
    mode = rng.choice(["standalone_60", "standalone_60", "standalone_12", "device", "device"])
    dut, utmi, tok, spy, dev = build(mode)
    b = Bench(dut, domain="usb", freq=60e6, max_cycles=40000)
    wire = RxWire(b, utmi, rng)
    outs = [tok.new_token, tok.new_frame, tok.pid, tok.address, tok.endpoint, tok.frame,
            tok.is_in, tok.is_out, tok.is_setup, tok.is_ping]
    b.watch(*outs)
    if spy is not None:
        b.watch(spy.interface.active_address)
    res.bin("mode_" + mode)
    res.desc = {"mode": mode, "packets": []}
    res.sig(mode)

    st = {"addr": 0, "ref_frame": None, "frame_known": False, "frame_hist": [],
          "last": None, "prev_kind": None, "prev_pkt": None, "prev_end": None}
    exp = []           # open expectations: dict(end, kind, fields, matched, why, data)
    reasons_seen = set()

    def on_packet(p):
        d = decode(p.data, st["addr"])
        e = {"end": p.end, "kind": d[0], "fields": d[1:], "matched": 0, "data": bytes(p.data), "label": p.label,
             "addr": st["addr"]}
        exp.append(e)
        st["last"] = e
        res.event("packets_judged")
        if spy is not None and b.get(spy.interface.active_address) != st["addr"]:
            res.violation("device_address_mismatch", "cyc=%d active_address=%d model=%d" %
                          (b.cycle, b.get(spy.interface.active_address), st["addr"]))
        idle_before = (p.start - st["prev_end"] - 1) if st["prev_end"] is not None else None
        if d[0] == "token":
            res.event("expect_token")
            res.bin("accepted_" + TOKEN_NAMES[d[1]])
            if d[3]:
                res.bin("endpoint_nonzero")
            if idle_before == 1:
                res.bin("idle_1_before_good_token")
            if st["prev_kind"] == "none":
                res.bin("good_after_rejected")
            if st["prev_pkt"] == bytes(p.data):
                res.bin("same_token_twice")
        elif d[0] == "sof":
            res.event("expect_frame")
            res.bin("accepted_sof")
            res.bin("sof_low7_equals_address" if (d[1] & 0x7F) == st["addr"] else "sof_low7_differs")
            # the superseded value (None = unknown reset value) stays acceptable until the window closes
            st["frame_hist"].append((p.end + WINDOW, st["ref_frame"] if st["frame_known"] else None))
            st["ref_frame"], st["frame_known"] = d[1], True
        else:
            res.event("expect_nothing")
            res.bin("reject_" + d[1])
            reasons_seen.add(d[1])
            if p.label:
                for extra in p.label.split("+")[1:]:
                    res.bin("reject_" + extra)
        st["prev_kind"], st["prev_pkt"], st["prev_end"] = d[0], bytes(p.data), p.end

    def describe(e):
        return "packet=%s (%s) end=%d device_address=%d" % (e["data"].hex(), e["label"], e["end"], e["addr"])

    def strobe(kind, fields):
        cyc = b.cycle
        for e in exp:
            if e["kind"] == kind and not e["matched"] and e["end"] <= cyc <= e["end"] + WINDOW:
                e["matched"] = 1
                if kind == "token":
                    res.event("token_fields_compared")
                    if fields != e["fields"]:
                        which = [n for n, got, want in zip(("pid", "address", "endpoint"), fields, e["fields"]) if got != want]
                        res.violation("token_%s_wrong" % "_".join(which),
                                      "cyc=%d reported pid/addr/endp=%s expected=%s %s" % (cyc, fields, e["fields"], describe(e)))
                else:
                    res.event("frame_compared")
                    if fields != e["fields"]:
                        res.violation("frame_number_wrong", "cyc=%d frame=%s expected=%s %s" % (cyc, fields, e["fields"], describe(e)))
                return
        # no packet is waiting for this strobe: classify by the most recent packet
        name = "new_token" if kind == "token" else "new_frame"
        e = st["last"]
        if e is None or cyc > e["end"] + WINDOW or cyc < e["end"]:
            res.violation(name + "_without_packet", "cyc=%d %s=%s last=%s" % (cyc, name, fields, describe(e) if e else None))
        elif e["kind"] == kind:
            res.violation(name + "_duplicate", "cyc=%d second strobe %s" % (cyc, describe(e)))
        elif e["kind"] == "none":
            res.violation("%s_for_%s" % (name, e["fields"][0]), "cyc=%d reported=%s %s" % (cyc, fields, describe(e)))
        else:
            res.violation("%s_for_%s" % (name, e["kind"]), "cyc=%d reported=%s %s" % (cyc, fields, describe(e)))

    def monitor(b):
        res.event("cycles_monitored")
        p = wire.sample(b)
        if p is not None:
            on_packet(p)
        nt, nf, pid, addr, endp, frame, is_in, is_out, is_setup, is_ping = (b.get(s) for s in outs)
        if nt:
            res.event("new_token_strobes")
            strobe("token", (pid, addr, endp))
        if nf:
            res.event("new_frame_strobes")
            strobe("sof", (frame,))
        # expectations that ran out of time
        while exp and b.cycle > exp[0]["end"] + WINDOW:
            e = exp.pop(0)
            if e["kind"] != "none" and not e["matched"]:
                if e["kind"] == "token":
                    res.violation("token_not_reported", "no new_token within %d cycles: %s" % (WINDOW, describe(e)))
                else:
                    res.violation("sof_not_reported", "no new_frame within %d cycles: %s" % (WINDOW, describe(e)))
        # frame register: the number of the last well-formed SOF (superseded values tolerated inside their window)
        if st["frame_known"]:
            hist = st["frame_hist"] = [h for h in st["frame_hist"] if b.cycle <= h[0]]
            if frame != st["ref_frame"] and not any(h[1] is None or h[1] == frame for h in hist):
                res.violation("frame_value_wrong_outside_sof_window",
                              "cyc=%d frame=%d expected=%d last=%s" % (b.cycle, frame, st["ref_frame"], describe(st["last"])))
        # convenience flags follow pid
        res.event("is_flags_compared")
        if (is_in, is_out, is_setup, is_ping) != (int(pid == IN), int(pid == OUT), int(pid == SETUP), int(pid == PING)):
            res.violation("is_flags_inconsistent", "cyc=%d pid=%#x is_in/out/setup/ping=%s" % (b.cycle, pid, (is_in, is_out, is_setup, is_ping)))

    # --------------------------------------------------------------------------- stimulus
    def foreign_address(addr):
        if rng.random() < 0.7:
            res_addr = addr ^ (1 << rng.randrange(7))
            return res_addr, "foreign_one_bit"
        a = rng.randrange(128)
        while a == addr:
            a = rng.randrange(128)
        return a, None

    def make_packet():
        """Returns (bytes, label).  label = class[+extra bin]..."""
        addr = st["addr"]
        r = rng.random()
        tpid = rng.choice([IN, OUT, SETUP, PING])
        endp = rng.choice([0, 0, 1, 15, rng.randrange(16), rng.randrange(16)])
        good = token_bytes(tpid, addr, endp)
        if rng.random() < 0.10:
            # concatenation inside ONE packet: [complete CRC-valid token (ours or foreign) | handshake/data PID byte]
            # + 0..2 filler bytes + [3 bytes that are a well-formed token for us or a well-formed SOF].
            # A detector that re-arms on later bytes of the same packet reports the tail; the filler length at which
            # its re-parse lines up depends on whether the bytes come gapless or with rx_valid gaps: generate all.
            if rng.random() < 0.7:
                a1 = addr if rng.random() < 0.5 else foreign_address(addr)[0]
                head, kind = token_bytes(rng.choice([IN, OUT, SETUP, PING, SOF]), a1, rng.randrange(16)), "token"
            else:
                head, kind = bytes([pid_byte(rng.choice([0x2, 0xA, 0xE, 0x6, 0x3, 0xB, 0x7, 0xF]))]), "nontoken"
            nfill = rng.randrange(3)
            fill = bytes(rng.choice([rng.randrange(256), pid_byte(rng.randrange(16)), 0x00, 0xFF]) for _ in range(nfill))
            if rng.random() < 0.7:
                tail = token_bytes(rng.choice([IN, OUT, SETUP, PING]), addr, rng.randrange(16))
            else:
                fr = rng.randrange(2048)
                tail = token_bytes(SOF, fr & 0x7F, fr >> 7)
            style = rng.choice(["gapless", "gapped"])
            st["force_profile"] = "none" if style == "gapless" else rng.choice(["fixed1", "fixed", "random"])
            return head + fill + tail, "concat+concat_%s_f%d_%s" % (kind, nfill, style)
        if r < 0.24:
            if st["prev_pkt"] is not None and decode(st["prev_pkt"], addr)[0] == "token" and rng.random() < 0.25:
                return st["prev_pkt"], "good_token_repeat"
            return good, "good_token"
        if r < 0.36:
            w = rng.random()
            if w < 0.35:
                frame = addr | (rng.randrange(16) << 7)            # would pass an address filter
            elif w < 0.6 and st["ref_frame"] is not None:
                frame = (st["ref_frame"] + rng.choice([0, 1, 1])) % 2048
            else:
                frame = rng.randrange(2048)
            return token_bytes(SOF, frame & 0x7F, frame >> 7), "good_sof"
        if r < 0.47:
            fa, extra = foreign_address(addr)
            pid = rng.choice([IN, OUT, SETUP, PING])
            return token_bytes(pid, fa, endp), "foreign" + ("+" + extra if extra else "")
        if r < 0.59:
            pid = rng.choice([IN, OUT, SETUP, PING, SOF])
            pkt = bytearray(token_bytes(pid, addr, endp))
            w = rng.random()
            if w < 0.6:
                bit = rng.randrange(16)
                pkt[1 + bit // 8] ^= 1 << (bit % 8)
                return bytes(pkt), "crc5+crc5_single_bit"
            if w < 0.8:
                # the token a foreign device would get, but with the CRC of ours / CRC of a neighbouring payload
                other = token_bytes(pid, addr ^ (1 << rng.randrange(7)), endp)
                pkt[2] = (pkt[2] & 0x07) | (other[2] & 0xF8)
                if decode(pkt, addr)[0] != "none":
                    pkt[2] ^= 0x08
                return bytes(pkt), "crc5"
            pkt[2] = (pkt[2] & 0x07) | (rng.randrange(32) << 3)
            return bytes(pkt), "crc5_random"       # may by chance be correct: the decoder decides
        if r < 0.67:
            pid = rng.choice([IN, OUT, SETUP, PING, SOF])
            pkt = bytearray(token_bytes(pid, addr, endp))
            w = rng.random()
            if w < 0.6:
                pkt[0] ^= 1 << rng.randrange(8)                      # one bit of PID or check nibble
            elif w < 0.8:
                pkt[0] = (pid << 4) | pid                            # check nibble = PID (not inverted)
            else:
                pkt[0] = (pkt[0] & 0x0F) | (rng.randrange(16) << 4)
            return bytes(pkt), "badpid"
        if r < 0.75:
            n = rng.choice([0, 1, 1, 2, 2, 2])
            pid = rng.choice([IN, OUT, SETUP, PING, SOF])
            return token_bytes(pid, addr, endp)[:n], "truncated"
        if r < 0.85:
            pid = rng.choice([IN, OUT, SETUP, PING, SOF])
            first = token_bytes(pid, addr, endp)
            w = rng.random()
            if w < 0.3:
                second = token_bytes(rng.choice([IN, OUT, SETUP, PING]), addr, rng.randrange(16))
                return first + second, "overlong+overlong_two_tokens"
            if w < 0.55:
                # a damaged token (CRC / foreign) whose tail is a well-formed token for us, all inside one packet
                bad = bytearray(first)
                if rng.random() < 0.5:
                    bad[2] ^= 1 << rng.randrange(3, 8)
                else:
                    bad = bytearray(token_bytes(pid, foreign_address(addr)[0], endp))
                second = token_bytes(rng.choice([IN, OUT, SETUP, PING, SOF]), addr, rng.randrange(16))
                return bytes(bad) + second, "overlong+bad_then_good_in_one_packet"
            extra = bytes(rng.randrange(256) for _ in range(rng.randint(1, 3)))
            return first + extra, "overlong"
        if r < 0.92:
            pid = rng.choice(NONTOKEN_PIDS)
            pkt = bytearray(good)
            pkt[0] = pid_byte(pid)
            return bytes(pkt), "nontoken3+nontoken_pid_3bytes"
        if r < 0.96:
            from rv.ref.usb2 import data as mkdata
            payload = good if rng.random() < 0.5 else bytes(rng.randrange(256) for _ in range(rng.randint(0, 9)))
            return mkdata(rng.choice([0x3, 0xB]), payload), "data+data_packet"
        return bytes([pid_byte(rng.choice([0x2, 0xA, 0xE, 0x6]))]), "handshake+handshake"

    def set_address(new):
        # only while the bus is idle and every expectation has been settled
        yield from wire.idle(WINDOW + 2)
        if spy is not None:
            b.set(spy.interface.new_address, new)
            b.set(spy.interface.address_changed, 1)
            yield
            b.set(spy.interface.address_changed, 0)
            b.set(spy.interface.new_address, rng.randrange(128))     # stale value must not be picked up later
        else:
            b.set(dut.address, new)
            yield
        st["addr"] = new
        if new:
            res.bin("address_nonzero")
        res.bin("address_changed")
        res.sig("addr", new)
        yield from wire.idle(2)

    def driver():
        if dev is not None:
            b.set(utmi.line_state, 0b01)
            b.set(dev.connect, 1)
        elif mode == "standalone_60":
            b.set(dut.speed, rng.choice([0, 1, 2]))
        else:
            b.set(dut.speed, 1)
        yield from wire.idle(rng.randint(2, 6))
        n = rng.randint(50, 130)
        changes = set(rng.sample(range(n), rng.randint(2, 6)))
        if rng.random() < 0.8:
            changes.add(0)
        for i in range(n):
            if i in changes:
                w = rng.random()
                new = rng.randrange(128) if w < 0.6 else rng.choice([0, 127, 64, 1, st["addr"] ^ (1 << rng.randrange(7))])
                yield from set_address(new)
            pkt, label = make_packet()
            forced = st.pop("force_profile", None)
            profile, lead, gaps, trail = wire.timing(len(pkt), "fixed" if forced == "fixed1" else forced)
            if forced == "fixed1":
                gaps = [1] * len(pkt)
            elif forced == "random" and not any(gaps):
                gaps[rng.randrange(1, len(gaps))] = 1
            res.bin("gap_" + profile)
            if trail:
                res.bin("trail_nonzero")
            if lead > 1:
                res.bin("lead_gt1")
            res.sig(pkt, lead, gaps, trail)
            if len(res.desc["packets"]) < 10:
                res.desc["packets"].append([label, pkt.hex(), st["addr"], lead, gaps, trail])
            yield from wire.send(pkt, lead=lead, gaps=gaps, trail=trail, label=label)
            idle = rng.choice([0, 0, 0, 1, 2, rng.randint(3, 11)])       # + the 1 idle cycle send() already spent
            res.sig(idle)
            yield from wire.idle(idle)
        yield from wire.idle(WINDOW + 4)

    b.add_monitor(monitor)
    b.add_driver(driver())
    b.run()
    res.cycles = b.cycle
    if b.hit_max_cycles:
        res.violation("harness_max_cycles", "case did not finish in %d cycles" % b.max_cycles)
    if wire.illegal:
        res.violation("harness_illegal_stimulus", "rx_valid without rx_active in %d cycles" % wire.illegal)
    res.nontrivial = bool(res.events.get("expect_token") and res.events.get("expect_frame") and len(reasons_seen) >= 3)
