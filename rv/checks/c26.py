"""C26 — stream arbiters forward whole bursts without loss.

DUTs (real luna classes, 1..4 inputs each):
  * `StreamArbiter()` over `StreamInterface` (8-bit payload, first/last), domain "sync" or "usb";
  * `SuperSpeedStreamArbiter()` (`USBRawSuperSpeedStream`: 32-bit data + 4-bit ctrl, domain "ss");
  * `HeaderQueueArbiter()` (`HeaderQueue`: valid/ready + 10 header fields, domain "ss");
  * `StreamArbiter(stream_type=SuperSpeedStreamInterface)` — a documented `StreamInterface` subclass whose
    `valid` is a 4-bit per-byte mask (an input "offers data" / "holds valid" while the mask is non-zero).

Workload (directed random, one central driver): every input runs bursts (valid held continuously, a word is
replaced by the next one only in the cycle after it was transferred) separated by gaps of >= 1 cycle; payloads
are tagged (input index in the 2 low bits of the tag field, a per-input word counter above it, random rest;
all other fields random).  Gap/length profiles create heavy contention; "rendezvous" phases drain everything,
leave the arbiter parked for a few idle cycles and raise a chosen subset of inputs in the same cycle;
one-cycle gaps on the selected input while others wait; higher-priority arrivals in the middle of a
lower-priority burst; output `ready` profiles (always / random / bursty / every k / low exactly when a burst
ends).  A few cases withdraw a stalled word (valid dropped without transfer; that word was never accepted).

Monitor (every cycle, same-cycle sampled values of all inputs, the source and `idle`) and oracle (written from
the statement, no luna code):
  * `idle` == no input valid;
  * if the source is valid, the tag names the selected input i: all source fields (valid, first, last, payload,
    extra / header fields) equal input i's, `ready` of i equals the source's `ready`, every other `ready` is 0;
    if the source is not valid no valid input may see `ready`, at most one input sees `ready` and only when the
    source is ready;
  * no switch while valid is held: if i was selected (forwarded) in the previous cycle and i is still valid, the
    source must still forward i;
  * priority: when a newly forwarded input j differs from every input the arbiter may legitimately be parked on,
    j must be the lowest-numbered input that was valid in the previous cycle or in this cycle (decision may be
    registered or combinational);
  * exactly once / no interleaving (independent of the per-cycle rules): words accepted at an input are queued,
    each source transfer must pop the oldest queued word of the input its tag names and be field-identical;
    a burst (driver-defined: maximal run of held valid) may not be resumed after another burst was forwarded;
    all queues empty at the end;
  * bounded progress: some input valid but source not valid for more than 4 consecutive cycles is a violation;
    the final drain (source always ready) must empty all inputs.

Multiplexers (about a quarter of the cases, added after the coverage audit; the title names them):
  * `StreamMultiplexer` (default / explicit stream_type; 8-bit, raw SuperSpeed, 4-bit-valid streams; 1..4 inputs) under
    its documented assumption of one talker at a time (hand-over between inputs may be back to back): the output equals
    the talker's valid and fields, `ready` goes to the talker and to no other input, the output is not valid without a
    talker, accepted == forwarded in order.  Cycles with two talkers are not generated (counted unjudged if seen).
  * `HeaderQueueDemultiplexer` (1..4 consumers, header types owned by consumers, some owned by nobody): every consumer
    sees the sink's valid and header every cycle, sink.ready == OR of the consumers' ready, a header accepted by the
    sink was taken by a consumer in that cycle and vice versa (no loss / duplicate), counts agree at the end.

Deviation from DESIGN section 7: besides `StreamArbiter` and `HeaderQueueArbiter` the in-tree `SuperSpeedStreamArbiter`
and the 4-bit-valid stream type are run; the latter exposed a genuine defect (findings/C26.md, since fixed in /repo; mechanisms with the
suffix `_partial_valid_mask`, given only when the selected input's mask was partial at the switch).  "Next selection =
lowest index waiting" is judged with a one-cycle decision window and a set of legitimate parking positions instead
of the exact registered timing of the current implementation.

Not judged: fairness / starvation of low-priority inputs (a priority arbiter may starve them); which input an
idle arbiter is parked on; `StreamMultiplexer` (assumes a single talker; not part of the statement);
inputs that change payload while stalled (illegal for a stream; not generated).
"""
from rv.sim import Bench

PROPERTY = "C26"
CASES = {"quick": 400, "thorough": 6000}
RULE = ("76 % of the cases: case = (arbiter kind in {StreamArbiter/StreamInterface, SuperSpeedStreamArbiter, HeaderQueueArbiter, StreamArbiter over "
        "4-bit-valid SuperSpeedStreamInterface}, 1..4 inputs, per-input gap/burst-length profile, source ready profile, "
        "rendezvous phases, optional withdrawals), 500-2000 cycles; non-trivial = >=1 contended decision (>=2 inputs waiting when "
        "the selected one goes idle) and >=1 stalled word and >=1 higher-priority arrival during a lower-priority burst; "
        "distinct = hash of configuration + every word and ready value driven; 14 % StreamMultiplexer cases (150-500 words, one talker "
        "at a time, back-to-back hand-over), 10 % HeaderQueueDemultiplexer cases (60-200 headers, typed consumers)")
REQUIRED_BINS = ["inputs_1", "inputs_2", "inputs_3", "inputs_4", "kind_stream8", "kind_ss_raw", "kind_header_queue", "kind_mask_valid",
                 "contended_decision", "simultaneous_arrival_parked", "higher_priority_arrives_mid_burst", "burst_end_while_source_stalled",
                 "one_cycle_gap_with_waiters", "parked_input_reused", "switch_to_lower_priority", "switch_to_higher_priority",
                 "stall_on_last_word", "stall_on_first_word", "idle_seen", "withdrawn_word", "burst_len_1", "burst_len_ge_8",
                 "lowest_priority_served", "partial_valid_mask",
                 "kind_mux", "mux_inputs_ge_3", "mux_back_to_back_handover_lower",
                 "mux_back_to_back_handover_higher", "mux_stall_on_last_word",
                 "kind_demux", "demux_consumers_ge_2", "demux_accept_in_first_cycle", "demux_last_consumer_accepts",
                 "demux_unclaimed_header_withdrawn", "demux_back_to_back", "demux_ready_without_valid"]
REQUIRED_EVENTS = ["cycles_monitored", "words_accepted", "words_forwarded", "bursts_forwarded", "selections_judged", "idle_cycles",
                   "hold_checks", "ready_checks", "mux_cycles_monitored", "mux_words_forwarded", "demux_cycles_monitored",
                   "demux_headers_accepted"]
ASSUMPTIONS = ["inputs obey the stream contract (valid and payload held until ready) except for explicit, counted withdrawals of a stalled word",
               "decision cycle of the priority choice may be registered (valid set of the previous cycle) or combinational (this cycle)",
               "an arbiter with no input waiting may stay parked on the input it served last; after a cycle without forwarding in which inputs waited it must be on the best waiter of that cycle (or of the following cycle, combinational decision)",
               "for the 4-bit-valid stream type 'valid' means mask != 0",
               "StreamMultiplexer is judged only while at most one input is valid (its documented assumption)",
               "HeaderQueueDemultiplexer consumers assert ready only for the header type they own (documented assumption: never two at once)"]

KINDS = ["stream8", "stream8", "ss_raw", "header_queue", "mask_valid"]


class Port:
    """Flat view of one stream record: valid, ready, data fields [(name, signal)], tag field."""

    def __init__(self, rec, kind):
        self.valid, self.ready = rec.valid, rec.ready
        if kind == "header_queue":
            h = rec.header
            self.fields = [(n, h[n]) for n in h.fields]
            self.tag = h.dw0
        else:
            self.fields = [(n, rec[n]) for n in rec.fields if n not in ("valid", "ready")]
            self.tag = rec.payload
        self.sigs = [s for _, s in self.fields]
        self.tag_pos = [i for i, (n, s) in enumerate(self.fields) if s is self.tag][0]
        self.vmask = (1 << len(self.valid)) - 1


def _build(kind, n, domain):
    from amaranth import Elaboratable, Module
    if kind == "header_queue":
        from luna.gateware.usb.usb3.link.header import HeaderQueueArbiter, HeaderQueue
        arb = HeaderQueueArbiter()
        ins = [HeaderQueue() for _ in range(n)]
        for s in ins:
            arb.add_producer(s)
    elif kind == "ss_raw":
        from luna.gateware.usb.stream import SuperSpeedStreamArbiter, USBRawSuperSpeedStream
        arb = SuperSpeedStreamArbiter()
        ins = [USBRawSuperSpeedStream() for _ in range(n)]
        for s in ins:
            arb.add_stream(s)
    elif kind == "mask_valid":
        from luna.gateware.stream.arbiter import StreamArbiter
        from luna.gateware.usb.stream import SuperSpeedStreamInterface
        arb = StreamArbiter(stream_type=SuperSpeedStreamInterface, domain=domain)
        ins = [SuperSpeedStreamInterface() for _ in range(n)]
        for s in ins:
            arb.add_stream(s)
    else:
        from luna.gateware.stream.arbiter import StreamArbiter
        from luna.gateware.stream import StreamInterface
        arb = StreamArbiter(domain=domain)
        ins = [StreamInterface() for _ in range(n)]
        for s in ins:
            arb.add_stream(s)

    class Wrap(Elaboratable):
        def elaborate(self, platform):
            m = Module()
            m.submodules.arbiter = arb
            return m

    return Wrap(), arb, ins


def _wrap_comb(sub):
    """Wrapper for a purely combinational DUT: adds a dummy register so that the bench's clock domain exists."""
    from amaranth import Elaboratable, Module, Signal

    class Wrap(Elaboratable):
        def elaborate(self, platform):
            m = Module()
            m.submodules.dut = sub
            tick = Signal()
            m.d.sync += tick.eq(~tick)
            return m

    return Wrap()


def run_mux(rng, tier, res):
    """StreamMultiplexer under its documented assumption (one talker at a time, hand-over may be back to back)."""
    from luna.gateware.stream.arbiter import StreamMultiplexer
    from luna.gateware.stream import StreamInterface
    from luna.gateware.usb.stream import USBRawSuperSpeedStream, SuperSpeedStreamInterface
    kind = rng.choice(["stream8", "stream8", "ss_raw", "mask_valid"])
    cls = {"stream8": StreamInterface, "ss_raw": USBRawSuperSpeedStream, "mask_valid": SuperSpeedStreamInterface}[kind]
    n = rng.choice([1, 2, 2, 3, 3, 4, 4])
    mux = StreamMultiplexer() if (kind == "stream8" and rng.random() < 0.5) else StreamMultiplexer(stream_type=cls)
    ins = [cls() for _ in range(n)]
    for i in ins:
        mux.add_input(i)
    b = Bench(_wrap_comb(mux), domain="sync", freq=60e6, max_cycles=8000)
    src = Port(mux.output, kind)
    ports = [Port(i, kind) for i in ins]
    for p in ports + [src]:
        b.watch(p.valid, p.ready, *p.sigs)
    widths = [len(x) for x in src.sigs]
    vmask = src.vmask
    nwords_total = rng.randint(150, 500)
    rp = rng.choice(["always", "hi", "lo", "laststall"])
    res.desc = {"dut": "StreamMultiplexer", "kind": kind, "inputs": n, "ready": rp, "first_bursts": []}
    res.sig("mux", kind, n, rp)
    res.bin("kind_mux")
    res.bin("mux_inputs_%d" % n if n < 3 else "mux_inputs_ge_3")
    queue = []
    st = {"k": None, "left": 0, "word": None, "seq": 0, "done": 0, "prev_k": None, "blen": 0}

    def word(k):
        st["seq"] += 1
        vals = []
        for i, w in enumerate(widths):
            if i == src.tag_pos:
                v = k | ((st["seq"] & 0x3f) << 2)
                if w > 8:
                    v |= rng.getrandbits(w - 8) << 8
            else:
                v = rng.getrandbits(w)
            vals.append(v)
        vm = vmask if (vmask == 1 or rng.random() < 0.7) else rng.randint(1, vmask)
        res.sig(k, vals, vm)
        return tuple(vals), vm

    def drive(k, wd):
        p = ports[k]
        if wd is None:
            b.set(p.valid, 0)
        else:
            b.set(p.valid, wd[1])
            for sig, v in zip(p.sigs, wd[0]):
                b.set(sig, v)

    def driver():
        b.set(src.ready, 1)
        yield
        gap = rng.randint(0, 3)
        while True:
            k = st["k"]
            if k is not None:
                if b.get(ports[k].valid) and b.get(ports[k].ready):
                    st["left"] -= 1
                    st["done"] += 1
                    if st["left"] > 0:
                        st["word"] = word(k)
                        drive(k, st["word"])
                    else:
                        drive(k, None)
                        st["prev_k"], st["k"], st["word"] = k, None, None
                        gap = rng.choice([0, 0, 0, 1, 2, rng.randint(0, 8)])
                        k = None
            if k is None:
                if st["done"] >= nwords_total:
                    yield
                    yield
                    return
                if gap <= 0:
                    nk = rng.randrange(n)
                    st["k"], st["blen"] = nk, rng.choice([1, 1, 2, 3, rng.randint(1, 12)])
                    st["left"] = st["blen"]
                    st["word"] = word(nk)
                    drive(nk, st["word"])
                    if st["prev_k"] is not None and nk != st["prev_k"] and gap == 0:
                        res.bin("mux_back_to_back_handover_lower" if nk > st["prev_k"] else "mux_back_to_back_handover_higher")
                    if len(res.desc["first_bursts"]) < 10:
                        res.desc["first_bursts"].append([b.cycle + 1, nk, st["blen"]])
                gap -= 1
            if rp == "always":
                r = 1
            elif rp == "hi":
                r = int(rng.random() < 0.8)
            elif rp == "lo":
                r = int(rng.random() < 0.3)
            else:
                r = 0 if (st["k"] is not None and st["left"] == 1 and rng.random() < 0.6) else int(rng.random() < 0.85)
            b.set(src.ready, r)
            res.sig(r)
            yield

    def monitor(b):
        res.event("mux_cycles_monitored")
        V = [b.get(p.valid) for p in ports]
        R = [b.get(p.ready) for p in ports]
        sv, sr = b.get(src.valid), b.get(src.ready)
        sf = tuple(b.get(x) for x in src.sigs)
        ctx = "StreamMultiplexer kind=%s n=%d cyc=%d valid=%s ready=%s out.valid=%d out.ready=%d" % (kind, n, b.cycle, V, R, sv, sr)
        talk = [k for k in range(n) if V[k]]
        if len(talk) > 1:
            res.unjudged += 1
            return
        if not talk:
            if sv:
                res.violation("mux_output_valid_without_talker", ctx)
            return
        k = talk[0]
        F = tuple(b.get(x) for x in ports[k].sigs)
        if sv != V[k] or sf != F:
            bad = [nm for (nm, _), x, y in zip(src.fields, sf, F) if x != y] + (["valid"] if sv != V[k] else [])
            res.violation("mux_forward_mismatch", "%s talker=%d differing fields %s" % (ctx, k, bad))
        if R[k] != sr:
            res.violation("mux_ready_not_passed_to_talker", "%s talker=%d" % (ctx, k))
        for j in range(n):
            if j != k and R[j]:
                res.violation("mux_ready_to_other_input", "%s talker=%d other=%d" % (ctx, k, j))
        if not sr and st["left"] == 1:
            res.bin("mux_stall_on_last_word")
        if V[k] and R[k]:
            queue.append((F, V[k]))
        if sv and sr:
            res.event("mux_words_forwarded")
            if not queue:
                res.violation("mux_word_forwarded_but_not_accepted", ctx)
            else:
                f, vm = queue.pop(0)
                if f != sf or vm != sv:
                    res.violation("mux_forwarded_word_differs_from_accepted", ctx)
        if len(queue) > 2:
            res.violation("mux_accepted_word_not_delivered", ctx)
            del queue[:]

    b.add_driver(driver())
    b.add_monitor(monitor)
    b.run()
    if b.hit_max_cycles:
        res.violation("mux_talker_never_served", "StreamMultiplexer kind=%s n=%d: %d of %d words after %d cycles" % (kind, n, st["done"], nwords_total, b.cycle))
    if queue:
        res.violation("mux_accepted_word_not_delivered", "StreamMultiplexer kind=%s n=%d: %d accepted words never forwarded" % (kind, n, len(queue)))
    res.cycles = b.cycle
    res.nontrivial = n >= 2


def run_demux(rng, tier, res):
    """HeaderQueueDemultiplexer: every consumer sees the sink's valid/header; a header accepted by the sink was taken by a consumer."""
    from luna.gateware.usb.usb3.link.header import HeaderQueueDemultiplexer, HeaderQueue
    n = rng.choice([1, 2, 2, 3, 3, 4])
    dmx = HeaderQueueDemultiplexer()
    cons = [HeaderQueue() for _ in range(n)]
    for c_ in cons:
        dmx.add_consumer(c_)
    b = Bench(_wrap_comb(dmx), domain="sync", freq=60e6, max_cycles=8000)
    snk = Port(dmx.sink, "header_queue")
    ports = [Port(c_, "header_queue") for c_ in cons]
    for p in ports + [snk]:
        b.watch(p.valid, p.ready, *p.sigs)
    widths = [len(x) for x in snk.sigs]
    nhdr = rng.randint(60, 200)
    # header type (dw0[0:5]) -> consumer; some types are claimed by nobody
    owner = {t: rng.randrange(n) for t in rng.sample(range(32), rng.randint(n, 12))}
    unclaimed = [t for t in range(32) if t not in owner]
    res.desc = {"dut": "HeaderQueueDemultiplexer", "consumers": n, "headers": nhdr, "types": sorted(owner.items())[:8]}
    res.sig("demux", n, sorted(owner.items()))
    res.bin("kind_demux")
    res.bin("demux_consumers_1" if n == 1 else "demux_consumers_ge_2")
    st = {"sent": 0, "accepted": 0, "delivered": 0}

    def driver():
        yield
        prev_gap = None
        for h in range(nhdr):
            claimed = rng.random() < 0.9
            t = rng.choice(sorted(owner)) if claimed else rng.choice(unclaimed)
            vals = [rng.getrandbits(w) for w in widths]
            vals[snk.tag_pos] = (vals[snk.tag_pos] & ~0x1f) | t
            res.sig(h, vals)
            b.set(snk.valid, 1)
            for sig, v in zip(snk.sigs, vals):
                b.set(sig, v)
            st["sent"] += 1
            delay = rng.choice([0, 0, 1, 2, rng.randint(0, 7)])
            if claimed:
                j = owner[t]
                for _ in range(delay):
                    yield
                b.set(ports[j].ready, 1)          # the consumer takes the header in the coming cycle
                yield
                b.set(ports[j].ready, 0)
                if delay == 0:
                    res.bin("demux_accept_in_first_cycle")
                if j == n - 1 and n > 1:
                    res.bin("demux_last_consumer_accepts")
            else:
                res.bin("demux_unclaimed_header_withdrawn")
                for _ in range(delay + 1):
                    yield
            gap = rng.choice([0, 0, 0, 1, 2, rng.randint(0, 5)])
            if gap == 0:
                res.bin("demux_back_to_back")
            else:
                b.set(snk.valid, 0)
                if rng.random() < 0.3:
                    # a consumer that signals ready while nothing is offered must not create a transfer
                    jj = rng.randrange(n)
                    b.set(ports[jj].ready, 1)
                    yield
                    b.set(ports[jj].ready, 0)
                    res.bin("demux_ready_without_valid")
                    gap -= 1
                for _ in range(gap):
                    yield
        b.set(snk.valid, 0)
        yield
        yield

    def monitor(b):
        res.event("demux_cycles_monitored")
        sv, sr = b.get(snk.valid), b.get(snk.ready)
        sf = tuple(b.get(x) for x in snk.sigs)
        R = [b.get(p.ready) for p in ports]
        ctx = "HeaderQueueDemultiplexer n=%d cyc=%d sink.valid=%d sink.ready=%d consumer.ready=%s" % (n, b.cycle, sv, sr, R)
        if sr != int(any(R)):
            res.violation("demux_sink_ready_lost" if any(R) else "demux_sink_ready_without_consumer", ctx)
        for j, p in enumerate(ports):
            if b.get(p.valid) != sv:
                res.violation("demux_consumer_valid_mismatch", "%s consumer=%d" % (ctx, j))
            elif sv:
                f = tuple(b.get(x) for x in p.sigs)
                if f != sf:
                    bad = [nm for (nm, _), x, y in zip(snk.fields, f, sf) if x != y]
                    res.violation("demux_consumer_header_mismatch", "%s consumer=%d fields %s" % (ctx, j, bad))
        if sv and sr:
            st["accepted"] += 1
            res.event("demux_headers_accepted")
        takers = [j for j in range(n) if R[j] and b.get(ports[j].valid)]
        if takers:
            st["delivered"] += 1
            if len(takers) > 1:
                res.unjudged += 1
        if sv and sr and not takers:
            res.violation("demux_header_accepted_but_not_delivered", ctx)
        if takers and not (sv and sr):
            res.violation("demux_header_delivered_but_not_accepted", "%s takers=%s (producer keeps the header: duplicate)" % (ctx, takers))

    b.add_driver(driver())
    b.add_monitor(monitor)
    b.run()
    if st["accepted"] != st["delivered"]:
        res.violation("demux_accept_deliver_count_differs", "n=%d accepted=%d delivered=%d" % (n, st["accepted"], st["delivered"]))
    res.cycles = b.cycle
    res.nontrivial = n >= 2


def run_case(rng, tier, res):
    r = rng.random()
    if r < 0.14:
        return run_mux(rng, tier, res)
    if r < 0.24:
        return run_demux(rng, tier, res)
    kind = rng.choice(KINDS)
    n = rng.choice([1, 2, 2, 3, 3, 3, 4, 4, 4])
    domain = "ss" if kind in ("header_queue", "ss_raw") else rng.choice(["sync", "usb"])
    dut, arb, ins = _build(kind, n, domain)
    b = Bench(dut, domain=domain, freq=60e6, max_cycles=12000)
    src = Port(arb.source, kind)
    ports = [Port(s, kind) for s in ins]
    for p in ports + [src]:
        b.watch(p.valid, p.ready, *p.sigs)
    b.watch(arb.idle)
    ncyc = rng.randint(500, 2000)
    vmask = src.vmask
    multi = vmask > 1
    tagw = len(src.tag)
    seqbits = min(tagw - 2, 12)
    widths = [len(sig) for sig in src.sigs]
    tagpos = src.tag_pos

    # ------------------------------------------------------------------ profiles
    gap_profile = [rng.choice(["tight", "tight", "short", "mixed", "long"]) for _ in range(n)]
    len_profile = [rng.choice(["single", "short", "mixed", "long"]) for _ in range(n)]
    ready_profile = rng.choice(["always", "random_hi", "random_lo", "bursty", "every", "end_stall", "mixed"])
    withdraw = rng.random() < 0.2
    res.desc = {"kind": kind, "inputs": n, "domain": domain, "cycles": ncyc, "gap": gap_profile, "len": len_profile,
                "ready": ready_profile, "withdraw": withdraw, "first_bursts": []}
    res.sig(kind, n, domain, ncyc, gap_profile, len_profile, ready_profile, withdraw)
    res.bin("inputs_%d" % n)
    res.bin("kind_" + kind)

    def draw_gap(k):
        p = gap_profile[k]
        if p == "tight":
            return rng.choice([1, 1, 1, 2])
        if p == "short":
            return rng.randint(1, 5)
        if p == "long":
            return rng.randint(4, 40)
        return rng.choice([1, 1, 2, 3, rng.randint(1, 12), rng.randint(10, 40)])

    def draw_len(k):
        p = len_profile[k]
        if p == "single":
            return rng.choice([1, 1, 1, 2])
        if p == "short":
            return rng.randint(1, 4)
        if p == "long":
            return rng.randint(6, 16)
        return rng.choice([1, 2, 3, rng.randint(1, 8), rng.randint(8, 16)])

    # ------------------------------------------------------------------ shared state driver <-> monitor
    NIN = n
    st = [dict(gap=(rng.randint(0, 6) if rng.random() < 0.7 else 0), left=0, burst=0, seq=0, word=None, valid=0, blen=0, pos=0,
               held=False) for _ in range(NIN)]
    queues = [[] for _ in range(NIN)]          # accepted, not yet forwarded: (fields tuple, valid mask, burst id)
    mon = {"prev_sel": None, "prev_sv": 0, "last_sel": None, "parked_ok": set(range(NIN)), "prevV": [0] * NIN, "wait": 0,
           "last_burst": None, "closed": set(), "prev_sr": 1, "mode": "run", "rdv_wait": 0, "prev_prevV": [0] * NIN}
    rdy = {"run": 0, "val": 1}
    partial_bursts = set()                     # (input, burst) that presented a partial valid mask (4-bit-valid stream type only)

    def new_word(k, s):
        s["seq"] += 1
        vals = []
        for i, (name, sig) in enumerate(ports[k].fields):
            w = widths[i]
            if i == tagpos:
                v = k | ((s["seq"] & ((1 << seqbits) - 1)) << 2)
                if w > 2 + seqbits:
                    v |= rng.getrandbits(w - 2 - seqbits) << (2 + seqbits)
            elif name == "first":
                v = 1 if s["pos"] == 0 else int(rng.random() < 0.1)
            elif name == "last":
                v = 1 if s["pos"] == s["blen"] - 1 else int(rng.random() < 0.1)
            else:
                v = rng.getrandbits(w)
            vals.append(v)
        if multi:
            if s["pos"] == s["blen"] - 1 and rng.random() < 0.6:
                vm = rng.choice([1, 3, 7])
            elif rng.random() < 0.08:
                vm = rng.choice([1, 3, 7, 8, 12, 6, rng.randint(1, vmask)])
            else:
                vm = vmask
        else:
            vm = 1
        res.sig(k, vals, vm)
        return tuple(vals), vm

    shadow = {}

    def put(sig, v):
        if shadow.get(id(sig)) != v:
            shadow[id(sig)] = v
            b.set(sig, v)

    def apply(k, s):
        p = ports[k]
        if s["word"] is None:
            put(p.valid, 0)
            # leave stale data on the idle input (it must not matter), sometimes scramble it
            if rng.random() < 0.1:
                for (_, sig), w in zip(p.fields, widths):
                    put(sig, rng.getrandbits(w))
        else:
            vals, vm = s["word"]
            put(p.valid, vm)
            for (_, sig), v in zip(p.fields, vals):
                put(sig, v)

    def start_burst(k, s, length=None):
        s["burst"] += 1
        s["blen"] = length or draw_len(k)
        s["pos"] = 0
        s["left"] = s["blen"]
        s["word"] = new_word(k, s)
        res.bin("burst_len_1" if s["blen"] == 1 else "burst_len_ge_8" if s["blen"] >= 8 else "burst_len_mid")
        if len(res.desc["first_bursts"]) < 12:
            res.desc["first_bursts"].append([b.cycle + 1, k, s["blen"]])

    def next_ready():
        p = ready_profile
        if p == "mixed":
            if rdy["run"] <= 0:
                rdy["sub"] = rng.choice(["always", "random_hi", "random_lo", "bursty", "every", "end_stall"])
                rdy["run"] = rng.randint(20, 200)
            rdy["run"] -= 1
            p = rdy["sub"]
        if p == "always":
            return 1
        if p == "random_hi":
            return int(rng.random() < 0.8)
        if p == "random_lo":
            return int(rng.random() < 0.3)
        if p == "every":
            rdy["cnt"] = rdy.get("cnt", 0) + 1
            return int(rdy["cnt"] % rdy.setdefault("k", rng.randint(2, 5)) == 0)
        if p == "bursty":
            if rdy.get("left", 0) <= 0:
                rdy["val"] ^= 1
                rdy["left"] = rng.randint(1, 8) if rdy["val"] else rng.randint(1, 12)
            rdy["left"] -= 1
            return rdy["val"]
        # end_stall: low exactly in cycles where some selected burst presents its last word (and a bit random)
        for s in st:
            if s["word"] is not None and s["pos"] == s["blen"] - 1 and rng.random() < 0.6:
                return 0
        return int(rng.random() < 0.85)

    def driver():
        # initial values
        for k, s in enumerate(st):
            apply(k, s)
        b.set(src.ready, 1)
        yield
        phase_end = rng.randint(80, 400)
        wd_cool = 0
        while True:
            c = b.cycle
            draining = c >= ncyc
            V = [b.get(p.valid) for p in ports]
            R = [b.get(p.ready) for p in ports]
            # rendezvous control
            if mon["mode"] == "run" and not draining and c >= phase_end:
                mon["mode"] = "rdv_drain"
            for k, s in enumerate(st):
                if s["word"] is not None:
                    if V[k] and R[k]:
                        s["pos"] += 1
                        s["left"] -= 1
                        s["held"] = False
                        if s["left"] > 0:
                            s["word"] = new_word(k, s)
                        else:
                            s["word"] = None
                            s["gap"] = draw_gap(k)
                    else:
                        s["held"] = True
                        if withdraw and wd_cool <= 0 and rng.random() < 0.04 and not draining:
                            # withdraw the stalled word: it was never accepted
                            res.bin("withdrawn_word")
                            s["word"] = None
                            s["gap"] = draw_gap(k)
                            wd_cool = 8
                else:
                    if mon["mode"] == "run" and not draining:
                        s["gap"] -= 1
                        if s["gap"] <= 0:
                            start_burst(k, s)
                apply(k, s)
            wd_cool -= 1
            if mon["mode"] == "rdv_drain" and all(s["word"] is None for s in st):
                mon["mode"] = "rdv_idle"
                mon["rdv_wait"] = rng.choice([1, 2, 3, rng.randint(1, 10)])
            elif mon["mode"] == "rdv_idle":
                mon["rdv_wait"] -= 1
                if mon["rdv_wait"] <= 0:
                    # raise a chosen subset in the same cycle
                    ks = [k for k in range(NIN) if rng.random() < 0.7] or [rng.randrange(NIN)]
                    for k in range(NIN):
                        if k in ks:
                            start_burst(k, st[k], rng.choice([None, 1, 2]))
                            apply(k, st[k])
                        else:
                            st[k]["gap"] = rng.choice([1, 2, draw_gap(k)])
                    mon["mode"] = "run"
                    phase_end = b.cycle + rng.randint(60, 400)
            r = 1 if (draining or (mon["mode"] == "rdv_drain" and rng.random() < 0.7)) else next_ready()
            put(src.ready, r)
            res.sig(r)
            if draining:
                if all(s["word"] is None for s in st):
                    yield
                    yield
                    return
                if c > ncyc + 40 * NIN + 200:
                    res.violation("inputs_not_drained", "kind=%s n=%d cyc=%d still offering: %s" % (
                        kind, NIN, c, [k for k, s in enumerate(st) if s["word"] is not None]))
                    return
            yield

    # ------------------------------------------------------------------ monitor
    def suffix(vm):
        return "_partial_valid_mask" if (multi and vm not in (0, vmask)) else ""

    def monitor(b):
        c = b.cycle
        res.event("cycles_monitored")
        V = [b.get(p.valid) for p in ports]
        R = [b.get(p.ready) for p in ports]
        F = [tuple(b.get(s) for s in p.sigs) for p in ports]
        sv, sr = b.get(src.valid), b.get(src.ready)
        sf = tuple(b.get(s) for s in src.sigs)
        idle = b.get(arb.idle)
        ctx = "kind=%s n=%d cyc=%d valid=%s ready=%s src.valid=%d src.ready=%d" % (kind, NIN, c, V, R, sv, sr)
        offered = [k for k in range(NIN) if V[k]]
        anypart = next((V[k] for k in offered if multi and V[k] != vmask), 0)
        # ---- idle
        if offered:
            if idle:
                res.violation("idle_high_while_offered" + suffix(anypart), ctx)
        else:
            res.event("idle_cycles")
            res.bin("idle_seen")
            if not idle:
                res.violation("idle_low_without_offer", ctx)
        if anypart:
            res.bin("partial_valid_mask")
            for k in offered:
                if V[k] != vmask:
                    partial_bursts.add((k, st[k]["burst"]))
        # ---- selected input by tag
        sel = None
        if sv:
            sel = sf[src.tag_pos] & 3
            if sel >= NIN:
                res.violation("forwarded_word_from_no_input", "%s tag=%#x" % (ctx, sf[src.tag_pos]))
                sel = None
            else:
                if not V[sel]:
                    res.violation("forwarded_from_input_without_valid", "%s selected=%d" % (ctx, sel))
                elif sf != F[sel] or sv != V[sel]:
                    bad = [nm for (nm, _), x, y in zip(src.fields, sf, F[sel]) if x != y] + (["valid"] if sv != V[sel] else [])
                    res.violation("forward_mismatch", "%s selected=%d differing fields %s" % (ctx, sel, bad))
        # ---- ready pass-back
        res.event("ready_checks")
        if sel is not None:
            if R[sel] != sr:
                res.violation("ready_not_passed_to_selected", "%s selected=%d" % (ctx, sel))
            for k in range(NIN):
                if k != sel and R[k]:
                    res.violation("ready_to_unselected_input", "%s selected=%d other=%d" % (ctx, sel, k))
        elif not sv:
            rs = [k for k in range(NIN) if R[k]]
            for k in rs:
                if V[k]:
                    res.violation("word_accepted_but_not_forwarded" + suffix(V[k]), "%s input=%d" % (ctx, k))
            if len(rs) > 1:
                res.violation("ready_to_several_inputs", ctx)
            if rs and not sr:
                res.violation("ready_without_source_ready", ctx)
        # ---- no switch while valid held
        ps = mon["prev_sel"]
        if ps is not None and V[ps]:
            res.event("hold_checks")
            if sel != ps:
                # the mask of the cycle in which the (registered or combinational) decision was taken counts as well
                sfx = suffix(V[ps]) or suffix(mon["prevV"][ps])
                res.violation("switch_while_valid_held" + sfx, "%s previously selected=%d (valid then %#x) now=%s"
                              % (ctx, ps, mon["prevV"][ps], sel))
        # ---- priority of a new selection
        if sel is not None and sel != ps:
            res.event("selections_judged")
            prevV = mon["prevV"]
            cand_prev = [k for k in range(NIN) if prevV[k]]
            best_prev = min(cand_prev) if cand_prev else None
            best_now = min(offered) if offered else None
            if len(cand_prev) >= 2 and not mon["prev_sv"]:
                res.bin("contended_decision")
            if sel == mon["last_sel"] and ps is None:
                res.bin("parked_input_reused")
            if sel in mon["parked_ok"] or sel == best_prev or sel == best_now:
                pass
            else:
                res.violation("priority_violation", "%s selected=%d but valid previous cycle=%s, now=%s, parked candidates=%s"
                              % (ctx, sel, cand_prev, offered, sorted(mon["parked_ok"])))
            if mon["last_sel"] is not None and sel != mon["last_sel"]:
                res.bin("switch_to_lower_priority" if sel > mon["last_sel"] else "switch_to_higher_priority")
            if sel == NIN - 1 and NIN > 1:
                res.bin("lowest_priority_served")
        # parked candidates: the input forwarded now; after a cycle without forwarding in which inputs waited: the best waiter
        if sel is not None:
            mon["parked_ok"] = {sel}
            mon["last_sel"] = sel
        elif not sv and offered:
            # nothing forwarded although inputs wait: the arbiter has to move to the best waiter of this cycle (it may not
            # stay with the input it served last, even if that one comes back in the next cycle)
            mon["parked_ok"] = {min(offered)}
        # ---- bins about the situation
        if sel is not None:
            s = st[sel]
            higher = [k for k in offered if k < sel]
            if higher and any(not mon["prevV"][k] for k in higher) and ps == sel:
                res.bin("higher_priority_arrives_mid_burst")
            if not sr and s["word"] is not None:
                if s["pos"] == s["blen"] - 1:
                    res.bin("stall_on_last_word")
                if s["pos"] == 0:
                    res.bin("stall_on_first_word")
        if ps is not None and not V[ps]:
            # selected input went idle in this cycle
            if not mon["prev_sr"] or not sr:
                res.bin("burst_end_while_source_stalled")
            if len(offered) >= 1 and st[ps]["word"] is None and st[ps]["gap"] == 1 and mon["mode"] == "run":
                res.bin("one_cycle_gap_with_waiters")
        if not mon["prev_sv"] and not any(mon["prevV"]) and len(offered) >= 2 and not any(mon["prev_prevV"]):
            res.bin("simultaneous_arrival_parked")
        # ---- progress
        if offered and not sv:
            mon["wait"] += 1
            if mon["wait"] == 5:
                res.violation("no_selection_while_inputs_wait", ctx)
        else:
            mon["wait"] = 0
        # ---- exactly-once accounting
        for k in range(NIN):
            if V[k] and R[k]:
                res.event("words_accepted")
                queues[k].append((F[k], V[k], st[k]["burst"]))
        if sv and sr:
            res.event("words_forwarded")
            if sel is not None:
                q = queues[sel]
                if not q:
                    res.violation("word_forwarded_but_not_accepted", "%s selected=%d (input keeps the word: duplicate)" % (ctx, sel))
                else:
                    f, vm, burst = q.pop(0)
                    if f != sf or vm != sv:
                        res.violation("forwarded_word_differs_from_accepted", "%s selected=%d" % (ctx, sel))
                    key = (sel, burst)
                    if key != mon["last_burst"]:
                        res.event("bursts_forwarded")
                        if mon["last_burst"] is not None:
                            mon["closed"].add(mon["last_burst"])
                        if key in mon["closed"]:
                            res.violation("burst_interleaved" + ("_partial_valid_mask" if key in partial_bursts else ""), "%s burst %s resumed after another burst was forwarded" % (ctx, key))
                        mon["last_burst"] = key
        for k in range(NIN):
            if len(queues[k]) > 2:
                res.violation("accepted_word_not_delivered", "%s input=%d queued=%d" % (ctx, k, len(queues[k])))
                del queues[k][:]
        mon["prev_prevV"] = mon["prevV"]
        mon["prevV"] = V
        mon["prev_sel"] = sel
        mon["prev_sv"] = sv
        mon["prev_sr"] = sr

    b.add_driver(driver())
    b.add_monitor(monitor)
    b.run()
    if b.hit_max_cycles:
        res.violation("case_did_not_finish", "max_cycles reached kind=%s n=%d" % (kind, NIN))
    for k in range(NIN):
        if queues[k]:
            res.violation("accepted_word_not_delivered", "kind=%s n=%d input=%d has %d accepted words never forwarded" % (kind, NIN, k, len(queues[k])))
    res.cycles = b.cycle
    bins = res.bins
    res.nontrivial = NIN >= 2 and all(bins.get(k) for k in ("contended_decision", "higher_priority_arrives_mid_burst")) and \
        bool(bins.get("stall_on_last_word") or bins.get("stall_on_first_word"))
