"""C38 -- link re-entry always re-advertises sequence number and credits, with fresh receive state.

DUT      the real luna.gateware.usb.usb3.link.receiver.HeaderPacketReceiver (inside a ResetInserter only so that one
         elaboration serves several sessions; every session starts from the power-on state).
Workload one session = 3-5 link "lives": enable -> advertisement -> probe traffic -> state building (accepted but
         unconsumed headers, unsent LGOODs, consumed headers whose LCRD is still due, credit index A..D, a corrupted header
         with LBAD pending / sent and the receiver ignoring, pending LRTY / keepalive / LXU, sequence numbers up to the
         wrap) -> a *crash point* -> link down -> re-enable.  Crash points are placed systematically: k cycles (k swept)
         after the event that provokes a particular link command (header end -> LGOOD, consumption -> LCRD, corrupted
         header -> LBAD, retry_required -> LRTY, keepalive_required -> LUP, reject_power_state -> LXU, enable -> the
         advertisement LGOOD / LCRDs themselves), while the PHY back-pressure (random / bursty / directed stall of the
         framing word or of the command word) stretches the command so that every phase (cycle before valid, framing
         word, command word, last cycle, between two commands of a burst, idle) is hit; plus crash points at random.
         Link-down patterns (as luna's LTSSM / link layer produce them): `enable` falls (Recovery); warm reset (usb_reset
         rises, enable falls 0-2 cycles later, reset held 2-80 cycles); hot reset (enable falls, usb_reset level or
         one-cycle strobe later while down).  The link stays down >= 24 cycles and until `source` has been idle for
         6 cycles (a real Recovery takes microseconds), so nothing of the previous life is on the wire at re-entry.
         A minority of crash points have a header (good or corrupted) finishing within 6 cycles around the link-down
         cycle or while the link is down ("race" lives).
Monitors / oracle (rv/ref/c37_link.py `Engine` + `RxModel`, shared with C37): all commands that *start* after the
         rising edge of `enable` are decoded and judged:
           the first LGOOD / LCRD / LBAD is an LGOOD carrying the last received sequence number (7 after a USB reset
             or power-on; otherwise expected-1 of the reference model), then LCRD A, B, C, D in this order, complete
             within 120 cycles in which source.ready was high; no LBAD without a new corrupted header; LUP / LXU / LRTY are not judged;
           fresh receive state: no header of the previous life is offered on `queue`; the partner then sends headers
             numbered advertised+1, ... which must all be accepted, acknowledged with their numbers, offered bit-exact
             and in order; every later LCRD needs a consumed header and continues the A-B-C-D order; (the complete
             C37 model keeps running during every life).
         For race lives the advertised number may be any value consistent with counting / not counting the racing /
         unacknowledged headers; consistency (what is advertised is what is then expected) is still enforced.
Classification (known findings must be narrow): a life is *tainted "midcmd"* iff at the LAST cycle in which the DUT could
         see the restart condition (falling edge of enable, or usb_reset high) `source.valid` was high in that cycle or
         the next one (= the receiver was busy sending a link command); *tainted "race"* iff a header ended within 6
         cycles before link-down or while down, or an accepted header's LGOOD had not been sent yet at link-down.  A violation in a tainted life is reported under the single mechanism
         of that class (detail carries the symptom); violations in clean lives carry the symptom as mechanism.
Configuration: buffer_count drawn per case from {4 (half), 1, 2, 8}; the advertisement must carry `count` LCRDs (index k mod count).
Additions after the coverage audit: 1-2 cycle `enable` glitches while the receiver is idle (pattern_glitch); requests still
         scheduled are cancelled when the link goes down, and any LRTY / LUP / LXU that overtakes the advertisement LGOOD
         without its request input having been pulsed in this link life is a violation (`stale_command_before_advert_lgood`:
         lrty_pending / keepalive_pending must not survive the restart).  LXU etc. *after* the advertisement stay unjudged
         (the statement names only receive state).
Deviation from DESIGN.md section 7: usb_reset is not pulsed while `enable` stays high (luna's link layer never does that:
         `in_reset` always comes with / during a link-down period); the systematic sweep is realised as "provoking event + swept
         offset + PHY stall" with mandatory coverage bins per command and per phase instead of a literal per-cycle loop.
Not judged: anything the DUT sends while the link is down; commands already in flight at the rising edge of enable
         (never happens because of the flush rule); LUP/LXU/LRTY; latency (only bounded progress: 120 / 150 / 300 cycles with
         source.ready high for the advertisement / the probe headers / the final drain).
Known findings (findings/C38.md): both taint classes fire on the unchanged tree.  After a tainted violation the session is
         abandoned and the case continues with the next session (fresh power-on state), so clean lives keep being judged.
         A taint is sticky until a USB reset has been seen with the receiver idle (what the DUT missed stays missed).
"""
from rv.sim import Bench

PROPERTY = "C38"
CASES = {"quick": 160, "thorough": 2400}
# generous watchdogs: the box is shared; unloaded the quick tier needs < 60 s on 16 workers
TIMEOUT = {"quick": 3600, "thorough": 8 * 3600}
RULE = ("case = 5 sessions x 3-5 link lives; each life: advertisement judged, probe headers, random state building, then a crash "
        "point = (provoked command in {LGOOD, LCRD, LBAD, LRTY, LUP, LXU, advert, burst, idle, header race}) x (offset k in 0..14 "
        "cycles after the provoking event) x (PHY ready profile / directed stall) x (link-down pattern: disable / warm reset / hot "
        "reset level / reset strobe while down; down time 24-120 cycles); non-trivial = >= 1 clean re-entry judged and >= 1 "
        "crash while a link command was on the wire; distinct = hash of every driven input of every cycle")
REQUIRED_BINS = ["crash_during_LGOOD", "crash_during_LCRD", "crash_during_LBAD", "crash_during_LRTY", "crash_during_LUP",
                 "crash_during_LXU", "crash_source_idle", "crash_cycle_before_valid", "crash_on_first_valid", "crash_on_last_word",
                 "crash_with_buffered_headers", "crash_while_ignoring", "crash_with_lbad_pending", "crash_with_acks_pending",
                 "crash_with_credits_pending", "crash_with_nonzero_sequence", "crash_with_credit_index_nonzero",
                 "crash_with_reset", "crash_disable_only", "crash_header_racing", "pattern_disable", "pattern_warm_reset",
                 "pattern_hot_reset_level", "pattern_hot_reset_strobe", "pattern_glitch", "crash_during_advert", "probe_after_reentry",
                 "target_lgood", "target_lcrd", "target_lbad", "target_lrty", "target_lup", "target_lxu", "target_advert",
                 "target_idle", "target_burst", "target_race", "buffer_count_1", "buffer_count_2", "buffer_count_4", "buffer_count_8"]
REQUIRED_EVENTS = ["cycles_monitored", "link_up_events", "link_down_events", "reentries_judged_clean", "advert_lgood_checked",
                   "advert_complete", "lgood_checked", "lcrd_for_freed_buffer_checked", "headers_consumed",
                   "queue_valid_cycles_compared", "link_commands_decoded", "sessions_quiesced"]
ASSUMPTIONS = ["the link stays down >= 24 cycles and until source has been idle for 6 cycles (except 1-2 cycle glitches, generated only while the receiver is idle); source.ready is granted eventually while down",
               "usb_reset is only asserted together with / during a link-down period (as luna's link layer does), and is low when enable rises",
               "no strobe inputs (retry_required, keepalive_required, ...) are pulsed while the link is down",
               "LUP / LXU / LRTY after the advertisement LGOOD are not judged (before it they need a request pulsed in this link life); commands sent while the link is down are not judged"]

READY = [("always",), ("always",), ("random", 0.5), ("random", 0.25), ("bursty", 6, 6), ("bursty", 14, 3), ("random", 0.85)]
TARGETS = ["lgood", "lgood", "lcrd", "lcrd", "lbad", "lbad", "lrty", "lrty", "lup", "lup", "lxu", "lxu", "advert", "advert", "idle", "idle",
           "burst", "burst", "race", "race", "random"]


class Holder:
    eng = None


def build(max_cycles, nbuf=4):
    from amaranth import Elaboratable, Module, Signal, ResetInserter
    from luna.gateware.usb.usb3.link.receiver import HeaderPacketReceiver
    import random
    from rv.ref.c37_link import Engine

    class Wrap(Elaboratable):
        def __init__(self):
            self.dut = HeaderPacketReceiver(buffer_count=nbuf)
            self.hard_reset = Signal()

        def elaborate(self, platform):
            m = Module()
            m.submodules.dut = ResetInserter({"ss": self.hard_reset})(self.dut)
            return m

    wrap = Wrap()
    b = Bench(wrap, domain="ss", freq=125e6, max_cycles=max_cycles)
    b.watch(wrap.hard_reset)
    Engine(wrap.dut, b, random.Random(0), None, PROPERTY)      # registers the watched signals
    return wrap, b


def new_session(wrap, b, rng, res, holder, nbuf=4):
    from rv.ref.c37_link import Engine
    eng = Engine(wrap.dut, b, rng, res, PROPERTY, nbuf=nbuf)
    holder.eng = eng
    b.set(wrap.hard_reset, 1)
    yield
    yield
    b.set(wrap.hard_reset, 0)
    yield
    eng.armed = True
    return eng


# ------------------------------------------------------------------------------------------------ pieces of a life

def until(eng, cycle):
    """return when the next driven cycle is `cycle` (what is set now is sampled in `cycle`)"""
    while eng.b.cycle + 1 < cycle and not eng.dead:
        yield from eng.tick()


def wait_header_end(eng, bound=80):
    """wait until the header(s) queued on the sink have been put on the wire; -> cycle of the last word"""
    before = eng.last_hdr_end
    n = 0
    while (eng.txq or eng.last_hdr_end == before) and n < bound and not eng.dead:
        yield from eng.tick()
        n += 1
    return eng.last_hdr_end


def probe(eng, rng, res):
    """fresh state: the headers following the advertised number must be accepted, acknowledged and offered"""
    n = rng.randint(1, 3)
    sent = 0
    for _ in range(n):
        if eng.can_send_new():
            eng.send_new_header(0.0, rng.choice([0.0, 0.0, 0.3]))
            sent += 1
    if sent:
        yield from eng.wait_sink_idle(extra=1)
        yield from eng.quiesce(bound=150, need_empty=False)
        res.bin("probe_after_reentry")


def build_state(eng, rng, res, cfg):
    """random traffic that leaves the receiver in a non-trivial state"""
    steps = rng.randint(0, 10)
    stay_ignoring = rng.random() < 0.35
    for _ in range(steps):
        if eng.dead:
            return
        if eng.p_lbads > 0 and not stay_ignoring:
            yield from eng.do_retry(rng.choice([0.0, 0.2]), 0.0)
            continue
        x = rng.random()
        if x < 0.55:
            for _ in range(rng.randint(1, 3)):
                if eng.can_send_new():
                    eng.send_new_header(cfg["p_corrupt"], rng.choice([0.0, 0.0, 0.3]))
        elif x < 0.65:
            eng.send_decoy_wrong_seq()
        elif x < 0.75:
            eng.send_noise()
        elif x < 0.85:
            eng.q_profile = rng.choice(READY + [("never",), ("never",)])
        elif x < 0.92:
            eng.strobe(rng.choice(["retry_required", "keepalive_required", "reject_power_state"]), rng.randint(0, 2))
        yield from eng.tick(rng.randint(0, 14))
    yield from eng.wait_sink_idle(extra=rng.randint(0, 6))


def provoke(eng, rng, res, target):
    """make the receiver start a particular link command; -> the cycle of the provoking event"""
    b = eng.b
    m = eng.model
    res.bin("target_" + target)
    if target in ("lgood", "burst", "race"):
        n = 1 if target != "burst" else rng.randint(2, 3)
        corrupt = 0.0
        if target == "race" and rng.random() < 0.3:
            corrupt = 1.0
        sent = 0
        for _ in range(n):
            if eng.can_send_new():
                eng.send_new_header(corrupt, 0.0)
                sent += 1
        if target == "burst" and m.fifo and rng.random() < 0.7:
            eng.q_profile = ("always",)                 # consumption at the same time: LCRDs join the burst
        if not sent:
            return b.cycle
        if target == "race":
            # the crash is placed around the end of the header: it ends len(txq) cycles from the next cycle
            # (one extra word if the driver has to separate it from the previous header)
            return b.cycle + len(eng.txq) + rng.randint(-1, 1)
        c_end = yield from wait_header_end(eng)
        return c_end + 3
    if target == "lcrd":
        if not m.fifo:
            if eng.can_send_new():
                eng.q_profile = ("never",)
                eng.send_new_header(0.0, 0.0)
                yield from eng.wait_sink_idle(extra=rng.randint(8, 20))
        eng.q_profile = ("never",)
        yield from eng.tick(2)
        eng.q_pulse_at = b.cycle + 1
        if rng.random() < 0.5:
            eng.q_profile = ("always",)
        return b.cycle + 2
    if target == "lbad":
        if m.ignoring and eng.p_lbads:
            yield from eng.do_retry(0.0, 0.0, react=1)
            yield from eng.wait_sink_idle(extra=12)
        if not eng.can_send_new():
            eng.q_profile = ("always",)
            n = 0
            while not eng.can_send_new() and n < 60 and not eng.dead:
                yield from eng.tick()
                n += 1
        if eng.can_send_new() and not m.ignoring:
            eng.send_new_header(1.0, 0.0)
            c_end = yield from wait_header_end(eng)
            return c_end + 3
        return b.cycle
    if target in ("lrty", "lup", "lxu"):
        eng.strobe({"lrty": "retry_required", "lup": "keepalive_required", "lxu": "reject_power_state"}[target])
        return b.cycle + 1
    if target == "advert":
        return eng.enable_rise if eng.advert is not None else b.cycle
    return b.cycle            # idle / random


def crash(eng, rng, res, t_crash, cfg):
    """take the link down at cycle t_crash with one of the patterns, keep it down, flush, bring it up again"""
    b = eng.b
    pattern = rng.choice(["disable", "disable", "disable", "warm_reset", "hot_reset_level", "hot_reset_strobe"])
    res.bin("pattern_" + pattern)
    if eng.advert is not None:
        res.bin("crash_during_advert")
    down = rng.randint(24, 120)
    # PHY behaviour around the crash: sometimes hold the command on the wire for a while
    hold = None
    r = rng.random()
    if r < 0.25:
        hold = t_crash + rng.randint(1, 30)
    elif r < 0.35:
        hold = t_crash + rng.randint(30, 100)          # may outlast a reset level: the reset falls while the command still waits
    yield from until(eng, t_crash)
    if eng.dead:
        return
    t0 = b.cycle + 1
    eng.strobes.clear()                  # nothing is requested while the link is down
    if hold is not None:
        eng.src_hold_until = hold
    if pattern == "warm_reset":
        eng.reset_level = 1
        delta = rng.choice([0, 1, 1, 1, 2])
        if delta == 0:
            eng.enable_level = 0
        else:
            yield from eng.tick(delta)
            eng.enable_level = 0
        yield from eng.tick(rng.randint(2, 80))
        eng.reset_level = 0
    else:
        eng.enable_level = 0
        if pattern != "disable":
            yield from eng.tick(rng.randint(1, 40))
            eng.reset_level = 1
            yield from eng.tick(1 if pattern == "hot_reset_strobe" else rng.randint(2, 60))
            eng.reset_level = 0
    # training sets / noise while down (never header framing, unless this is a race life whose header is still queued)
    if rng.random() < 0.5:
        from rv.ref.c37_link import TS_COM
        for _ in range(rng.randint(1, 6)):
            eng.txq.append((TS_COM, 0xF, 1))
            eng.txq.append((rng.getrandbits(32), 0, 1))
    yield from eng.tick(2)
    n = 0
    while not eng.dead and (b.cycle < t0 + down or eng.src_idle_run < 6 or eng.txq):
        yield from eng.tick()
        n += 1
        if n > 1500:
            raise RuntimeError("source never became idle while the link was down")
    eng.src_hold_until = None
    eng.q_profile = rng.choice(READY)
    eng.src_profile = rng.choice(READY)
    eng.enable_level = 1
    yield from eng.tick(2)


def glitch(eng, rng, res):
    """`enable` low for one or two cycles while the receiver has nothing to send and nothing on the wire"""
    m = eng.model
    eng.q_profile = ("never",)
    yield from eng.wait_sink_idle(extra=2)
    n = quiet = 0
    while quiet < 12 and n < 400 and not eng.dead:
        idle = (not m.lgood_due and not m.lbad_due and m.lcrd_sent == eng.nbuf + m.pops and eng.advert is None
                and eng.src_idle_run >= 6 and not eng.strobes and not eng.txq)
        quiet = quiet + 1 if idle else 0
        yield from eng.tick()
        n += 1
    if eng.dead or quiet < 12:
        return False
    # LUP / LXU requested long ago have been sent by now (12 idle cycles with the PHY ready at least 6 times)
    eng.src_profile = ("always",)
    yield from eng.tick(8)
    if eng.src_idle_run < 6:
        return False
    eng.enable_level = 0
    yield from eng.tick(rng.randint(1, 2))
    eng.enable_level = 1
    eng.q_profile = rng.choice(READY)
    eng.src_profile = rng.choice(READY)
    yield from eng.tick(2)
    res.bin("pattern_glitch")
    return True


def scenario(eng, rng, res, cfg):
    b = eng.b
    yield from eng.tick(rng.randint(0, 6))
    eng.enable_level = 1
    yield from eng.tick(2)
    for life in range(cfg["lives"]):
        if eng.dead:
            return
        target = rng.choice(TARGETS)
        if target != "advert":
            yield from eng.wait_advert()
            if eng.dead:
                return
            if rng.random() < 0.8:
                yield from probe(eng, rng, res)
            if eng.dead:
                return
            yield from build_state(eng, rng, res, cfg)
            if eng.dead:
                return
        stall = rng.random()
        if stall < 0.3:
            eng.src_stall_word1 = rng.randint(1, 10)          # the command word will wait
        t_event = yield from provoke(eng, rng, res, target)
        if target == "random":
            k = rng.randint(0, 60)
        elif target == "race":
            k = rng.randint(-3, 5)
        elif target == "advert":
            k = rng.randint(1, 30)
        elif target == "burst":
            k = rng.randint(0, 30)
        elif rng.random() < 0.7:
            k = rng.randint(0, 6)                              # dispatch .. framing word .. command word (PHY ready)
        else:
            k = rng.randint(0, 14)
        if target == "idle" and rng.random() < 0.6:
            done = yield from glitch(eng, rng, res)
            if done or eng.dead:
                continue
            t_event = b.cycle                     # the receiver never got idle: ordinary crash instead
        t_crash = max(b.cycle + 1, t_event + k)
        if 0.3 <= stall < 0.5 and target not in ("race", "random"):
            eng.src_hold_until = t_crash + rng.randint(0, 12)  # the framing word will wait until (after) the crash
        yield from crash(eng, rng, res, t_crash, cfg)
    if eng.dead:
        return
    # last life: must be fully functional
    eng.src_profile = ("always",) if rng.random() < 0.6 else ("random", 0.5)
    eng.q_profile = ("always",) if rng.random() < 0.6 else ("random", 0.5)
    yield from eng.wait_advert()
    if eng.dead:
        return
    for _ in range(rng.randint(4, 9)):
        n = 0
        while not eng.can_send_new() and n < 200 and not eng.dead:
            yield from eng.tick()
            n += 1
        if eng.dead:
            return
        if eng.can_send_new():
            eng.send_new_header(0.0, 0.0)
    yield from eng.wait_sink_idle(extra=2)
    yield from eng.quiesce()
    if not eng.dead:
        res.event("sessions_quiesced")
        eng._partner_rx()
        if eng.p_unacked:
            raise RuntimeError("partner still has %d unacknowledged headers" % len(eng.p_unacked))


def draw_cfg(rng):
    return {
        "lives": rng.randint(3, 5),
        "p_corrupt": rng.choice([0.0, 0.15, 0.3]),
        "src": rng.choice(READY),
        "q": rng.choice(READY + [("never",)]),
        "filler_invalid_p": rng.choice([0.0, 0.0, 0.2, 0.6]),
        "filler_garbage": rng.random() < 0.7,
    }


SESSIONS = 5


BUFFER_COUNTS = [4, 4, 4, 4, 4, 4, 4, 4, 1, 1, 2, 2, 2, 8, 8, 8]      # powers of two only, see docstring


def run_case(rng, tier, res, nbuf=None):
    nbuf = nbuf or rng.choice(BUFFER_COUNTS)
    wrap, b = build(SESSIONS * 20000, nbuf)
    holder = Holder()
    res.desc = {"buffer_count": nbuf, "sessions": []}
    res.sig("buffer_count", nbuf)
    res.bin("buffer_count_%d" % nbuf)

    def main():
        for i in range(SESSIONS):
            cfg = draw_cfg(rng)
            res.desc["sessions"].append(cfg)
            res.sig(sorted(cfg.items()))
            eng = yield from new_session(wrap, b, rng, res, holder, nbuf)
            eng.src_profile = cfg["src"]
            eng.q_profile = cfg["q"]
            eng.filler_invalid_p = cfg["filler_invalid_p"]
            eng.filler_garbage = cfg["filler_garbage"]
            eng.allow_b2b = False
            yield from scenario(eng, rng, res, cfg)
            cfg["lives_log"] = eng.epoch_info[:6]
            if eng.dead and not eng.dead_tainted:
                return

    def driver():
        gen = main()
        while True:
            try:
                next(gen)
            except StopIteration:
                return
            if holder.eng is not None:
                holder.eng.drive()
            yield

    b.add_monitor(lambda bb: holder.eng.monitor(bb) if holder.eng is not None else None)
    b.add_driver(driver())
    b.run()
    res.cycles = b.cycle
    if b.hit_max_cycles and not (holder.eng and holder.eng.dead):
        raise RuntimeError("case did not finish within max_cycles")
    ev, bins = res.events, res.bins
    res.nontrivial = bool(ev.get("reentries_judged_clean") and
                          any(bins.get("crash_during_" + c) for c in ("LGOOD", "LCRD", "LBAD", "LRTY", "LUP", "LXU")))
