"""C49 - UART transmitters produce exact 8N1 frames.

DUTs: luna.gateware.interface.uart.UARTTransmitter(divisor) and
      UARTMultibyteTransmitter(byte_width 1..8, divisor); divisor 1..24, 31..64 and 65..600 (256/257, 511..513, 520..)
      (powers of two and their neighbours on purpose: the baud counter is sized by the divisor).

Workload (per case one transmitter, 12..60 stream items): `valid` held back to back (new payload in
the cycle right after an acceptance), spaced by random gaps, and raised at directed offsets around the
end of the running frame (-3..+3 cycles around the last stop-bit cycle, i.e. in the cycle the
transmitter decides between "next frame" and "idle", and in the first idle cycles).  Payloads mix
random values with 00/FF/01/80/55/AA and a counter (so loss/duplication/reordering is visible) and
with words whose bytes are all different (endianness).  The stimulus is always a legal stream: valid
and payload are held until the transfer (valid & ready in the same cycle).

Monitors / oracle (all in one per-cycle monitor, reference written from the 8N1 definition):
  * a transfer is valid & ready sampled at the same edge; the transferred word is split little-endian
    into the queue of bytes the line owes;
  * the line is compared cycle by cycle with the reference waveform: while no frame runs the line must
    be 1; a 0 starts a frame, which must belong to the oldest owed byte (a frame nobody asked for is a
    violation) and then is exactly: `divisor` cycles 0, eight data bits LSB first, `divisor` cycles
    each, `divisor` cycles 1.  The cycle after the stop bit either starts the next frame or is idle;
  * an owed byte must start within SLACK cycles once the line is free (so frames of a held stream are
    contiguous and nothing accepted is dropped); at the end all accepted bytes have been framed;
  * "accepted only when it will be framed next": at a transfer at most the bytes of ONE earlier item
    may still be waiting for their frame (a holding register in front of the shifter would still
    satisfy the statement, two queued items would not); together with the unique payloads and the
    exact line comparison this catches every ready that is asserted for a payload that is then not
    the next thing on the line (it is lost, or it overwrites the running frame);
  * `idle` (UARTTransmitter): never 1 strictly inside a frame; both DUTs: 1 once nothing is owed and
    nothing has been on the line for more than SLACK cycles.

Deviations from DESIGN section 7 / not judged:
  * "valid dropped before acceptance" is illegal stream stimulus and is not generated.
  * `idle` of UARTMultibyteTransmitter is judged as quiescent => idle and as "never idle while accepted bytes
    have not started their frame" (catches a stuck-at-1); it is NOT required to be 0 during the last frame: the
    real block reports idle (= "a word would be accepted") while its last byte is still on the line and the
    property statement does not speak about that output.
  * `driving` is not judged.  The latency between a transfer and the start bit is only bounded (SLACK).
"""
from rv.sim import Bench

PROPERTY = "C49"
CASES = {"quick": 256, "thorough": 5120}
RULE = ("case = (plain | multibyte width 1..8, divisor 1..24, 31/32/33/64 or 65..600 (then 2..4 items), 12..60 items with a per-item "
        "spacing mode: back-to-back / random gap / valid raised -3..+3 cycles around the end of the running frame); "
        "non-trivial = the case had a contiguous frame pair and a frame started from idle; distinct = hash of config + items + gaps")
REQUIRED_BINS = ["plain", "multibyte", "multibyte_width_ge2", "divisor_1", "divisor_pow2", "divisor_ge_16", "divisor_gt_256", "divisor_gt_512", "multibyte_width_ge5",
                 "multibyte_idle_checked_while_bytes_unsent",
                 "frame_contiguous", "frame_from_idle", "accept_at_last_stop_cycle", "valid_rose_at_last_stop_cycle",
                 "valid_rose_first_idle_cycle", "valid_waited_for_ready", "byte_00", "byte_ff", "word_bytes_distinct"]
REQUIRED_EVENTS = ["transfers", "bytes_owed", "frames_checked", "bit_cycles_checked", "idle_line_cycles_checked",
                   "idle_output_checked", "accept_rule_checked"]
ASSUMPTIONS = ["a transfer is valid & ready in the same cycle; valid/payload are held until then (legal stream only)",
               "latency from a transfer to its start bit is bounded by SLACK=4 cycles once the line is free, not fixed",
               "idle of the multibyte transmitter is judged only as quiescent => idle; driving is not judged"]

SLACK = 4
SPECIAL = [0x00, 0xFF, 0x01, 0x80, 0x55, 0xAA, 0x7F, 0xFE]


def _frame_bits(byte):
    return [0] + [(byte >> i) & 1 for i in range(8)] + [1]


def run_case(rng, tier, res):
    from luna.gateware.interface.uart import UARTTransmitter, UARTMultibyteTransmitter

    multi = rng.random() < 0.45
    bw = rng.choice([1, 2, 2, 3, 4, 4, 5, 6, 7, 8]) if multi else 1
    div = rng.choice([1, 1, 2, 3, 4, 5, 7, 8, 9, 15, 16, 17, 24, rng.randint(1, 24), rng.randint(1, 24),
                      rng.randint(1, 24), rng.choice([31, 32, 33, 64])])
    if rng.random() < 0.18:
        # real-world divisors (luna's debug UART runs at ~520), values around the 8/9-bit counter boundaries
        div = rng.choice([513, 520, 521, 600, 520, 600, 560, 257, 300, 511, 512, 100, 255, 256])
        if multi:
            bw = rng.choice([1, 2, 2, 3])       # wide words are exercised at the small divisors
    if multi:
        dut = UARTMultibyteTransmitter(byte_width=bw, divisor=div)
    else:
        dut = UARTTransmitter(divisor=div)
    frame_len = 10 * div
    item_len = frame_len * bw
    budget = rng.randint(2500, 5000)
    nitems = max(12, min(60, budget // item_len))
    if div > 64:
        # real-world divisors (luna's debug UART runs at ~520): few frames so that the case stays around 20k cycles
        nitems = max(2, min(4, 16000 // item_len))
    res.bin("multibyte" if multi else "plain")
    if multi and bw >= 2:
        res.bin("multibyte_width_ge2")
    if div == 1:
        res.bin("divisor_1")
    if div >= 2 and div & (div - 1) == 0:
        res.bin("divisor_pow2")
    if div >= 16:
        res.bin("divisor_ge_16")
    if div > 256:
        res.bin("divisor_gt_256")
    if div > 512:
        res.bin("divisor_gt_512")
    if multi and bw >= 5:
        res.bin("multibyte_width_ge5")

    # ---------------------------------------------------------------- stimulus script
    style = rng.choice(["mixed", "mixed", "burst", "edges", "sparse"])
    counter = rng.randrange(256)
    items = []
    for i in range(nitems):
        word = 0
        kind = rng.random()
        for k in range(bw):
            if kind < 0.35:
                byte = rng.randrange(256)
            elif kind < 0.6:
                byte = rng.choice(SPECIAL)
            else:
                counter = (counter + 1) & 0xFF
                byte = counter
            word |= byte << (8 * k)
        r = rng.random()
        if style == "burst":
            mode = ("b2b", 0) if r < 0.85 else ("gap", rng.randint(1, 3 * frame_len))
        elif style == "edges":
            mode = ("edge", rng.randint(-3, 3)) if r < 0.8 else ("b2b", 0)
        elif style == "sparse":
            mode = ("gap", rng.randint(1, item_len + 3 * div + 5)) if r < 0.8 else ("edge", rng.randint(-2, 2))
        else:
            mode = (("b2b", 0) if r < 0.4 else ("edge", rng.randint(-3, 3)) if r < 0.7
                    else ("gap", rng.randint(1, item_len + 2 * frame_len)))
        items.append((word, mode))
    res.desc = {"dut": "multibyte" if multi else "plain", "byte_width": bw, "divisor": div, "style": style,
                "items": [("%#x" % w, m) for w, m in items[:8]], "n_items": nitems}
    res.sig(multi, bw, div, items)

    stream = dut.stream
    b = Bench(dut, domain="sync", freq=60e6, max_cycles=nitems * (item_len * 3 + 60) + 2000)
    b.watch(stream.valid, stream.ready, stream.payload, dut.tx, dut.idle)

    st = {
        "owed": [],            # bytes accepted whose frame has not started
        "cur": None,           # bits of the running frame
        "pos": 0,              # cycle index inside the running frame
        "wait": 0,             # cycles an owed byte has waited on a free line
        "quiet": 0,            # cycles with nothing owed and nothing on the line
        "dead": False,         # stop judging after the first violation (everything after is a cascade)
        "frames": 0, "bytes": 0,
        "prev_valid": 0,
        "idle_run": 0,         # cycles since the last frame ended (0 while in frame)
        "last_accept": None,
    }

    def fail(mech, detail):
        if not st["dead"]:
            res.violation(mech, "cyc=%d div=%d bw=%d multi=%d frames_done=%d: %s" % (b.cycle, div, bw, multi, st["frames"], detail))
        st["dead"] = True
        b.stop()

    def monitor(b):
        if st["dead"]:
            return
        valid, ready, payload, tx, idle = (b.get(s) for s in (stream.valid, stream.ready, stream.payload, dut.tx, dut.idle))
        in_frame = st["cur"] is not None
        remaining = (frame_len - st["pos"]) if in_frame else 0       # cycles of the running frame incl. this one
        # ---- transfer
        if valid and ready:
            res.event("transfers")
            res.event("accept_rule_checked")
            nowed = len(st["owed"])
            if nowed > bw:
                # more than one whole earlier item is still waiting: the new one is not "framed next"
                fail("accepted_while_earlier_items_unframed",
                     "transfer with %d earlier bytes (more than one item of %d) still waiting for their frame" % (nowed, bw))
                return
            if in_frame and remaining == 1:
                res.bin("accept_at_last_stop_cycle")
                if not st["prev_valid"]:
                    res.bin("valid_rose_at_last_stop_cycle")
            if not in_frame and st["idle_run"] == 0 and st["frames"] and not st["prev_valid"]:
                res.bin("valid_rose_first_idle_cycle")
            bs = [(payload >> (8 * k)) & 0xFF for k in range(bw)]
            if bw >= 2 and len(set(bs)) == bw:
                res.bin("word_bytes_distinct")
            for x in bs:
                if x == 0:
                    res.bin("byte_00")
                if x == 0xFF:
                    res.bin("byte_ff")
            st["owed"].extend(bs)
            st["bytes"] += bw
            res.event("bytes_owed", bw)
            st["last_accept"] = b.cycle
        elif valid and not ready:
            res.bin("valid_waited_for_ready")
        st["prev_valid"] = valid
        # ---- line
        if in_frame:
            bit = st["pos"] // div
            exp = st["cur"][bit]
            res.event("bit_cycles_checked")
            if tx != exp:
                off = st["pos"] - bit * div
                if bit == 0:
                    mech = "start_bit_too_short"
                elif bit == 9:
                    mech = "stop_bit_low_or_previous_bit_too_long"
                else:
                    mech = "data_bit_wrong_value_or_length"
                fail(mech, "frame byte=%#04x bit %d (0=start,9=stop) cycle %d of %d: line=%d expected=%d" % (st["byte"], bit, off, div, tx, exp))
                return
            st["pos"] += 1
            if st["pos"] == frame_len:
                st["cur"] = None
                st["frames"] += 1
                st["idle_run"] = 0
                st["just_ended"] = True
                res.event("frames_checked")
        else:
            st["idle_run"] += 1
            if tx == 0:
                if not st["owed"]:
                    fail("frame_without_accepted_byte", "line went low with no accepted byte waiting")
                    return
                st["byte"] = st["owed"].pop(0)
                st["cur"] = _frame_bits(st["byte"])
                st["pos"] = 1
                st["wait"] = 0
                res.bin("frame_contiguous" if st["idle_run"] == 1 and st["frames"] else "frame_from_idle")
                st["idle_run"] = 0
                if frame_len == 1:      # cannot happen (>= 10)
                    st["cur"] = None
            else:
                res.event("idle_line_cycles_checked")
                if st["owed"]:
                    st["wait"] += 1
                    if st["wait"] > SLACK:
                        fail("accepted_byte_not_framed", "byte %#04x accepted but no start bit after %d free-line cycles" % (st["owed"][0], st["wait"]))
                        return
        # ---- idle output
        res.event("idle_output_checked")
        if st["cur"] is not None and not multi and idle and 1 <= st["pos"] - 1 <= frame_len - 2:
            fail("idle_asserted_inside_frame", "idle=1 at frame cycle %d of %d" % (st["pos"] - 1, frame_len))
            return
        if multi and st["owed"]:
            # accepted bytes whose frame has not even started: the transmitter is not idle under any reading of `idle`
            res.bin("multibyte_idle_checked_while_bytes_unsent")
            st["idle_owed"] = st.get("idle_owed", 0) + 1 if idle else 0
            if st["idle_owed"] >= 2:
                fail("idle_asserted_while_accepted_bytes_unsent", "idle=1 for 2 cycles while %d accepted bytes have not started their frame" % len(st["owed"]))
                return
        else:
            st["idle_owed"] = 0
        if st["cur"] is None and not st["owed"] and not (valid and ready):
            st["quiet"] += 1
            if st["quiet"] > SLACK and not idle:
                fail("idle_not_asserted_when_quiescent", "nothing owed and line free for %d cycles but idle=0" % st["quiet"])
                return
        else:
            st["quiet"] = 0

    def driver():
        b.set(stream.valid, 0)
        for _ in range(rng.randint(1, 6)):
            yield
        last_t = None
        for word, (mode, arg) in items:
            if st["dead"]:
                return
            if last_t is not None:
                if mode == "b2b":
                    lowfor = 0
                elif mode == "gap":
                    lowfor = arg
                else:
                    # aim valid's rising edge around the end of the item accepted last
                    target = last_t + item_len + (1 if multi else 0) + arg
                    lowfor = max(0, target - b.cycle - 1)
                if lowfor:
                    b.set(stream.valid, 0)
                    # payload is free to change while valid is low
                    b.set(stream.payload, rng.getrandbits(8 * bw))
                    for _ in range(lowfor):
                        yield
            b.set(stream.valid, 1)
            b.set(stream.payload, word)
            waited = 0
            while True:
                yield
                if st["dead"]:
                    return
                if b.get(stream.valid) and b.get(stream.ready):
                    break
                waited += 1
                if waited > (bw + 2) * frame_len + 50:
                    fail("never_ready", "valid held for %d cycles without a transfer" % waited)
                    return
            last_t = b.cycle
        b.set(stream.valid, 0)
        for _ in range((bw + 1) * frame_len + 30):
            yield
            if st["dead"]:
                return
        if st["owed"] or st["cur"] is not None or st["frames"] != st["bytes"]:
            fail("accepted_byte_not_framed", "end of case: %d bytes accepted, %d frames seen" % (st["bytes"], st["frames"]))

    b.add_monitor(monitor)
    b.add_driver(driver())
    b.run()
    if b.hit_max_cycles and not st["dead"]:
        res.violation("never_ready", "case did not finish within %d cycles" % b.max_cycles)
    res.cycles = b.cycle
    res.nontrivial = bool(res.bins.get("frame_contiguous") and res.bins.get("frame_from_idle"))
