"""C45 — transaction packet requests produce the requested transaction packet.

DUT: luna.gateware.usb.usb3.protocol.transaction.TransactionPacketGenerator, stand-alone.  Driven at its
HandshakeGeneratorInterface (`send_ack/stall/nrdy/erdy`, `endpoint_number`, `retry_required`, `next_sequence`), `address`,
and `header_source.ready`; observed at `interface.ready/done` and the `header_source` HeaderQueue.

Workload (per case 120-300 request slots): request strobes of the four kinds, placed
  * some cycles after the generator became ready again, or on the very first ready cycle (back-to-back),
  * held for 1-3 cycles (the extra cycles fall into the busy time),
  * while busy (different kind, different field values - must not produce anything),
  * rarely two kinds in the same cycle (contradictory: only counted, subtype unjudged);
field values (address, endpoint, retry, sequence) are either stable for some cycles before the request, or take their
requested value exactly in the request cycle and change again in the cycle after it (random, all bits inverted, or a
single bit different), and keep changing while the header waits; `header_source.ready` follows an independent profile
(always / random p / long stalls / single-cycle pulses / high until the header shows up and then low for a while).

Monitors, every cycle: request = any strobe sampled together with `interface.ready`; header transfer =
`header_source.valid & ready`; `done`; header stability while the header waits.

Oracle (USB 3.2 section 8.5, figures for the ACK / NRDY / ERDY / STALL transaction packets; nothing taken from luna):
every request is queued with the field values sampled in its own cycle; every header transfer pops the oldest request and
must carry DW0[4:0] = 0b00100 (transaction packet), DW0[31:25] = device address, DW1[3:0] = subtype (ACK 1, NRDY 2, ERDY 3,
STALL 5), DW1[11:8] = endpoint number, and for ACK DW1[6] = retry and DW1[25:21] = sequence number.  A transfer without a
queued request, a request whose header does not become valid within 8 cycles, a request left over at the end, a header that
changes while it waits for `ready`, and `done` pulses that do not pair one-to-one with transfers (0..3 cycles after the
transfer) are violations, each with its own mechanism name.

Mutation results (quick tier): caught fields latched one cycle late (only visible when the header has to wait), STALL
sent with ACK subtype, STALL dispatched to NRDY, live (unlatched) address / endpoint / retry, 4-bit sequence latch, 3-bit
endpoint latch, sequence not latched in the ACK request cycle, address forced to 0 in NRDY, done asserted without
transfer, header not held until ready, ready asserted while busy.

Bits the statement does not name (route string, direction, number of packets, reserved bits, DW2, and for NRDY / ERDY /
STALL the positions an ACK uses for retry and sequence - USB 3.2 has no such field in those packets): their *value* is not
judged (the statement does not decide it and the interface has no input for it), but within a case they must be identical in
all packets of one kind, i.e. they must not depend on the request's field values (`unnamed_bits_depend_on_request_fields`).

Not judged: the constant values of direction, number of packets, route string and reserved bits; the
subtype when two kinds are requested in the same cycle; endpoint numbers above 15 (the interface field is 7 bits wide, the
packet field 4 bits; such values are generated rarely and the endpoint comparison is skipped for them).
"""
from rv.sim import Bench

PROPERTY = "C45"
CASES = {"quick": 200, "thorough": 3000}
RULE = ("case = 120-300 request slots on one generator: kind in {ACK,STALL,NRDY,ERDY}, placement {delayed, first ready cycle, held 1-3 cycles, "
        "extra strobes while busy, rare double strobe}, field timing {stable before, valid only in the request cycle and changed right after "
        "(random / inverted / one bit)}, header-queue ready profile {always, random, long stalls, pulses, drop-on-valid}; "
        "non-trivial = all four kinds requested, >= 10 requests with fields changed in the next cycle and >= 10 headers that had to wait; "
        "distinct = hash of the request script and ready profile")
KINDS = ["ack", "stall", "nrdy", "erdy"]
REQUIRED_BINS = ["request_ack", "request_stall", "request_nrdy", "request_erdy", "fields_changed_cycle_after_request",
                 "fields_set_in_request_cycle", "request_on_first_ready_cycle", "strobe_while_busy", "strobe_held",
                 "header_waited_for_ready", "header_taken_immediately", "fields_changed_while_header_waits",
                 "ack_retry_1", "ack_retry_0", "ack_sequence_ge_16", "address_ge_64", "single_bit_field_change",
                 "unnamed_bits_compared_ack", "unnamed_bits_compared_stall", "unnamed_bits_compared_nrdy", "unnamed_bits_compared_erdy"]
REQUIRED_EVENTS = ["requests_accepted", "headers_transferred", "headers_compared", "done_pulses", "ready_cycles", "busy_cycles",
                   "unnamed_bits_compared"]
ASSUMPTIONS = ["two request strobes in one cycle are contradictory: exactly one packet is still demanded, its subtype may be either",
               "endpoint numbers > 15 do not fit the 4-bit packet field: endpoint not compared for them",
               "header must become valid within 8 cycles of the request; done within 0..3 cycles of the transfer",
               "direction / number_of_packets / reserved bits are not named by the statement and not judged"]

TP_TYPE = 0b00100
SUBTYPE = {"ack": 1, "nrdy": 2, "erdy": 3, "stall": 5}      # USB 3.2 table 8-13 (transaction packet subtypes)
MAX_VALID_WAIT = 8
MAX_DONE_LAG = 3


def decode(dw0, dw1):
    return {"type": dw0 & 0x1F, "address": (dw0 >> 25) & 0x7F, "subtype": dw1 & 0xF, "retry": (dw1 >> 6) & 1,
            "endpoint": (dw1 >> 8) & 0xF, "sequence": (dw1 >> 21) & 0x1F}


def run_case(rng, tier, res):
    from luna.gateware.usb.usb3.protocol.transaction import TransactionPacketGenerator
    dut = TransactionPacketGenerator()
    itf = dut.interface
    src = dut.header_source
    strobe_sig = {"ack": itf.send_ack, "stall": itf.send_stall, "nrdy": itf.send_nrdy, "erdy": itf.send_erdy}
    n_slots = rng.randint(120, 300)
    ready_profile = rng.choice(["always", "random", "random", "stalls", "pulses", "drop_on_valid", "mixed"])
    p_ready = rng.choice([0.15, 0.3, 0.5, 0.8])
    kind_weights = rng.choice([[1, 1, 1, 1], [4, 1, 1, 1], [1, 1, 2, 4], [1, 4, 1, 1], [1, 1, 4, 2]])
    res.desc = {"slots": n_slots, "ready_profile": ready_profile, "p_ready": p_ready, "kind_weights": kind_weights, "first": []}
    res.sig(n_slots, ready_profile, p_ready, kind_weights)

    b = Bench(dut, domain="ss", freq=125e6, max_cycles=n_slots * 120 + 500)
    hdr = src.header
    b.watch(itf.send_ack, itf.send_stall, itf.send_nrdy, itf.send_erdy, itf.endpoint_number, itf.retry_required,
            itf.next_sequence, itf.ready, itf.done, dut.address, src.valid, src.ready, hdr.dw0, hdr.dw1, hdr.dw2)

    seen = set()

    def report(mech, detail):
        if mech not in seen:
            seen.add(mech)
            res.violation(mech, detail)

    # ---------------------------------------------------------------- drivers
    def rand_fields():
        ep = rng.randrange(16) if rng.random() < 0.93 else rng.randrange(16, 128)
        return {"address": rng.choice([rng.randrange(128), rng.randrange(64, 128), 0x7F, 0, 1 << rng.randrange(7)]),
                "endpoint": ep, "retry": rng.randrange(2),
                "sequence": rng.choice([rng.randrange(32), rng.randrange(16, 32), 31, 0, 1 << rng.randrange(5)])}

    def mutate_fields(f):
        how = rng.choice(["random", "invert", "onebit", "onebit"])
        if how == "random":
            return rand_fields(), how
        if how == "invert":
            return {"address": f["address"] ^ 0x7F, "endpoint": f["endpoint"] ^ 0xF, "retry": f["retry"] ^ 1, "sequence": f["sequence"] ^ 0x1F}, how
        g = dict(f)
        which = rng.choice(["address", "endpoint", "retry", "sequence"])
        g[which] ^= 1 << rng.randrange({"address": 7, "endpoint": 4, "retry": 1, "sequence": 5}[which])
        return g, how

    def set_fields(f):
        b.set(dut.address, f["address"]); b.set(itf.endpoint_number, f["endpoint"])
        b.set(itf.retry_required, f["retry"]); b.set(itf.next_sequence, f["sequence"])

    def set_strobes(kinds):
        for k, s in strobe_sig.items():
            b.set(s, 1 if k in kinds else 0)

    def requester():
        set_strobes(())
        set_fields(rand_fields())
        yield
        for slot in range(n_slots):
            kind = rng.choices(KINDS, kind_weights)[0]
            kinds = [kind]
            if rng.random() < 0.03:
                kinds.append(rng.choice([k for k in KINDS if k != kind]))
            f = rand_fields()
            placement = rng.choice(["delayed", "first_ready", "first_ready", "held", "delayed"])
            field_timing = rng.choice(["stable_before", "request_cycle_only", "request_cycle_only"])
            if len(res.desc["first"]) < 6:
                res.desc["first"].append((kinds, f, placement, field_timing))
            res.sig(kinds, sorted(f.items()), placement, field_timing)
            # wait until the generator is ready again (bounded); strobes of another kind while it is busy
            waited = 0
            while not b.get(itf.ready):
                if rng.random() < 0.3:
                    set_strobes([rng.choice(KINDS)])
                    set_fields(rand_fields())
                else:
                    set_strobes(())
                    if rng.random() < 0.5:
                        g, _ = mutate_fields(f)
                        set_fields(g)
                        res.bin("fields_changed_while_header_waits")
                yield
                waited += 1
                if waited > 400:
                    report("generator_never_ready_again", "interface.ready low for 400 cycles at cycle %d" % b.cycle)
                    return
            # the last sampled cycle had ready high.  (If one of the "busy" strobes above fell into it, that strobe was a request
            # on the very first ready cycle - the monitor counts and judges it - and the request below is made while busy.)
            set_strobes(())
            if placement == "delayed":
                if field_timing == "stable_before":
                    set_fields(f)
                for _ in range(rng.randint(1, 4)):
                    yield
            elif field_timing == "stable_before":
                set_fields(f)
            # request cycle
            set_fields(f)
            if field_timing == "request_cycle_only":
                res.bin("fields_set_in_request_cycle")
            set_strobes(kinds)
            yield
            hold = rng.randint(1, 2) if placement == "held" else 0
            if hold:
                res.bin("strobe_held")
            # the cycle after the request: fields move on
            if field_timing == "request_cycle_only" or rng.random() < 0.5:
                g, how = mutate_fields(f)
                set_fields(g)
                res.bin("fields_changed_cycle_after_request")
                if how == "onebit":
                    res.bin("single_bit_field_change")
            if hold:
                for _ in range(hold):
                    yield
            set_strobes(())
            yield
        # drain
        set_strobes(())
        for _ in range(60):
            yield

    def queue_ready():
        mode = ready_profile
        stall = 0
        run = 0
        prev_valid = 0
        t = 0
        while True:
            t += 1
            m = mode
            if mode == "mixed":
                m = ["always", "random", "stalls", "pulses", "drop_on_valid"][(t // 97) % 5]
            valid = b.get(src.valid)
            if t > n_slots * 120:           # never starve the end of the case
                r = 1
            elif m == "always":
                r = 1
            elif m == "random":
                r = rng.random() < p_ready
            elif m == "stalls":
                if stall:
                    stall -= 1; r = 0
                elif run:
                    run -= 1; r = 1
                else:
                    stall = rng.randint(3, 25); run = rng.randint(1, 6); r = 0
            elif m == "pulses":
                r = rng.random() < 0.12
            else:   # drop_on_valid: ready while nothing is offered, falls when the header appears
                if valid and not prev_valid:
                    stall = rng.randint(1, 6)
                if stall:
                    stall -= 1; r = 0
                else:
                    r = 1
            prev_valid = valid
            b.set(src.ready, r)
            yield

    # ---------------------------------------------------------------- monitor + oracle
    pending = []          # requests not yet answered
    unnamed = {}          # kind -> (bits outside the named fields of the first packet of that kind, its context)
    want_done = []        # transfer cycles waiting for their done pulse
    st = {"prev_wait": None, "valid_since": None, "prev_ready": 1}

    def monitor(b):
        t = b.cycle
        rdy = b.get(itf.ready)
        kinds = [k for k in KINDS if b.get(strobe_sig[k])]
        res.event("ready_cycles" if rdy else "busy_cycles")
        if kinds and rdy:
            if not st["prev_ready"]:
                res.bin("request_on_first_ready_cycle")
            f = {"address": b.get(dut.address), "endpoint": b.get(itf.endpoint_number), "retry": b.get(itf.retry_required),
                 "sequence": b.get(itf.next_sequence)}
            pending.append({"kinds": kinds, "fields": f, "cycle": t})
            res.event("requests_accepted")
            if len(kinds) == 1:
                res.bin("request_" + kinds[0])
                if kinds[0] == "ack":
                    res.bin("ack_retry_%d" % f["retry"])
                    if f["sequence"] >= 16:
                        res.bin("ack_sequence_ge_16")
            else:
                res.bin("double_strobe")
                res.unjudged += 1
            if f["address"] >= 64:
                res.bin("address_ge_64")
        elif kinds:
            res.bin("strobe_while_busy")
        st["prev_ready"] = rdy

        valid, qready = b.get(src.valid), b.get(src.ready)
        dw0, dw1, dw2 = b.get(hdr.dw0), b.get(hdr.dw1), b.get(hdr.dw2)
        if valid:
            if st["valid_since"] is None:
                st["valid_since"] = t
            if st["prev_wait"] is not None and st["prev_wait"] != (dw0, dw1, dw2):
                report("header_changed_while_waiting", "cycle %d: header %08x %08x %08x -> %08x %08x %08x while valid and not yet taken"
                       % ((t,) + st["prev_wait"] + (dw0, dw1, dw2)))
        if valid and qready:
            res.event("headers_transferred")
            res.bin("header_waited_for_ready" if st["valid_since"] != t else "header_taken_immediately")
            want_done.append(t)
            if not pending:
                report("packet_without_request", "cycle %d: header %08x %08x transferred although no request is outstanding" % (t, dw0, dw1))
            else:
                rq = pending.pop(0)
                got = decode(dw0, dw1)
                f = rq["fields"]
                ctx = "request %s at cycle %d with %s -> header at cycle %d dw0=%08x dw1=%08x %s" % (
                    "+".join(rq["kinds"]), rq["cycle"], f, t, dw0, dw1, got)
                res.event("headers_compared")
                if got["type"] != TP_TYPE:
                    report("not_a_transaction_packet", ctx)
                wanted = [SUBTYPE[k] for k in rq["kinds"]]
                if got["subtype"] not in wanted:
                    if "erdy" in rq["kinds"] and got["subtype"] == SUBTYPE["nrdy"]:
                        report("erdy_request_sends_nrdy_packet", ctx)
                    else:
                        report("wrong_subtype", ctx)
                if got["address"] != f["address"]:
                    report("device_address_not_from_request_cycle", ctx)
                if f["endpoint"] < 16:
                    if got["endpoint"] != f["endpoint"]:
                        report("endpoint_number_not_from_request_cycle", ctx)
                else:
                    res.unjudged += 1
                if got["subtype"] == SUBTYPE["ack"] and rq["kinds"] == ["ack"]:
                    if got["retry"] != f["retry"]:
                        report("retry_flag_not_from_request_cycle", ctx)
                    if got["sequence"] != f["sequence"]:
                        report("sequence_number_not_from_request_cycle", ctx)
                # bits the statement does not name (route string, direction, number of packets, reserved bits, DW2; for
                # NRDY / ERDY / STALL also the bit positions an ACK uses for retry and sequence): the interface has no input for
                # them, so for one kind of request they cannot depend on anything - they must be the same in every packet.
                if len(rq["kinds"]) == 1 and got["subtype"] == wanted[0]:
                    kind = rq["kinds"][0]
                    m1 = 0xFFFFFFFF & ~(0xF | (0xF << 8) | (((1 << 6) | (0x1F << 21)) if kind == "ack" else 0))
                    rest = (dw0 & 0x01FFFFE0, dw1 & m1, dw2)
                    if kind not in unnamed:
                        unnamed[kind] = (rest, ctx)
                    else:
                        res.event("unnamed_bits_compared")
                        res.bin("unnamed_bits_compared_" + kind)
                        if unnamed[kind][0] != rest:
                            report("unnamed_bits_depend_on_request_fields",
                                   "%s packets differ outside the requested fields: route/dw1-rest/dw2 %08x %08x %08x here, %08x %08x %08x before (%s); now: %s"
                                   % ((kind.upper(),) + rest + unnamed[kind][0] + (unnamed[kind][1], ctx)))
        if valid and not qready:
            st["prev_wait"] = (dw0, dw1, dw2)
        else:
            st["prev_wait"] = None
        if not valid or qready:
            st["valid_since"] = None
        # bounded response: the header for the oldest request must be offered soon
        if pending and not valid and t - pending[0]["cycle"] > MAX_VALID_WAIT:
            rq = pending.pop(0)
            report("request_not_answered", "request %s at cycle %d: no header offered within %d cycles" % (rq["kinds"], rq["cycle"], MAX_VALID_WAIT))
        # done pairing
        if b.get(itf.done):
            res.event("done_pulses")
            if want_done and t - want_done[0] <= MAX_DONE_LAG:
                want_done.pop(0)
            else:
                report("done_without_packet", "cycle %d: done pulsed, no header transfer in the last %d cycles is waiting for it" % (t, MAX_DONE_LAG))
        if want_done and t - want_done[0] > MAX_DONE_LAG:
            report("done_missing", "header transferred at cycle %d: no done pulse within %d cycles" % (want_done.pop(0), MAX_DONE_LAG))

    b.add_driver(requester())
    b.add_driver(queue_ready(), main=False)
    b.add_monitor(monitor)
    b.run()
    res.cycles = b.cycle
    if b.hit_max_cycles:
        report("case_did_not_finish", "max_cycles reached")
    if pending:
        report("request_not_answered", "request %s at cycle %d still unanswered at the end of the case (cycle %d)"
               % (pending[0]["kinds"], pending[0]["cycle"], b.cycle))
    bins = res.bins
    res.nontrivial = all(bins.get("request_" + k) for k in KINDS) and bins.get("fields_changed_cycle_after_request", 0) >= 10 \
        and bins.get("header_waited_for_ready", 0) >= 10
