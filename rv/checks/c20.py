"""C20 — everything the USB2 device transmits is a well-formed, solicited packet.

DUT: real ``USBDevice(bus=UTMIInterface())`` with the standard control endpoint (device / configuration / string
descriptors), one or two ``USBStreamInEndpoint`` (fed densely or sparsely, so data and NAK both occur), one or two
``USBStreamOutEndpoint`` (consumer ready / random / stalled, so ACK and NAK both occur) and a ``USBSignalInEndpoint``,
in random multiplexer order.  Three timing variants: the 12 MHz full-speed tables (bare UTMI bus), the 60 MHz tables
at full speed (``always_fs=False``, ``full_speed_only`` held) and high speed, reached through the device's own reset
sequencer (SE0, device chirp, host K/J chirps; the *duration constant* of the device chirp is scaled from 2 ms to
10 us while the design is elaborated, as in C13 -- nothing else is touched), which also exercises the third
transmitter (the chirp generator).

Workload: one case = one session of 45-70 host operations of a *legal* host (it sends a packet only when the bus is
free: after the device's packet has ended or after the bus time-out -- drawn per session between the spec minimum and
a generous value -- with legal turn-around / inter-packet gaps): control transfers (GET_DESCRIPTOR of all kinds and
lengths incl. 0 / exact multiples / unknown descriptors, GET_STATUS, GET/SET_CONFIGURATION, SET_ADDRESS (the
session continues at the new address), CLEAR_FEATURE, unsupported standard / class / vendor requests, control-OUT
with a data stage, data packets left un-ACKed and retried, transfers abandoned at any stage by a new SETUP, early
status stage), bulk IN (ACKed / not ACKed + retry), bulk OUT (all lengths, expected and repeated toggles, consumer
stalled), status-endpoint polls, PING (high speed), SOFs, IN / OUT to endpoint numbers that do not exist or in the
wrong direction, complete transactions with OTHER device addresses (tokens, data and the host's ACKs), FS bus resets
in mid-session, all UTMI rx byte-gap profiles and all tx_ready back-pressure profiles.  A quarter of the sessions
additionally damage a few host packets on the wire (CRC5 / CRC16 / PID check / truncation): responses that follow a
damaged packet are judged for form, single source and overlap but not for solicitation (counted as unjudged).

Monitors: (1) every cycle of the UTMI ``tx_valid/tx_ready/tx_data`` and ``rx_active``; (2) registry taps on the three
transmitters that feed the ``UTMIInterfaceMultiplexer`` (``USBResetSequencer.tx``, ``USBDataPacketGenerator.tx``,
``USBHandshakeGenerator.tx``): ``valid`` of each, every cycle; (3) the host's own wire log (what was sent, when, to
which address).

Oracle (invariants written from the statement and USB 2.0 ch. 8; no luna code):
 * every cycle: at most one of the three transmitters drives ``valid``; ``tx_valid`` never while ``rx_active``;
 * every packet (contiguous ``tx_valid``): one transmitter from the first to the last cycle; at least one byte
   accepted; the accepted bytes are a one-byte handshake (ACK/NAK/STALL/NYET with correct check nibble) or a DATAx
   packet whose last two bytes are the reference CRC16 of the payload;
 * chirp (reset sequencer) only inside the harness's bus-reset phase;
 * every non-chirp packet is *solicited*: the last host packet before it is a good IN or PING token for the device's
   current address, or a data packet that directly follows a good OUT / SETUP token for the device's current address;
   no second device packet follows the same host packet; the answer starts within 2x the host's bus time-out;
 * the kind of answer is admissible for what solicited it (USB 2.0 8.4.5 / 8.5): IN -> DATAx, NAK or STALL; OUT data
   and PING -> a handshake; SETUP data -> ACK only.  (Separate mechanism names: `answer_kind_*`.)

Known findings (findings/C20.md; each classifier is narrow, every other deviation keeps its own mechanism name):
 * `unsolicited_zlp_stream_from_distributed_descriptor_handler` - only on devices built with avoid_blockram=True, while the
   current control request is a GET_DESCRIPTOR, for a run of >= 2 short (<= 8 byte) device packets <= 5 cycles apart, each started
   by the data packet generator, whose first packet is a clean zero-length data packet: whatever the monitors report inside that run (unsolicited /
   second packet, tx while rx_active, two transmitters, source change, CRC16) is reported once under this name, and the
   run's packets (all but the first) do not take part in the solicitation bookkeeping of later packets.  "Aftermath": such
   a stream can leave another endpoint (seen: the status endpoint) stuck in the middle of its packet with tx.valid high;
   the next transmission of any endpoint releases its `valid & last`, which starts the same kind of stream; a run of >= 3
   such packets containing a clean ZLP *after* a primary stream in the same session is folded into the same finding;
 * `ack_handshake_answers_status_in_of_in_request_with_wlength_0` - ACK handshake to an IN token for endpoint 0 while the
   current control request is device-to-host with wLength = 0;
 * `ack_handshake_answers_status_in_after_unfinished_control_transfer` - ACK handshake to an IN token for endpoint 0 after
   the host left an earlier control transfer unfinished and no control transfer has completed since (C07's stale state;
   marked `fixed` since C07's patch is in /repo: it suppresses nothing any more).

Not judged: which handshake / which data is correct (C07-C17), latency below the bus time-out (C05), stability of
``tx_data`` while ``tx_ready`` is low (C03), the device's behaviour under an illegal host (overlapping packets,
babble, missing data phase).  A ``tx_valid`` cycle that none of the three tapped transmitters drives (a fourth source
after a refactor) raises an error => the run is INCONCLUSIVE, never "held".
Deviation from DESIGN section 7: the wire-fault share (design: legal-host flag always on) and the admissibility rule.
"""
from rv.ref import usb2 as U

PROPERTY = "C20"
CASES = {"quick": 160, "thorough": 2400}
RULE = ("case = one session on a device with control + 1-2 bulk IN + 1-2 bulk OUT + status endpoints (random numbers / packet "
        "sizes / mux order / fs12|fs60|hs timing / bus time-out / rx gap and tx_ready profiles): 45-70 legal-host operations "
        "(control transfers incl. aborted / stalled / un-ACKed, bulk IN/OUT, polls, PING, SOF, absent endpoints, foreign "
        "addresses, bus resets, optional wire faults); non-trivial = data, ACK, NAK and STALL all transmitted and >=1 "
        "foreign-address transaction; distinct = hash of configuration + operation list")
REQUIRED_BINS = ["fs12_session", "fs60_session", "hs_session", "chirp_packet_seen", "answer_to_in_data", "answer_to_in_nak",
                 "answer_to_in_stall", "answer_to_out_data_ack", "answer_to_out_data_nak", "answer_to_setup_ack",
                 "answer_to_ping", "silence_after_in", "silence_after_out_data", "foreign_in_with_host_ack", "foreign_out_data",
                 "foreign_setup", "sof_sent", "in_data_not_acked", "setup_abandons_transfer", "control_out_data_stage",
                 "control_stalled", "address_changed", "bus_reset_mid_session", "host_timeout_minimal",
                 "tx_stall_before_first_byte", "tx_stall_mid_packet", "data_then_handshake_sources_alternate",
                 "handshake_right_after_data_packet", "wire_fault_session",
                 "host_packet_min_gap_after_device_packet", "zlp_transmitted", "max_size_data_packet",
                 "rx_active_trails_last_byte", "rx_active_trails_by_3_or_more", "data_packet_above_64_bytes", "out_data_above_64_bytes"]
# (bin "answer_after_damaged_packet_unjudged" is informative only: whether a device answers after a damaged packet at all
#  depends on the device, so it must not be able to make the run inconclusive)
REQUIRED_EVENTS = ["cycles_monitored", "device_packets", "data_packets", "handshake_packets", "host_packets",
                   "solicitation_checks", "wellformed_checks", "source_data_cycles", "source_handshake_cycles",
                   "source_chirp_cycles", "packets_single_source_checked", "rx_active_cycles", "payload_vs_offered_checks",
                   "stream_bytes_offered"]
ASSUMPTIONS = ["legal host: a packet is sent only after the device's packet has ended or after the bus time-out (>= 18 bit times FS, >= 816 HS), "
               ">= 2 idle cycles between packets, handshakes within the device's time-out",
               "answers that follow a deliberately damaged host packet are not judged for solicitation",
               "high-speed sessions use the real reset sequencer with the device-chirp duration constant scaled from 2 ms to 10 us",
               "the device's address is what the last completed SET_ADDRESS / bus reset made it (a failed SET_ADDRESS is followed by a port reset); foreign = any other address, preferably one bit away"]

HS_CHIRP_CYCLES = 600


def _descriptors(in_eps, out_eps, sig_ep, USBTransferType):
    from usb_protocol.emitters import DeviceDescriptorCollection
    d = DeviceDescriptorCollection()
    with d.DeviceDescriptor() as dd:
        dd.idVendor = 0x1209
        dd.idProduct = 0x0C20
        dd.iManufacturer = "rv-manufacturer-string-31-chars"        # 2 + 2*31 = 64 bytes: exactly one max-size packet
        dd.iProduct = "c20 full device: this product string has sixty-three characters"   # 128 bytes: exactly two
        dd.iSerialNumber = "serial-number-string-of-95-characters-" + "0123456789" * 5 + "abcdefg"    # 192 bytes: three packets, not a power of two
        dd.bNumConfigurations = 1
    with d.ConfigurationDescriptor() as c:
        with c.InterfaceDescriptor() as i:
            i.bInterfaceNumber = 0
            for n, mps in in_eps:
                with i.EndpointDescriptor() as e:
                    e.bEndpointAddress = 0x80 | n
                    e.wMaxPacketSize = mps
                    e.bmAttributes = USBTransferType.BULK
            for n, mps in out_eps:
                with i.EndpointDescriptor() as e:
                    e.bEndpointAddress = n
                    e.wMaxPacketSize = mps
                    e.bmAttributes = USBTransferType.BULK
            with i.EndpointDescriptor() as e:
                e.bEndpointAddress = 0x80 | sig_ep
                e.wMaxPacketSize = 8
                e.bmAttributes = USBTransferType.INTERRUPT
                e.bInterval = 4
    return d


def run_case(rng, tier, res):
    from rv.sim import Bench, Registry
    from rv.usb2host import UTMIHost, init_device_signals
    from luna.gateware.interface.utmi import UTMIInterface
    from luna.gateware.usb.usb2.device import USBDevice
    from luna.gateware.usb.usb2.packet import USBDataPacketGenerator, USBHandshakeGenerator
    from luna.gateware.usb.usb2.reset import USBResetSequencer
    from luna.gateware.usb.usb2.endpoints.status import USBSignalInEndpoint
    from luna.gateware.usb.usb2.endpoints.stream import USBStreamInEndpoint, USBStreamOutEndpoint
    from usb_protocol.types import USBTransferType

    # ------------------------------------------------------------------ configuration
    mode = rng.choice(["fs12"] * 12 + ["fs60"] * 4 + ["hs"] * 4)
    numbers = rng.sample(range(1, 16), 5)
    n_in = rng.choice([1, 1, 2])
    n_out = rng.choice([1, 1, 2])
    in_sizes, out_sizes = ([8, 16, 32, 64], [8, 16, 64]) if mode != "hs" else ([64, 512, 512, 128], [64, 512, 256])
    in_eps = [(numbers[i], rng.choice(in_sizes)) for i in range(n_in)]
    out_eps = [(numbers[2 + i] if rng.random() < 0.6 else numbers[i % n_in], rng.choice(out_sizes)) for i in range(n_out)]
    if len({n for n, _ in out_eps}) != len(out_eps):
        out_eps = out_eps[:1]
    sig_ep = numbers[4]
    sig_width = rng.choice([8, 16, 24, 32])
    used_in = {n for n, _ in in_eps} | {sig_ep}
    used_out = {n for n, _ in out_eps}
    absent = [n for n in range(1, 16) if n not in used_in and n not in used_out]
    gap_profile = rng.choice(["none", "none", "random", "fixed4", "onestall"]) if mode == "fs12" else rng.choice(["none", "random", "fixed4"])
    ready_profile = rng.choice(["always", "always", ("random", 0.5), ("random", 0.85), ("every", 2), ("every", 3), ("bursty", 6, 6)])
    feed = {n: rng.choice(["dense", "dense", "sparse", "never"]) for n, _ in in_eps}
    consume = {n: rng.choice(["always", "always", "random", "stalled"]) for n, _ in out_eps}
    wire_faults = rng.random() < 0.3
    trailing = rng.random() < 0.6          # rx_active outlasts the last byte of host packets by 0..6 cycles
    avoid_blockram = rng.random() < 0.35
    order_seed = rng.randrange(1 << 16)
    timeout_min = {"fs12": 18, "fs60": 90, "hs": 102}[mode]
    timeout_max = {"fs12": 40, "fs60": 130, "hs": 130}[mode]
    bus_timeout = rng.choice([timeout_min, timeout_min, timeout_min + 2, rng.randint(timeout_min, timeout_max), timeout_max])

    cfg = {"mode": mode, "in": in_eps, "out": out_eps, "sig": (sig_ep, sig_width), "gap_profile": gap_profile,
           "ready_profile": ready_profile, "feed": feed, "consume": consume, "wire_faults": wire_faults, "bus_timeout": bus_timeout, "avoid_blockram": avoid_blockram, "rx_active_trailing": trailing}
    res.desc = dict(cfg, ops=[])
    res.sig(sorted(cfg.items(), key=str), order_seed)
    res.bin(mode + "_session")
    if wire_faults:
        res.bin("wire_fault_session")
    if bus_timeout <= timeout_min + 2:
        res.bin("host_timeout_minimal")

    # ------------------------------------------------------------------ device
    utmi = UTMIInterface()
    dev = USBDevice(bus=utmi)
    if mode != "fs12":
        dev.always_fs = False
        dev.data_clock = 60e6
    dev.add_standard_control_endpoint(_descriptors(in_eps, out_eps, sig_ep, USBTransferType), **({"avoid_blockram": True} if avoid_blockram else {}))
    blocks = []
    ep_in = {}
    ep_out = {}
    for n, mps in in_eps:
        ep_in[n] = USBStreamInEndpoint(endpoint_number=n, max_packet_size=mps)
        blocks.append(ep_in[n])
    for n, mps in out_eps:
        ep_out[n] = USBStreamOutEndpoint(endpoint_number=n, max_packet_size=mps)
        blocks.append(ep_out[n])
    sig = USBSignalInEndpoint(width=sig_width, endpoint_number=sig_ep, endianness=rng.choice(["little", "big"]))
    blocks.append(sig)
    import random as _random
    _random.Random(order_seed).shuffle(blocks)
    for blk in blocks:
        dev.add_endpoint(blk)

    saved_chirp = USBResetSequencer._CYCLES_2_MILLISECONDS
    if mode == "hs":
        USBResetSequencer._CYCLES_2_MILLISECONDS = HS_CHIRP_CYCLES
    try:
        with Registry(USBDataPacketGenerator, USBHandshakeGenerator, USBResetSequencer) as reg:
            b = Bench(dev, domain="usb", freq=60e6, max_cycles=120000)
    finally:
        USBResetSequencer._CYCLES_2_MILLISECONDS = saved_chirp
    src_objs = [reg.one(USBResetSequencer), reg.one(USBDataPacketGenerator), reg.one(USBHandshakeGenerator)]
    SRC_NAMES = ("reset_sequencer(chirp)", "data_packet_generator", "handshake_generator")
    src_valid = [o.tx.valid for o in src_objs if o is not None]
    taps_ok = len(src_valid) == 3
    if taps_ok:
        b.watch(*src_valid)
        gen_stream = src_objs[1].stream
        b.watch(gen_stream.valid, gen_stream.ready, gen_stream.payload)

    class Host(UTMIHost):
        """host model + wire log with meta data (own file: the shared host is not edited)"""
        def __init__(self, *a, **k):
            super().__init__(*a, **k)
            self.hlog = []           # dicts: start, end (first / last cycle with rx_active high), bytes, addr (device address then), damaged
            self.dev_addr = 0
            self.damage_next = False

        def send_raw(self, data, **kw):
            start = self.b.cycle + 1
            damaged = self.damage_next or kw.get("abort_after") is not None
            self.damage_next = False
            if "trail" not in kw and trailing:
                # UTMI: RXActive may stay high for some cycles after the last RXValid byte (EOP detection); the packet is
                # "in progress" until it falls, so the device's turn-around must be counted from there
                kw["trail"] = rng.choice([0, 1, 2, 3, 4, 6])
                if kw["trail"]:
                    res.bin("rx_active_trails_last_byte")
                    if kw["trail"] >= 3:
                        res.bin("rx_active_trails_by_3_or_more")
            yield from UTMIHost.send_raw(self, data, **kw)
            _, sent = self.sent[-1]
            self.hlog.append({"start": start, "end": self.b.cycle - 1, "bytes": bytes(sent), "addr": self.dev_addr, "damaged": damaged})
            res.event("host_packets")

    host = Host(b, utmi, rng, timing={"fs12": "fs12", "fs60": "fs60", "hs": "hs60"}[mode], ready_profile=ready_profile, gap_profile=gap_profile)
    host.timing["window"] = bus_timeout
    b.watch(dev.speed)
    for n, e in ep_in.items():
        b.watch(e.stream.ready)
    for n, e in ep_out.items():
        b.watch(e.stream.valid)
    b.watch(sig.signal)

    # ------------------------------------------------------------------ monitors
    raw = []                      # (cycle, mechanism, detail): emitted after the session (see the classifier at the end)
    ops_all = []                  # (cycle, text) of every host operation

    def viol(cycle, mech, detail):
        if len(raw) < 400:
            raw.append((cycle, mech, detail))

    def ops_at(cycle):
        return [t for c, t in ops_all if c <= cycle][-6:]

    dpk = []                      # device packets: first_valid, end, data, stalls, src (set), src_changed, rx_overlap
    st = {"cur": None, "stall": 0, "ready_prev": 0, "offered": []}
    reset_phases = []             # [start, end] cycles in which the harness drives a bus reset (chirp allowed)

    def in_reset_phase(c):
        return any(s <= c <= (e if e is not None else 1 << 60) for s, e in reset_phases)

    def monitor(b):
        res.event("cycles_monitored")
        valid = b.get(utmi.tx_valid)
        rxa = b.get(utmi.rx_active)
        if rxa:
            res.event("rx_active_cycles")
        if taps_ok:
            s = tuple(b.get(v) for v in src_valid)
        else:
            s = (0, 0, 0)
        n = s[0] + s[1] + s[2]
        if s[0]:
            res.event("source_chirp_cycles")
        if s[1]:
            res.event("source_data_cycles")
        if s[2]:
            res.event("source_handshake_cycles")
        if n > 1:
            viol(b.cycle, "two_transmitters_active", "cycle %d: %s drive tx valid at the same time (tx_data=%02x); ops=%s"
                          % (b.cycle, " + ".join(SRC_NAMES[i] for i in range(3) if s[i]), b.get(utmi.tx_data), res.desc["ops"][-6:]))
        if valid and n == 0 and taps_ok:
            raise RuntimeError("monitor blind: tx_valid high at cycle %d but none of the three tapped transmitters drives it" % b.cycle)
        if n and not valid:
            # A transmitter asks but the multiplexer does not raise tx_valid: nothing is put on the bus in this cycle.  The
            # statement is about what IS transmitted, so this alone is no violation (a missing answer is C03/C04/C07...);
            # if it happens inside a packet, the bus sees a split / truncated packet, which the packet rules below catch.
            res.event("transmitter_valid_not_on_bus_cycles")
        if valid and rxa:
            viol(b.cycle, "tx_while_rx_active", "cycle %d: tx_valid while a host packet is still being received (rx_active); source %s; ops=%s"
                          % (b.cycle, [SRC_NAMES[i] for i in range(3) if s[i]], res.desc["ops"][-6:]))
        if taps_ok and b.get(gen_stream.valid) and b.get(gen_stream.ready):
            st["offered"].append(b.get(gen_stream.payload))       # a byte the endpoints handed to the data packet generator
            res.event("stream_bytes_offered")
        if valid:
            cur = st["cur"]
            if cur is None:
                cur = st["cur"] = {"first_valid": b.cycle, "data": bytearray(), "stalls": [], "src": s, "src_changed": None,
                                   "ready_before_valid": st["ready_prev"]}
                st["stall"] = 0
            elif s != cur["src"] and cur["src_changed"] is None:
                cur["src_changed"] = (b.cycle, s)
            if s[0] and not in_reset_phase(b.cycle):
                if not cur.get("chirp_outside"):
                    cur["chirp_outside"] = b.cycle
            if b.get(utmi.tx_ready):
                if len(cur["data"]) < 4096:
                    cur["data"].append(b.get(utmi.tx_data))
                    cur["stalls"].append(st["stall"])
                st["stall"] = 0
            else:
                st["stall"] += 1
        elif st["cur"] is not None:
            st["cur"]["end"] = b.cycle - 1
            if st["cur"]["src"][1]:
                st["cur"]["offered"] = bytes(st["offered"])      # everything offered since the previous data-generator packet
                st["offered"] = []
            dpk.append(st["cur"])
            st["cur"] = None
        st["ready_prev"] = b.get(utmi.tx_ready)

    b.add_monitor(monitor)

    # ------------------------------------------------------------------ background processes
    def feeder(n, e):
        s = e.stream
        i = 0
        kind = feed[n]
        if kind == "never":
            while True:
                yield
        while True:
            if kind == "sparse":
                for _ in range(rng.randint(20, 400)):
                    yield
            burst = rng.choice([1, 3, e._max_packet_size, e._max_packet_size, 2 * e._max_packet_size, rng.randint(1, 100)])
            for k in range(burst):
                b.set(s.valid, 1)
                b.set(s.payload, (n * 31 + i) & 0xFF)
                b.set(s.last, 1 if k == burst - 1 else 0)
                i += 1
                yield
                while not b.get(s.ready):
                    yield
            b.set(s.valid, 0)
            if kind == "dense" and rng.random() < 0.7:
                continue
            yield

    def consumer(n, e):
        kind = consume[n]
        while True:
            if kind == "always":
                b.set(e.stream.ready, 1)
            elif kind == "random":
                b.set(e.stream.ready, 1 if rng.random() < 0.3 else 0)
            else:
                b.set(e.stream.ready, 1 if rng.random() < 0.02 else 0)
            yield

    def sig_driver():
        while True:
            b.set(sig.signal, rng.getrandbits(sig_width))
            for _ in range(rng.randint(1, 30)):
                yield

    for n, e in ep_in.items():
        b.add_driver(feeder(n, e), main=False)
    for n, e in ep_out.items():
        b.add_driver(consumer(n, e), main=False)
    b.add_driver(sig_driver(), main=False)

    # ------------------------------------------------------------------ legal host operations
    tog_out = {n: 0 for n in used_out}
    foreign = [a for a in rng.sample(range(1, 128), 6)]
    ops = res.desc["ops"]

    def log(*items):
        if len(ops) >= 60:
            del ops[0]
        ops.append(" ".join(str(i) for i in items))
        ops_all.append((b.cycle, ops[-1]))
        res.sig(items)

    def maybe_damage():
        if wire_faults and not state.get("no_damage") and rng.random() < 0.10:
            host.damage_next = True
            return True
        return False

    def send_token(pid, a, e):
        if maybe_damage():
            tok = bytearray(U.token(pid, a, e))
            how = rng.choice(["crc5", "pid", "trunc"])
            if how == "crc5":
                tok[rng.randrange(1, 3)] ^= 1 << rng.randrange(8)
                yield from host.send_raw(bytes(tok))
            elif how == "pid":
                tok[0] ^= 1 << rng.randrange(4, 8)
                yield from host.send_raw(bytes(tok))
            else:
                yield from host.send_raw(bytes(tok), abort_after=rng.randint(1, 2))
            return False
        yield from host.token(pid, a, e)
        return True

    def send_data(pid, payload):
        if maybe_damage():
            pkt = bytearray(U.data(pid, payload))
            how = rng.choice(["crc16", "crc16", "trunc"])
            if how == "crc16" or len(pkt) < 4:
                pkt[rng.randrange(1, len(pkt))] ^= 1 << rng.randrange(8)
                yield from host.send_raw(bytes(pkt))
            else:
                yield from host.send_raw(bytes(pkt), abort_after=rng.randint(1, len(pkt) - 1))
            return False
        yield from host.data(pid, payload)
        return True

    def token_gap():
        """idle between an OUT/SETUP token and its data packet"""
        yield from host.idle(rng.randint(2, 4) if mode == "fs12" else rng.randint(2, 12))

    def response():
        """wait for the device's packet or the bus time-out; afterwards the bus is free again"""
        pkt = yield from host.wait_response(bus_timeout)
        if pkt is None:
            return None
        info = U.classify(bytes(pkt.data))
        info["pkt"] = pkt
        return info

    def after_device_packet():
        yield from host.turnaround()

    def op_in(a, e, ackmode="ack"):
        ok = yield from send_token(U.IN, a, e)
        r = yield from response()
        if r is None:
            if ok and a == host.dev_addr:
                res.bin("silence_after_in")
            yield from host.idle(rng.randint(0, 3))
            return None
        if r["kind"] == "data":
            if ackmode == "ack":
                yield from after_device_packet()
                yield from host.handshake(U.ACK)
            else:
                res.bin("in_data_not_acked")
                yield from host.idle(rng.randint(0, 4))
        else:
            yield from after_device_packet()
        return r

    def op_out(a, e, pid, payload, token_pid=U.OUT):
        ok1 = yield from send_token(token_pid, a, e)
        yield from token_gap()
        ok2 = yield from send_data(pid, payload)
        r = yield from response()
        if r is None:
            if ok1 and ok2 and a == host.dev_addr:
                res.bin("silence_after_out_data")
            yield from host.idle(rng.randint(0, 3))
            return None
        yield from after_device_packet()
        return r

    def is_hs(r, pid):
        return r is not None and r["kind"] == "handshake" and r["pid"] == pid

    def control(setup8, *, data_out=None, abandon_after=None, early_status=False, noack_p=0.0):
        """one control transfer of a legal host; `abandon_after` = number of transactions after which the host gives up
        (the next operation may be a new SETUP)"""
        a = host.dev_addr
        done = 0
        ctl_log.append((b.cycle + 1, bytes(setup8), ctl_state["stale"]))

        def abandoned():
            return abandon_after is not None and done >= abandon_after

        r = yield from op_out(a, 0, U.DATA0, setup8, token_pid=U.SETUP)
        done += 1
        if not is_hs(r, U.ACK) or abandoned():
            return "setup_not_acked" if not is_hs(r, U.ACK) else "abandoned"
        yield from host.gap()
        wlength = setup8[6] | (setup8[7] << 8)
        dir_in = bool(setup8[0] & 0x80)
        stalled = False
        if wlength and dir_in:
            got = 0
            naks = 0
            for _ in range(40):
                r = yield from op_in(a, 0, "none" if rng.random() < noack_p else "ack")
                done += 1
                yield from host.gap()
                if r is None or abandoned():
                    return "abandoned"
                if is_hs(r, U.STALL):
                    stalled = True
                    break
                if is_hs(r, U.NAK):
                    naks += 1
                    if naks > 12:
                        return "nak_limit"
                    continue
                if r["kind"] != "data":
                    return "odd"
                got += len(r["payload"])
                if len(r["payload"]) < 64 or got >= wlength:
                    break
                if early_status and rng.random() < 0.4:
                    break
            if stalled:
                res.bin("control_stalled")
                return "stalled"
            # status stage: OUT zero-length DATA1
            for _ in range(8):
                r = yield from op_out(a, 0, U.DATA1, b"")
                done += 1
                yield from host.gap()
                if not is_hs(r, U.NAK) or abandoned():
                    break
            return "done" if is_hs(r, U.ACK) else "status_not_acked"
        if wlength and not dir_in:
            res.bin("control_out_data_stage")
            pid = U.DATA1
            pos = 0
            naks = 0
            while pos < len(data_out):
                chunk = data_out[pos:pos + 64]
                r = yield from op_out(a, 0, pid, chunk)
                done += 1
                yield from host.gap()
                if r is None or abandoned():
                    return "abandoned"
                if is_hs(r, U.STALL):
                    res.bin("control_stalled")
                    return "stalled"
                if is_hs(r, U.NAK):
                    naks += 1
                    if naks > 6:
                        return "nak_limit"
                    continue
                pos += len(chunk)
                pid = U.DATA0 if pid == U.DATA1 else U.DATA1
        # status stage: IN, the device answers with a zero-length packet which the host ACKs
        naks = 0
        for _ in range(14):
            r = yield from op_in(a, 0, "ack")
            done += 1
            yield from host.gap()
            if r is None or abandoned():
                return "abandoned"
            if is_hs(r, U.STALL):
                res.bin("control_stalled")
                return "stalled"
            if is_hs(r, U.NAK):
                continue
            if r["kind"] == "data":
                return "done"
        return "nak_limit"

    def control_tracked(setup8, **kw):
        """control() + bookkeeping: was every earlier control transfer of this session completed by the host?"""
        result = yield from control(setup8, **kw)
        if result == "done":
            ctl_state["stale"] = False
        elif result != "stalled":
            ctl_state["stale"] = True          # the host left this transfer unfinished (legal)
        return result

    def random_setup():
        """(setup bytes, data for an OUT data stage or None, kind)"""
        r = rng.random()
        if r < 0.40:
            dtype, idx = rng.choice([(1, 0), (1, 0), (2, 0), (2, 0), (3, 0), (3, 1), (3, 2), (3, 3), (3, 9), (6, 0), (0x22, 0), (2, 1)])
            total = {1: 18}.get(dtype, 64)
            wl = rng.choice([0, 1, 2, 8, 9, 18, 18, 32, 63, 64, 65, 128, 129, 255, 255, 256, rng.randint(0, 80), total])
            if dtype == 3 and rng.random() < 0.5:
                wl = 255                      # what real hosts do: read a string descriptor with wLength = 255
            return U.setup_bytes(0x80, 6, (dtype << 8) | idx, rng.choice([0, 0, 0x0409]), wl), None, "get_descriptor"
        if r < 0.50:
            rcpt = rng.choice([0x80, 0x81, 0x82])
            return U.setup_bytes(rcpt, 0, 0, rng.choice([0, sig_ep | 0x80, 1]), 2), None, "get_status"
        if r < 0.56:
            return U.setup_bytes(0x80, 8, 0, 0, 1), None, "get_configuration"
        if r < 0.66:
            return U.setup_bytes(0x00, 9, rng.choice([0, 1, 1, 2]), 0, 0), None, "set_configuration"
        if r < 0.74:
            target = rng.choice([0x80 | n for n in used_in] + list(used_out) + [absent[0] if absent else 1])
            return U.setup_bytes(0x02, 1, 0, target, 0), None, "clear_feature"
        if r < 0.82:
            # control-OUT with a data stage (vendor / class / SET_DESCRIPTOR): nobody claims these
            n = rng.choice([1, 8, 64, 65, rng.randint(1, 100)])
            bm, breq = rng.choice([(0x40, 0x55), (0x21, 0x09), (0x00, 7)])
            return U.setup_bytes(bm, breq, rng.randrange(1 << 16), 0, n), bytes(rng.randrange(256) for _ in range(n)), "control_out"
        if r < 0.92:
            bm = rng.choice([0xC0, 0xA1, 0x80, 0x81])
            return U.setup_bytes(bm, rng.choice([0x10, 0xFE, 3, 0x0A, 0x0C]), rng.randrange(1 << 16), rng.randrange(4), rng.choice([0, 1, 8, 64, 300])), None, "unsupported_in"
        return U.setup_bytes(rng.choice([0x40, 0x21, 0x00]), rng.choice([0x11, 3, 0x0B]), rng.randrange(1 << 16), 0, 0), None, "unsupported_nodata"

    def op_control():
        setup8, data_out, kind = random_setup()
        abandon = rng.choice([None] * 5 + [1, 2, 2, 3])
        if abandon is not None:
            res.bin("setup_abandons_transfer")      # the next control transfer starts with the previous one unfinished
        log("CTL", kind, setup8.hex(), "abandon=%s" % abandon)
        result = yield from control_tracked(setup8, data_out=data_out, abandon_after=abandon, early_status=rng.random() < 0.15,
                                    noack_p=rng.choice([0, 0, 0.15, 0.4]))
        if abandon is not None and rng.random() < 0.7:
            # a legal host may start the next control transfer at once
            setup8b, data_b, kind_b = random_setup()
            log("CTL", kind_b, setup8b.hex(), "after abandoned")
            yield from control_tracked(setup8b, data_out=data_b)
        return result

    def op_set_address():
        # A failed SET_ADDRESS would leave the reference model without a defined device address (C07/C08: a handler that is
        # still in its SET_ADDRESS state takes any later host ACK - even after a bus reset - as the status stage).  So, like
        # an enumerating host, this one first finishes a plain control transfer if it abandoned the previous one, and it
        # does not lose packets of the SET_ADDRESS transfer itself.
        state["no_damage"] = True
        for _ in range(3):
            if not ctl_state["stale"]:
                break
            log("CTL", "get_status (complete, before SET_ADDRESS)")
            yield from control_tracked(U.setup_bytes(0x80, 0, 0, 0, 2))
            yield from host.gap()
        new = rng.choice([a for a in range(1, 128) if a != host.dev_addr])
        log("SET_ADDRESS", new)
        result = yield from control_tracked(U.setup_bytes(0x00, 5, new, 0, 0))
        state["no_damage"] = False
        if result == "done":
            host.dev_addr = new
            res.bin("address_changed")
            yield from host.idle(rng.randint(4, 30))
        else:
            # the transfer did not complete (C08's subject): the device may take the new address now, later or never ->
            # stop judging solicitation for the rest of this session
            state["addr_unknown_from"] = b.cycle
            res.unjudged += 1
            if mode != "hs":
                yield from op_bus_reset()

    def op_bulk_in():
        n = rng.choice(sorted(ep_in))
        mode_ = "ack" if rng.random() < 0.8 else "none"
        log("IN", n, mode_)
        r = yield from op_in(host.dev_addr, n, mode_)
        if r is not None and r["kind"] == "data" and mode_ == "none" and rng.random() < 0.7:
            yield from host.gap()
            log("IN", n, "retry")
            yield from op_in(host.dev_addr, n, "ack")

    def op_sig():
        mode_ = "ack" if rng.random() < 0.75 else "none"
        log("POLL", sig_ep, mode_)
        yield from op_in(host.dev_addr, sig_ep, mode_)

    def op_bulk_out():
        n = rng.choice(sorted(ep_out))
        mps = dict(out_eps)[n]
        ln = rng.choice([0, 1, mps - 1, mps, mps, rng.randint(0, mps)])
        repeat = rng.random() < 0.15
        pid = U.DATA1 if (tog_out[n] ^ (1 if repeat else 0)) else U.DATA0
        log("OUT", n, ln, "repeat" if repeat else "")
        if ln > 64:
            res.bin("out_data_above_64_bytes")
        r = yield from op_out(host.dev_addr, n, pid, bytes(rng.randrange(256) for _ in range(ln)))
        if is_hs(r, U.ACK) and not repeat:
            tog_out[n] ^= 1
        if is_hs(r, U.NAK) and rng.random() < 0.5:
            yield from host.gap()
            log("OUT", n, ln, "retry_after_nak")
            r = yield from op_out(host.dev_addr, n, pid, bytes(rng.randrange(256) for _ in range(ln)))
            if is_hs(r, U.ACK) and not repeat:
                tog_out[n] ^= 1

    def op_ping():
        n = rng.choice(sorted(ep_out) + [0])
        log("PING", n)
        yield from send_token(U.PING, host.dev_addr, n)
        r = yield from response()
        if r is not None:
            yield from after_device_packet()

    def op_absent():
        k = rng.choice(["in_absent", "out_absent", "in_wrong_dir", "out_wrong_dir"])
        log("ABSENT", k)
        if k == "in_absent" and absent:
            yield from op_in(host.dev_addr, rng.choice(absent), "ack")
        elif k == "out_absent" and absent:
            yield from op_out(host.dev_addr, rng.choice(absent), U.DATA0, bytes(rng.randrange(256) for _ in range(rng.randint(0, 9))))
        elif k == "in_wrong_dir" and (used_out - used_in):
            yield from op_in(host.dev_addr, rng.choice(sorted(used_out - used_in)), "ack")
        elif used_in - used_out:
            yield from op_out(host.dev_addr, rng.choice(sorted(used_in - used_out)), U.DATA0, bytes(rng.randrange(256) for _ in range(rng.randint(0, 9))))

    def op_foreign():
        """a complete transaction of the host with another device on the same bus segment (downstream packets only)"""
        near = [host.dev_addr ^ (1 << k) for k in range(7)]           # addresses that differ from ours in one bit
        fa = rng.choice([a for a in (foreign + near + near + [0]) if a != host.dev_addr])
        fe = rng.choice([0, sig_ep] + sorted(used_in) + sorted(used_out) + [rng.randrange(16)])
        k = rng.choice(["in_ack", "in_ack", "in_nak", "out", "out", "setup"])
        log("FOREIGN", k, fa, fe)
        if k in ("in_ack", "in_nak"):
            yield from host.token(U.IN, fa, fe)
            if k == "in_ack":
                yield from host.idle(rng.randint(6, 40))          # the other device's data packet (upstream only)
                yield from host.handshake(U.ACK)
                res.bin("foreign_in_with_host_ack")
            else:
                yield from host.idle(rng.randint(4, 12))          # the other device's NAK
        elif k == "out":
            yield from host.token(U.OUT, fa, fe)
            yield from token_gap()
            yield from host.data(rng.choice([U.DATA0, U.DATA1]), bytes(rng.randrange(256) for _ in range(rng.choice([0, 1, 8, 64, rng.randint(0, 64)]))))
            res.bin("foreign_out_data")
            yield from host.idle(rng.randint(4, 12))              # the other device's handshake
        else:
            yield from host.token(U.SETUP, fa, 0)
            yield from token_gap()
            yield from host.data(U.DATA0, bytes(random_setup()[0]))
            res.bin("foreign_setup")
            yield from host.idle(rng.randint(4, 12))

    def op_sof():
        log("SOF")
        res.bin("sof_sent")
        yield from host.sof(rng.randrange(2048))

    def op_bus_reset():
        log("BUS_RESET")
        reset_phases.append([b.cycle + 1, None])
        b.set(utmi.line_state, 0b00)
        yield from host.idle(rng.randint(310, 420))               # > 5 us of SE0
        b.set(utmi.line_state, 0b01)
        yield from host.idle(rng.randint(6, 30))
        reset_phases[-1][1] = b.cycle
        host.dev_addr = 0
        for n in tog_out:
            tog_out[n] = 0
        res.bin("bus_reset_mid_session")

    state = {"addr_unknown_from": None}
    ctl_state = {"stale": False}
    ctl_log = []                  # (cycle of the SETUP token, setup bytes, an earlier control transfer was left unfinished)

    def driver():
        init_device_signals(b, dev, utmi)
        if mode == "fs60":
            b.set(dev.full_speed_only, 1)
        yield from host.idle(6)
        if mode == "hs":
            # bus reset + high-speed detection handshake [USB 2.0 7.1.7.5]
            reset_phases.append([b.cycle + 1, None])
            b.set(utmi.line_state, 0b00)                           # SE0
            yield from host.idle(320 + HS_CHIRP_CYCLES + 40)       # reset detection, device chirp K
            for _ in range(3 + rng.randint(0, 2)):
                b.set(utmi.line_state, 0b10)                       # host chirp K
                yield from host.idle(rng.randint(160, 220))
                b.set(utmi.line_state, 0b01)                       # host chirp J
                yield from host.idle(rng.randint(160, 220))
            b.set(utmi.line_state, 0b00)                           # high-speed idle
            yield from host.idle(20)
            reset_phases[-1][1] = b.cycle
            if b.get(dev.speed) != 0:
                raise RuntimeError("harness: device did not reach high speed (speed=%d)" % b.get(dev.speed))
        nops = rng.randint(45, 70)
        weights = [("control", 26), ("bulk_in", 14), ("bulk_out", 14), ("sig", 8), ("absent", 5), ("foreign", 12), ("sof", 6),
                   ("set_address", 3)]
        if mode == "hs":
            weights.append(("ping", 12))
            weights += [("bulk_in", 10), ("bulk_out", 6)]      # packets above 64 bytes exist only here
        else:
            weights.append(("bus_reset", 2))
        names = [n for n, w in weights for _ in range(w)]
        for _ in range(nops):
            if b.cycle > b.max_cycles - 15000:
                break
            k = rng.choice(names)
            if k == "control":
                yield from op_control()
            elif k == "bulk_in":
                yield from op_bulk_in()
            elif k == "bulk_out":
                yield from op_bulk_out()
            elif k == "sig":
                yield from op_sig()
            elif k == "absent":
                yield from op_absent()
            elif k == "foreign":
                yield from op_foreign()
            elif k == "sof":
                yield from op_sof()
            elif k == "set_address":
                yield from op_set_address()
            elif k == "ping":
                yield from op_ping()
            elif k == "bus_reset":
                yield from op_bus_reset()
            # inter-operation gap of a legal host (>= 2 idle cycles)
            if rng.random() < 0.5:
                yield from host.idle(2 if mode == "fs12" else 4)
            else:
                yield from host.gap()
        yield from host.idle(bus_timeout + 20)
        for _ in range(700):                   # let a packet that is on the wire finish (a stuck transmitter will not)
            if st["cur"] is None:
                break
            yield

    b.add_driver(driver())
    b.run()
    res.cycles = b.cycle
    if not taps_ok:
        return          # REQUIRED_EVENTS source_* stay 0 -> the run is inconclusive
    if b.hit_max_cycles:
        viol(b.cycle, "harness_max_cycles", "session did not finish in %d cycles (a transmitter stuck with valid high?); last packets %s"
                      % (b.max_cycles, [bytes(p["data"][:8]).hex() for p in dpk[-3:]]))
    if st["cur"] is not None:
        cur = st["cur"]
        cur["end"] = b.cycle
        # (a session that ends inside a stream of back-to-back packets always ends inside one of them: only a packet that
        #  has been open for a long time is a transmitter that is stuck)
        if not cur["src"][0] and b.cycle - cur["first_valid"] > 600:
            viol(b.cycle, "packet_never_ends", "tx_valid high from cycle %d to the end of the session (%d bytes accepted)" % (cur["first_valid"], len(cur["data"])))

    # ------------------------------------------------------------------ classifier for the known finding (findings/C20.md)
    # "ZLP stream": a run of >= 2 short device packets that follow each other within <= 5 cycles (no host can solicit that),
    # each started by the data packet generator, the first one a clean zero-length data packet, on a device whose standard request handler uses
    # the distributed (avoid_blockram) descriptor generator, while the current control request is a GET_DESCRIPTOR.
    # Everything the monitors report inside such a stream is reported once, under one mechanism name; everything else
    # keeps its name.
    def clean_zlp(p):
        d = bytes(p["data"])
        return len(d) == 3 and d[0] in (U.pid_byte(U.DATA0), U.pid_byte(U.DATA1)) and d[1:] == b"\x00\x00" and p["src"] == (0, 1, 0)

    def zlp_like(p):
        # a member of the stream may be garbled by the host's packet / the handshake generator running into it
        d = bytes(p["data"])
        # (with two transmitters valid the one-hot multiplexer outputs neither's data, so the bytes may be anything)
        return len(d) <= 8 and p["src"][1] == 1

    # runs: maximal sequences of non-chirp packets <= 5 cycles apart whose members after the first are short packets started
    # by the data packet generator (the first one is whatever legitimately preceded them)
    runs = []
    run = []
    for p in [q for q in dpk if not q["src"][0]] + [None]:
        if p is not None and run and zlp_like(p) and p["first_valid"] - run[-1]["end"] <= 5:
            run.append(p)
            continue
        if len(run) >= 2:
            runs.append(run)
        run = [p] if p is not None else []
    known_streams = []
    primary_seen = False
    for run in runs:
        s0, s1 = run[0]["first_valid"], run[-1]["end"] + 4
        ctx = None
        for c in ctl_log:
            if c[0] <= s0:
                ctx = c
        # primary: the first packet is the solicited ZLP that ends a GET_DESCRIPTOR data stage on an avoid_blockram device
        # (the host's packets disturb the shared CRC unit, so the later ZLPs may be garbled)
        primary = avoid_blockram and ctx is not None and ctx[1][0] == 0x80 and ctx[1][1] == 6 and clean_zlp(run[0])
        # aftermath: a primary stream earlier in this session can leave another endpoint stuck in the middle of its packet
        # (it lost the arbitration for the shared data packet generator); the next transmission of anybody then releases
        # its `valid & last`, which starts the same kind of stream without any GET_DESCRIPTOR
        aftermath = primary_seen and len(run) >= 3 and any(clean_zlp(q) for q in run[1:])
        if primary or aftermath:
            known_streams.append((s0, s1, len(run), ctx if ctx is not None else (0, b"", False), "primary" if primary else "aftermath"))
            primary_seen = primary_seen or primary

    # ------------------------------------------------------------------ judge the packets
    hlog = host.hlog
    events = [(h["start"], 0, h) for h in hlog] + [(p["first_valid"], 1, p) for p in dpk]
    events.sort(key=lambda t: (t[0], t[1]))
    last = None            # soliciting state after the last host packet
    prev_host = None
    answered = False
    prev_dev = None
    prev_kind = None

    def host_kind(h):
        info = U.classify(h["bytes"])
        return info

    for t, which, x in events:
        if which == 0:
            h = x
            info = host_kind(h)
            sol = None
            what = info["kind"]
            if h["damaged"] or info["kind"] in ("malformed", "badpid", "empty"):
                sol = "unjudged"
                what = "damaged"
            elif info["kind"] == "token":
                mine = info["addr"] == h["addr"]
                what = "%s_token_%s" % (U.PID_NAMES[info["pid"]].lower(), "own" if mine else "foreign")
                if mine and info["pid"] == U.IN:
                    sol = "in"
                elif mine and info["pid"] == U.PING:
                    sol = "ping"
            elif info["kind"] == "data":
                what = "data_without_own_token"
                if prev_host is not None and not answered:
                    pi = prev_host
                    if pi.get("sol_token") in ("out", "setup"):
                        sol = pi["sol_token"] + "_data"
                        what = sol
                    elif pi.get("unjudged"):
                        sol = "unjudged"
            elif info["kind"] == "handshake":
                what = "host_handshake"
            elif info["kind"] == "sof":
                what = "sof"
            rec = {"h": h, "sol": sol, "what": what, "txn_start": h["start"]}
            if sol in ("out_data", "setup_data"):
                rec["txn_start"] = prev_host["h"]["start"]
            if info["kind"] == "token" and info["addr"] == h["addr"] and info["pid"] in (U.OUT, U.SETUP) and not h["damaged"]:
                rec["sol_token"] = "out" if info["pid"] == U.OUT else "setup"
            if sol == "unjudged" or h["damaged"]:
                rec["unjudged"] = True
            if state["addr_unknown_from"] is not None and h["start"] >= state["addr_unknown_from"]:
                rec["sol"] = "unjudged"
                rec["addr_unknown"] = True
            if prev_dev is not None and h["start"] - prev_dev["end"] <= 3:
                res.bin("host_packet_min_gap_after_device_packet")
            last = rec
            prev_host = rec
            answered = False
            continue

        # ---------------------------------------------------------------- a device packet
        p = x
        # packets of a known ZLP stream (all but its first, solicited one) are reported by the classifier; they must not
        # make the *next* legitimate answer look like a second packet / an answer to nothing
        member = any(k[0] < p["first_valid"] <= k[1] for k in known_streams)
        res.event("device_packets")
        data = bytes(p["data"])
        src = p["src"]
        chirp = bool(src[0])
        # single source
        res.event("packets_single_source_checked")
        if p["src_changed"] is not None:
            viol(p["first_valid"], "transmitter_changed_within_packet", "packet starting at %d (%s...): source %s -> %s at cycle %d without tx_valid falling; ops=%s"
                          % (p["first_valid"], data[:6].hex(), [SRC_NAMES[i] for i in range(3) if src[i]],
                             [SRC_NAMES[i] for i in range(3) if p["src_changed"][1][i]], p["src_changed"][0], ops_at(p["first_valid"])))
        if p.get("chirp_outside"):
            viol(p["first_valid"], "chirp_outside_bus_reset", "reset sequencer drives tx_valid at cycle %d, outside any bus reset; ops=%s" % (p["chirp_outside"], ops_at(p["first_valid"])))
        if chirp:
            res.bin("chirp_packet_seen")
            prev_dev = p
            continue
        if prev_dev is not None and not prev_dev["src"][0]:
            a, c = prev_dev["src"], src
            if a != c:
                res.bin("data_then_handshake_sources_alternate")
        # well-formed
        res.event("wellformed_checks")
        info = U.classify(data)
        kind = info["kind"]
        if p["stalls"] and p["stalls"][0]:
            res.bin("tx_stall_before_first_byte")
        if any(p["stalls"][1:]):
            res.bin("tx_stall_mid_packet")
        if kind == "empty":
            viol(p["first_valid"], "tx_valid_withdrawn_before_first_byte", "tx_valid high in cycles %d..%d but no byte was accepted; ops=%s" % (p["first_valid"], p["end"], ops_at(p["first_valid"])))
        elif kind == "handshake":
            res.event("handshake_packets")
        elif kind == "data":
            res.event("data_packets")
            # the CRC16 above is computed by the device over the bytes behind the multiplexer, so a payload that was replaced
            # on the way still carries a "correct" CRC: compare with what the endpoints handed to the data packet generator
            if p["src"] == (0, 1, 0) and p["src_changed"] is None and "offered" in p:
                res.event("payload_vs_offered_checks")
                if bytes(info["payload"]) != p["offered"]:
                    viol(p["first_valid"], "data_payload_differs_from_bytes_offered_to_generator",
                         "data packet %s... (%d payload bytes) but the endpoint stream handed %d bytes %s... to the data packet generator; ops=%s"
                         % (data[:16].hex(), len(info["payload"]), len(p["offered"]), p["offered"][:16].hex(), ops_at(p["first_valid"])))
            if len(info["payload"]) > 64:
                res.bin("data_packet_above_64_bytes")
            if len(info["payload"]) == 0:
                res.bin("zlp_transmitted")
            if len(info["payload"]) == 64:
                res.bin("max_size_data_packet")
        elif kind == "badpid":
            viol(p["first_valid"], "packet_pid_check_nibble_wrong", "device packet %s; ops=%s" % (data[:12].hex(), ops_at(p["first_valid"])))
        elif kind == "malformed" and info.get("why") == "crc16":
            viol(p["first_valid"], "data_packet_crc16_wrong", "device packet %s (%d bytes): CRC16 does not match the payload; sources %s; ops=%s"
                          % (data[:40].hex(), len(data), [SRC_NAMES[i] for i in range(3) if src[i]], ops_at(p["first_valid"])))
        elif kind == "malformed" and info.get("why") == "handshake_length":
            viol(p["first_valid"], "handshake_longer_than_one_byte", "device packet %s; ops=%s" % (data[:12].hex(), ops_at(p["first_valid"])))
        elif kind == "malformed" and info.get("why") == "data_short":
            viol(p["first_valid"], "data_packet_shorter_than_pid_plus_crc", "device packet %s; ops=%s" % (data.hex(), ops_at(p["first_valid"])))
        else:
            viol(p["first_valid"], "packet_is_neither_handshake_nor_data", "device packet %s classified %s; ops=%s" % (data[:12].hex(), info, ops_at(p["first_valid"])))
        # solicited
        res.event("solicitation_checks")
        if last is None:
            viol(p["first_valid"], "unsolicited_tx_before_any_host_packet", "device packet %s at cycle %d" % (data[:12].hex(), p["first_valid"]))
        elif answered:
            if last["sol"] == "unjudged":
                res.unjudged += 1
            else:
                viol(p["first_valid"], "second_packet_for_one_host_packet", "device packet %s at %d follows device packet %s without a host packet in between (last host packet: %s %s); ops=%s"
                              % (data[:12].hex(), p["first_valid"], bytes(prev_dev["data"][:12]).hex(), last["what"], last["h"]["bytes"][:12].hex(), ops_at(p["first_valid"])))
        elif last["sol"] == "unjudged":
            res.unjudged += 1
            if not last.get("addr_unknown"):
                res.bin("answer_after_damaged_packet_unjudged")
        elif last["sol"] is None:
            viol(p["first_valid"], "unsolicited_tx_after_" + last["what"], "device packet %s at cycle %d; the last host packet (%s, ended %d, device address then %d) does not ask this device for an answer; ops=%s"
                          % (data[:12].hex(), p["first_valid"], last["h"]["bytes"][:12].hex(), last["h"]["end"], last["h"]["addr"], ops_at(p["first_valid"])))
        else:
            sol = last["sol"]
            delay = p["first_valid"] - last["h"]["end"]
            if delay > 2 * bus_timeout:
                viol(p["first_valid"], "answer_long_after_bus_timeout", "device packet %s starts %d cycles after the %s (bus time-out of this host: %d); ops=%s"
                              % (data[:12].hex(), delay, sol, bus_timeout, ops_at(p["first_valid"])))
            if prev_dev is not None and not prev_dev["src"][0] and prev_kind == "data" and kind == "handshake" and last["txn_start"] - prev_dev["end"] <= 8:
                res.bin("handshake_right_after_data_packet")
            if sol == "in":
                if kind == "data":
                    res.bin("answer_to_in_data")
                elif kind == "handshake" and info["pid"] == U.NAK:
                    res.bin("answer_to_in_nak")
                elif kind == "handshake" and info["pid"] == U.STALL:
                    res.bin("answer_to_in_stall")
                elif kind == "handshake":
                    tok = U.classify(last["h"]["bytes"])
                    ctx = None
                    for c in ctl_log:
                        if c[0] <= last["h"]["start"]:
                            ctx = c
                    mech = "answer_kind_%s_to_in_token" % U.PID_NAMES[info["pid"]].lower()
                    if info["pid"] == U.ACK and tok["endp"] == 0 and ctx is not None:
                        if (ctx[1][0] & 0x80) and ctx[1][6] == 0 and ctx[1][7] == 0:
                            mech = "ack_handshake_answers_status_in_of_in_request_with_wlength_0"
                        elif ctx[2]:
                            mech = "ack_handshake_answers_status_in_after_unfinished_control_transfer"
                    viol(p["first_valid"], mech, "IN token %s (endpoint %d) answered with handshake %s; current control request %s, an earlier control transfer was left unfinished: %s; ops=%s"
                                  % (last["h"]["bytes"].hex(), tok["endp"], data.hex(), ctx[1].hex() if ctx else None, ctx[2] if ctx else None, ops_at(p["first_valid"])))
            elif sol in ("out_data", "ping"):
                if kind == "data":
                    viol(p["first_valid"], "answer_kind_data_packet_to_%s" % sol, "%s answered with data packet %s; ops=%s" % (sol, data[:12].hex(), ops_at(p["first_valid"])))
                elif kind == "handshake":
                    if sol == "ping":
                        res.bin("answer_to_ping")
                    elif info["pid"] == U.ACK:
                        res.bin("answer_to_out_data_ack")
                    elif info["pid"] == U.NAK:
                        res.bin("answer_to_out_data_nak")
            elif sol == "setup_data":
                if kind == "handshake" and info["pid"] == U.ACK:
                    res.bin("answer_to_setup_ack")
                elif kind in ("handshake", "data"):
                    viol(p["first_valid"], "answer_kind_not_ack_to_setup", "SETUP data %s answered with %s; ops=%s" % (last["h"]["bytes"].hex(), data[:12].hex(), ops_at(p["first_valid"])))
        if not member:
            answered = True
            prev_dev = p
            prev_kind = kind

    # ------------------------------------------------------------------ report
    reported = set()
    for cycle, mech, detail in sorted(raw, key=lambda t: t[0]):
        ks = [k for k in known_streams if k[0] <= cycle <= k[1]]
        if ks:
            k = ks[0]
            if k[0] not in reported:
                reported.add(k[0])
                inside = sorted({m for c, m, d in raw if k[0] <= c <= k[1]})
                res.violation("unsolicited_zlp_stream_from_distributed_descriptor_handler",
                              "(%s) control request %s (avoid_blockram): after a solicited packet the device sends %d more (zero-length) data packets "
                              "back to back in cycles %d..%d without further IN tokens; monitors inside the stream: %s; first: %s"
                              % (k[4], k[3][1].hex(), k[2] - 1, k[0], k[1], inside, detail))
            continue
        res.violation(mech, detail)

    b_ = res.bins
    res.nontrivial = bool(b_.get("answer_to_in_data") and b_.get("answer_to_out_data_ack") and (b_.get("answer_to_in_nak") or b_.get("answer_to_out_data_nak"))
                          and b_.get("answer_to_in_stall") and (b_.get("foreign_in_with_host_ack") or b_.get("foreign_out_data") or b_.get("foreign_setup")))
