"""C48 - SuperSpeed control requests: setup decoding and GET_DESCRIPTOR answers.

Two DUTs per case, both stand-alone, both real luna objects:

A. luna.gateware.usb.usb3.application.request.SuperSpeedSetupDecoder
   Workload: 50-110 data packets on `sink` (the tap of the endpoint's rx stream): setup flag in `header_in` set / clear
   (the header is updated 0-3 cycles before the first word and then held), payload 0..16 bytes (biased to 8, 4..7, 0, 9, 12,
   16), packed into words (only the final word partial, `first` on the first, `last` on the final word), gaps between words
   (none / random / one long), garbage on first/last/data while valid is 0, verdict `rx_good` or `rx_bad` 1-6 cycles after
   the final word, or `rx_bad` early (packet aborted after k words, no `last`), 1-12 idle cycles between packets; payloads
   are random, equal to the previous setup packet in all but one bit, or all-ones / all-zeros.  Deliberate patterns: a
   short (4..7 byte) setup-flagged packet followed by a 4-byte non-setup packet, by zero-length packets, and by a valid
   8-byte SETUP; a bad 8-byte setup followed by a good one; 9..16-byte setup-flagged packets.
   Verdicts in the very cycle of a payload word (about every 6th packet): `rx_bad` together with the last word of an 8-byte
   setup packet, together with the first word of a setup-flagged packet (packet ends there), together with a word of short /
   over-long setup-flagged and of non-setup packets - this is what the link-layer DataPacketReceiver does when a control
   symbol lands inside a payload word, `packet_bad` is combinational - and `rx_good` together with the last word; each
   followed by a good non-setup packet of any length and / or by the host's correct SETUP retry with different field values.
   Oracle (USB 3.2 8.12.2, USB 2.0 table 9-2; nothing from luna): `packet.received` pulses exactly once, 1..3 cycles
   after the verdict, iff the packet had the setup flag, exactly 8 payload bytes and verdict good; in that cycle
   recipient/type/direction = bits 4:0 / 6:5 / 7 of byte 0, request = byte 1, value / index / length = little-endian
   bytes 2-3 / 4-5 / 6-7.  Any other pulse is a violation.

B. luna.gateware.usb.usb3.application.descriptor.GetDescriptorHandler(collection)
   Workload: usb_domain "ss" (default, given or omitted), "sync" (no DomainRenamer) or another name, the bench clocked on that
   domain with the other two domains present as bystanders on unrelated clocks; collection of 1-7 descriptors (type, index,
   1..90 bytes, in every fifth collection one of 255..1024 bytes; plain list of tuples, or a real usb_protocol
   DeviceDescriptorCollection filled with the same raw descriptors), 14-26 requests: value = (type << 8 | index)
   present, absent, differing in one bit from a present one, or an alias (type or index alone, mixed from two descriptors); wLength in {0, 1..5, len-1, len, len+1, len+8, 256*k + (0..len),
   0xFFFF, random}; value / length set 0-3 cycles before the one-cycle `start`; `tx.ready` profiles (always / random /
   bursty / low until valid / low on the last word).
   Oracle: known descriptor -> words on `tx` (transfer = valid != 0 & ready) concatenate to desc[:min(wLength, len)], all
   words full except the final one whose byte mask is 0001/0011/0111/1111 and which carries `last`, `tx_length` = that byte count in the first cycle of `tx.valid` (what the data packet transmitter latches), no
   `stall`; the stream starts within 8 cycles of `start` and words are held while not ready.  wLength 0 -> no word, no
   stall.  Unknown descriptor -> `stall` pulse 0..2 cycles after `start`, no word.

Deviations from DESIGN section 7: none in substance; the "non-setup packet between a short setup packet and the next one"
pattern is generated on purpose and both of its consequences (false report, missed SETUP) have their own mechanism names.

Findings (findings/C48.md; both repaired in /repo, the mechanisms stay in the check).  A setup-flagged packet that is aborted by `rx_bad` in the cycle of its first word is not
abandoned (WAIT_FOR_FIRST takes the word without looking at rx_bad): the next good 4-byte packet completes a bogus SETUP
(`first_word_aborted_in_same_cycle_completed_by_later_packet`), the host's SETUP retry is lost
(`setup_missed_after_first_word_aborted_in_same_cycle`).  Fixed in d31e798: a setup-flagged packet of 4..7 bytes that is reported good leaves the
decoder waiting for a second word; the next 4-byte packet completes a bogus SETUP (`short_setup_packet_completed_by_later_
packet`) or the next correct SETUP is lost (`setup_missed_after_short_setup_packet`).  The classifier is narrow: the false
report must consist of exactly the first word of the short packet plus the 4-byte packet, the miss must directly follow a
good short setup packet (only sub-word packets in between).  With the proposed one-line fix the check holds.

Coverage-audit additions: usb_domain varied (mutations caught: generators built with domain="ss" regardless of usb_domain,
DomainRenamer applied only for "ss"), descriptors of 255..1024 bytes (mutation caught: tx_length 8 bits wide).  rx_good and
rx_bad in the same cycle are still not generated: the statement does not say which one wins.

Mutations (93 repository tests pass for each), all caught by the quick tier: the verdict-abandon of PARSE_SECOND made an
Elif of the "second word" branch, and the same abandon only when no word is present (both park a setup packet whose last
word carries rx_bad and report it on the next good verdict: `bad_setup_packet_reported_on_later_verdict`; this class had
escaped while coincident verdicts were not generated); second word accepted without `last`,
tx_length = requested length (DESIGN section 10); `first` not required, rx_bad ignored in WAIT_FOR_VALID, rx_bad ignored in
PARSE_SECOND, setup flag ignored, partial second word accepted, first word accepted when partial; unknown descriptor not
stalled, wLength truncated to 8 bits, buffer stage never loaded while tx.ready is low, generator advanced although the
buffered word was not taken, descriptor selected by index alone.

Not judged: `first` on the descriptor stream, the contents of the invalid byte lanes, `tx_length` after the first valid
cycle, a `start` while a descriptor is still being streamed, value/length changes during a stream (the setup packet is
constant during a request), the decoder's `packet` fields outside the `received` cycle, words with non-contiguous byte
masks; whether an 8-byte SETUP whose `rx_good` comes in the very cycle of its last word is reported (the real receiver checks
the CRC after the payload, so this cannot happen; it is generated, counted as unjudged, its fields are judged if it is
reported, and everything after it is judged); `rx_good` in the cycle of the only word of a 4-byte setup-flagged packet is
not generated for the same reason (on the current decoder it would only re-create the fixed short-packet defect).
"""
from rv.sim import Bench

PROPERTY = "C48"
CASES = {"quick": 200, "thorough": 4000}
RULE = ("case = decoder session (50-110 data packets: setup flag x 0..16 bytes x good/bad/aborted x word gaps x verdict delay, single-bit "
        "payload variations, short-setup + 4-byte-packet / ZLP / valid-setup sequences) + descriptor-handler session (collection of 1-7 "
        "descriptors as list or DeviceDescriptorCollection, 14-26 requests: value present / absent / one bit off, wLength 0..len+8, len+256, "
        "0xFFFF, tx.ready profile); non-trivial = >=3 setup packets reported, >=1 bad and >=1 wrong-size setup packet, >=1 stall and >=1 "
        "truncated descriptor; distinct = hash of both scripts")
REQUIRED_BINS = ["setup8_good", "setup8_bad", "setup8_aborted", "setup_short_good", "setup_long_good", "setup_zero_length", "nonsetup8_good",
                 "nonsetup4_after_short_setup", "valid_setup_after_short_setup", "good_setup_after_bad_setup", "word_gap_inside_setup",
                 "verdict_delay_1", "verdict_delay_ge_4", "one_bit_variation", "setup16_good",
                 "rx_bad_with_last_word_setup8", "rx_good_with_last_word_setup8", "rx_bad_with_first_word_setup", "coincident_verdict_other_size_setup",
                 "good_packet_after_coincident_bad_setup8", "setup_retry_after_coincident_bad_setup8",
                 "desc_known", "desc_unknown", "desc_unknown_one_bit_off", "desc_unknown_alias", "wlength_0", "wlength_lt_len", "wlength_eq_len", "wlength_gt_len",
                 "wlength_len_plus_256", "wlength_cuts_mid_word", "desc_len_not_multiple_of_4", "tx_stalled", "tx_stall_on_last_word",
                 "collection_real", "collection_list", "single_descriptor_collection",
                 "usb_domain_ss", "usb_domain_sync", "usb_domain_other", "desc_answer_gt_255_bytes"]
REQUIRED_EVENTS = ["packets_sent", "received_strobes", "fields_compared", "descriptor_requests", "descriptor_bytes_compared",
                   "stalls_seen", "tx_length_compared", "decoder_cycles", "handler_cycles"]
ASSUMPTIONS = ["rx_bad may accompany any payload word (then the packet ends there) or follow the final word; rx_good follows the final word "
               "(rx_good with the final word is generated but whether that SETUP is reported is unjudged); verdict before the next packet's first word",
               "header_in is stable from the first word of a packet until the next packet's header",
               "received must pulse 1..3 cycles after rx_good; fields are judged in that cycle",
               "descriptor stream must start within 8 cycles of start; stall within 0..2 cycles",
               "value / length are constant from start until the stream has ended; no start while streaming"]

RECEIVED_WINDOW = 3
START_WINDOW = 8
NBYTES = {0b0001: 1, 0b0011: 2, 0b0111: 3, 0b1111: 4}
MASKS = {1: 0b0001, 2: 0b0011, 3: 0b0111, 4: 0b1111}


# ====================================================================================== A. setup decoder
def make_packets(rng, res):
    n = rng.randint(50, 110)
    pkts = []
    last_setup = None

    def payload(nbytes):
        k = rng.random()
        if last_setup is not None and len(last_setup) == nbytes and k < 0.3 and nbytes:
            d = bytearray(last_setup)
            bit = rng.randrange(8 * nbytes)
            d[bit // 8] ^= 1 << (bit % 8)
            res.bin("one_bit_variation")
            return bytes(d)
        if k < 0.36:
            return bytes([rng.choice([0x00, 0xFF])] * nbytes)
        return bytes(rng.randrange(256) for _ in range(nbytes))

    def add(setup, nbytes, verdict, **kw):
        nonlocal last_setup
        data = kw.pop("data", None)
        if data is None:
            data = payload(nbytes)
        p = {"setup": setup, "n": nbytes, "data": data, "verdict": verdict, "gaps": rng.choice(["none", "none", "random", "long"]),
             "delay": rng.choice([1, 1, 2, 3, 4, 6]), "idle": rng.choice([1, 1, 2, 5, 12]), "hdr_lead": rng.choice([0, 0, 1, 3])}
        p.update(kw)
        nwords = (nbytes + 3) // 4
        # coin: the verdict strobe comes in the very cycle of a payload word (rx_bad: the link receiver bails out on a control
        # symbol inside that word - any word, also the first or the last one; rx_good: with the last word, not produced by
        # the real receiver, generated all the same)
        p.setdefault("coin", nwords > 0 and rng.random() < 0.12)
        if not nwords:
            p["coin"] = False
        if verdict == "abort":
            # not coincident: words [0, abort_after) are sent, rx_bad later; coincident: word abort_after is sent and carries rx_bad
            p["abort_after"] = kw.get("abort_after", rng.randint(0, max(0, nwords - 1)) if nwords else 0)
        if p["coin"] and verdict == "good" and setup and nbytes == 4:
            p["coin"] = False       # rx_good together with the *first* word of a setup-flagged packet: not generated (see docstring)
        if setup and nbytes == 8:
            last_setup = data
        pkts.append(p)
        return p

    while len(pkts) < n:
        k = rng.random()
        if k < 0.12:
            # verdict in the cycle of a payload word, then packets that must not bring the dead packet back
            j = rng.random()
            if j < 0.40:
                add(True, 8, "bad", coin=True)                              # rx_bad with the last word
            elif j < 0.60:
                add(True, rng.choice([4, 8, 8, 8, 12]), "abort", coin=True, abort_after=0)     # rx_bad with the first word
            elif j < 0.72:
                add(True, 8, "good", coin=True)                             # rx_good with the last word
            else:
                add(True, rng.choice([5, 6, 7, 9, 12, 16]), rng.choice(["good", "bad", "abort"]), coin=True)
            j = rng.random()
            if j < 0.45:
                add(False, rng.choice([4, 4, 8, 0, 1, 12, rng.randint(0, 16)]), "good", coin=rng.random() < 0.15, idle=rng.choice([1, 1, 3]))
            if j > 0.25:
                add(True, 8, "good", coin=False, idle=rng.choice([1, 1, 2, 6]))       # the host's retry, different field values
        elif k < 0.30:
            add(True, 8, "good")
        elif k < 0.38:
            add(True, 8, rng.choice(["bad", "bad", "abort"]))
            if rng.random() < 0.7:
                add(True, 8, "good", idle=rng.choice([1, 1, 2]))
        elif k < 0.50:
            # short setup-flagged packet, then things that must not be merged with it
            add(True, rng.choice([4, 4, 5, 6, 7]), rng.choice(["good", "good", "good", "bad"]))
            for _ in range(rng.choice([0, 0, 1, 2])):
                add(rng.random() < 0.5, rng.choice([0, 0, 1, 2, 3]), "good")
            j = rng.random()
            if j < 0.45:
                add(False, 4, rng.choice(["good", "good", "bad"]))
            elif j < 0.9:
                add(True, 8, "good")
            if rng.random() < 0.5:
                add(True, 8, "good")
        elif k < 0.58:
            # over-long setup-flagged packet; (a decoder that ignores `first` would take its tail for a setup packet)
            nb = rng.choice([9, 10, 12, 12, 16, 16, 13])
            add(True, nb, rng.choice(["good", "good", "bad"]))
        elif k < 0.66:
            add(True, rng.choice([0, 0, 1, 2, 3]), rng.choice(["good", "bad"]))
        elif k < 0.80:
            add(False, 8, rng.choice(["good", "good", "bad"]))
        else:
            add(rng.random() < 0.3, rng.randint(0, 16), rng.choice(["good", "good", "bad", "abort"]))
    return pkts


def decoder_session(rng, res):
    from luna.gateware.usb.usb3.application.request import SuperSpeedSetupDecoder
    dut = SuperSpeedSetupDecoder()
    pkts = make_packets(rng, res)
    sink, hdr, out = dut.sink, dut.header_in, dut.packet
    b = Bench(dut, domain="ss", freq=125e6, max_cycles=len(pkts) * 60 + 400)
    outs = [out.received, out.recipient, out.type, out.is_in_request, out.request, out.value, out.index, out.length]
    b.watch(*outs)
    strobes = []        # (cycle, fields dict)
    res.sig([(p["setup"], p["n"], p["data"], p["verdict"], p["gaps"], p["delay"], p["idle"], p["coin"], p.get("abort_after")) for p in pkts])

    def monitor(b):
        res.event("decoder_cycles")
        if b.get(out.received):
            strobes.append((b.cycle, {"recipient": b.get(out.recipient), "type": b.get(out.type), "is_in_request": b.get(out.is_in_request),
                                      "request": b.get(out.request), "value": b.get(out.value), "index": b.get(out.index),
                                      "length": b.get(out.length)}))
            res.event("received_strobes")

    def garbage():
        if rng.random() < 0.5:
            b.set(sink.first, rng.randrange(2)); b.set(sink.last, rng.randrange(2)); b.set(sink.payload, rng.getrandbits(32))

    def driver():
        for _ in range(3):
            yield
        prev_verdict_cycle = -100
        for p in pkts:
            for _ in range(p["idle"]):
                yield
            # header of this packet (other fields random: the decoder has no business with them)
            b.set(hdr.setup, int(p["setup"])); b.set(hdr.data_length, p["n"]); b.set(hdr.endpoint_number, rng.choice([0, 0, 0, rng.randrange(16)]))
            b.set(hdr.data_sequence, rng.randrange(32)); b.set(hdr.direction, rng.randrange(2))
            for _ in range(p["hdr_lead"]):
                yield
            data = p["data"]
            words = [data[i:i + 4] for i in range(0, len(data), 4)]
            coin = p["coin"]
            nsend = len(words) if p["verdict"] != "abort" else p["abort_after"] + (1 if coin else 0)
            long_gap_at = rng.randrange(len(words)) if words and p["gaps"] == "long" else None
            good = p["verdict"] == "good"
            if coin:
                # keep verdicts far enough apart that every `received` pulse can be attributed
                while b.cycle + nsend < prev_verdict_cycle + RECEIVED_WINDOW + 2:
                    yield
            for i, w in enumerate(words[:nsend]):
                if i and (p["gaps"] == "random" and rng.random() < 0.4 or long_gap_at == i):
                    b.set(sink.valid, 0)
                    garbage()
                    if p["setup"] and p["n"] == 8:
                        res.bin("word_gap_inside_setup")
                    for _ in range(rng.randint(1, 3) if long_gap_at != i else rng.randint(5, 15)):
                        yield
                word = int.from_bytes(w + bytes(rng.randrange(256) for _ in range(4 - len(w))), "little")
                b.set(sink.valid, MASKS[len(w)]); b.set(sink.payload, word)
                b.set(sink.first, int(i == 0)); b.set(sink.last, int(i == len(words) - 1))
                if coin and i == nsend - 1:
                    b.set(dut.rx_good, int(good)); b.set(dut.rx_bad, int(not good))
                    p["t_verdict"] = b.cycle + 1
                    prev_verdict_cycle = b.cycle + 1
                yield
            b.set(sink.valid, 0); b.set(sink.first, 0); b.set(sink.last, 0)
            garbage()
            if coin:
                b.set(dut.rx_good, 0); b.set(dut.rx_bad, 0)
                res.event("packets_sent")
                continue
            delay = p["delay"]
            # keep verdicts far enough apart that every `received` pulse can be attributed
            while b.cycle + delay < prev_verdict_cycle + RECEIVED_WINDOW + 2:
                delay += 1
            for _ in range(delay - 1):
                yield
            b.set(dut.rx_good, int(good)); b.set(dut.rx_bad, int(not good))
            p["t_verdict"] = b.cycle + 1
            prev_verdict_cycle = b.cycle + 1
            yield
            b.set(dut.rx_good, 0); b.set(dut.rx_bad, 0)
            res.event("packets_sent")
        for _ in range(RECEIVED_WINDOW + 3):
            yield

    b.add_driver(driver())
    b.add_monitor(monitor)
    b.run()
    res.cycles += b.cycle

    # ---------------- judge
    def fields_of(d):
        return {"recipient": d[0] & 0x1F, "type": (d[0] >> 5) & 3, "is_in_request": d[0] >> 7, "request": d[1],
                "value": d[2] | d[3] << 8, "index": d[4] | d[5] << 8, "length": d[6] | d[7] << 8}

    def bad_with_first(q):
        """rx_bad in the very cycle of the packet's first word"""
        return q["coin"] and ((q["verdict"] == "abort" and q["abort_after"] == 0) or (q["verdict"] == "bad" and q["n"] <= 4))

    def stuck_source(k):
        """(index, kind) of a packet before packet k that is known to leave a first word behind in the unchanged decoder:
        kind "short": setup-flagged, 4..7 bytes, verdict good, only sub-word packets reported good in between (fixed in d31e798);
        kind "abort0": setup-flagged, >= 4 bytes, aborted by rx_bad in the very cycle of its first word, directly before k."""
        if k and pkts[k - 1]["setup"] and pkts[k - 1]["n"] >= 4 and bad_with_first(pkts[k - 1]):
            return k - 1, "abort0"
        j = k - 1
        while j >= 0:
            q = pkts[j]
            if q["verdict"] == "good" and q["n"] < 4 and not q["coin"]:
                j -= 1
                continue
            if q["setup"] and 4 <= q["n"] <= 7 and q["verdict"] == "good" and not q["coin"]:
                return j, "short"
            return None, None
        return None, None

    si = 0
    for k, p in enumerate(pkts):
        if "t_verdict" not in p:
            continue
        tv = p["t_verdict"]
        mine = []
        while si < len(strobes) and strobes[si][0] <= tv:
            res.violation("received_without_packet_verdict", "decoder: received pulsed at cycle %d, no verdict in the %d cycles before (packet %d)" % (
                strobes[si][0], RECEIVED_WINDOW, k))
            si += 1
        while si < len(strobes) and strobes[si][0] <= tv + RECEIVED_WINDOW:
            mine.append(strobes[si])
            si += 1
        expect = p["setup"] and p["n"] == 8 and p["verdict"] == "good"
        coin = p["coin"]
        # rx_good in the cycle of the last word does not occur behind the real receiver (the CRC follows the payload): whether
        # such a SETUP is reported is not judged; its fields, and everything that follows, are
        may = expect and coin
        if may:
            expect = False
            res.unjudged += 1
        nw = (p["n"] + 3) // 4
        bad_with_last = coin and (p["verdict"] == "bad" or (p["verdict"] == "abort" and p["abort_after"] == nw - 1))
        if coin:
            if p["setup"] and p["n"] == 8:
                res.bin("rx_bad_with_last_word_setup8" if bad_with_last else "rx_good_with_last_word_setup8" if p["verdict"] == "good"
                        else "rx_bad_with_first_word_setup")       # (8 bytes, two words: a coincident abort that is not on the last word is on the first)
            elif p["setup"] and p["n"] >= 4:
                res.bin("rx_bad_with_first_word_setup" if bad_with_first(p) else "coincident_verdict_other_size_setup")
        if k and pkts[k - 1]["coin"] and pkts[k - 1]["setup"] and pkts[k - 1]["n"] == 8 and pkts[k - 1]["verdict"] != "good" and p["verdict"] == "good":
            res.bin("setup_retry_after_coincident_bad_setup8" if (p["setup"] and p["n"] == 8) else "good_packet_after_coincident_bad_setup8")
        # bins
        if p["setup"] and p["n"] == 8:
            res.bin({"good": "setup8_good", "bad": "setup8_bad", "abort": "setup8_aborted"}[p["verdict"]])
            if p["verdict"] == "good" and k and pkts[k - 1]["setup"] and pkts[k - 1]["n"] == 8 and pkts[k - 1]["verdict"] != "good":
                res.bin("good_setup_after_bad_setup")
        elif p["setup"] and p["verdict"] == "good":
            res.bin("setup_zero_length" if p["n"] == 0 else "setup_short_good" if p["n"] < 8 else "setup_long_good")
        elif not p["setup"] and p["n"] == 8 and p["verdict"] == "good":
            res.bin("nonsetup8_good")
        if p["setup"] and p["n"] == 16 and p["verdict"] == "good":
            res.bin("setup16_good")
        if p["delay"] == 1:
            res.bin("verdict_delay_1")
        elif p["delay"] >= 4:
            res.bin("verdict_delay_ge_4")
        src, src_kind = stuck_source(k)
        if src_kind == "short" and not p["setup"] and p["n"] == 4 and p["verdict"] == "good":
            res.bin("nonsetup4_after_short_setup")
        if src_kind == "short" and expect:
            res.bin("valid_setup_after_short_setup")
        desc = "packet %d (setup=%d, %d bytes %s, %s%s, verdict cycle %d)" % (
            k, p["setup"], p["n"], p["data"].hex(), p["verdict"], " in the cycle of word %d" % ((p["abort_after"] if p["verdict"] == "abort" else nw - 1)) if coin else "", tv)
        if expect or (may and mine):
            if not mine:
                if src_kind == "short":
                    res.violation("setup_missed_after_short_setup_packet", "decoder: %s not reported; packet %d was a setup-flagged packet of %d bytes "
                                  "reported good" % (desc, src, pkts[src]["n"]))
                elif src_kind == "abort0":
                    res.violation("setup_missed_after_first_word_aborted_in_same_cycle", "decoder: %s not reported; packet %d was a setup-flagged packet "
                                  "aborted by rx_bad in the cycle of its first word" % (desc, src))
                else:
                    res.violation("setup_not_reported", "decoder: %s not reported" % desc)
            else:
                if len(mine) > 1:
                    res.violation("setup_reported_twice", "decoder: %s reported at cycles %s" % (desc, [m[0] for m in mine]))
                want = fields_of(p["data"])
                got = mine[0][1]
                res.event("fields_compared")
                bad = [f for f in want if want[f] != got[f]]
                if bad:
                    res.violation("setup_field_wrong_%s" % bad[0], "decoder: %s reported with %s, expected %s" % (desc, got, want))
        else:
            for c, got in mine:
                mech = "received_for_setup_packet_of_wrong_size" if p["setup"] and p["verdict"] == "good" else \
                       "received_for_bad_packet" if p["verdict"] != "good" else "received_for_non_setup_packet"
                if src is not None and p["n"] == 4 and p["verdict"] == "good" and not coin:
                    merged = fields_of(pkts[src]["data"][:4] + p["data"])
                    if merged == got:
                        mech = "short_setup_packet_completed_by_later_packet" if src_kind == "short" else \
                               "first_word_aborted_in_same_cycle_completed_by_later_packet"
                else:
                    # the fields of an earlier setup packet that was reported bad?
                    for q in reversed(pkts[max(0, k - 4):k]):
                        if q["setup"] and q["n"] == 8 and q["verdict"] != "good" and (q["verdict"] == "bad" or (q["coin"] and q["abort_after"] == 1)) \
                                and fields_of(q["data"]) == got:
                            mech = "bad_setup_packet_reported_on_later_verdict"
                            break
                res.violation(mech, "decoder: received pulsed at cycle %d for %s; fields %s" % (c, desc, got))
    while si < len(strobes):
        res.violation("received_without_packet_verdict", "decoder: received pulsed at cycle %d after the last packet" % strobes[si][0])
        si += 1
    return {"packets": len(pkts), "first": [(p["setup"], p["n"], p["verdict"]) for p in pkts[:8]]}


# ====================================================================================== B. GET_DESCRIPTOR handler
COMMON_LENS = [1, 2, 3, 4, 5, 7, 8, 9, 12, 16, 18, 22, 25, 32, 44, 63, 64, 65]


def make_collection(rng, res):
    n = rng.choice([1, 2, 3, 3, 4, 5, 7])
    keys = set()
    descs = []
    long_one = rng.random() < 0.2
    while len(descs) < n:
        t = rng.choice([1, 2, 3, 3, 6, 15, 0x21, 0x22, rng.randint(1, 255)])
        i = rng.choice([0, 0, 1, 2, 3, rng.randint(0, 255)])
        if descs and rng.random() < 0.3:
            # neighbours that differ from an existing key in one field only
            t0, i0, _ = rng.choice(descs)
            t, i = rng.choice([(t0, (i0 + 1) & 0xFF), ((t0 % 255) + 1, i0), (t0, i0 ^ 0x80)])
        if (t, i) in keys or t == 0:
            continue
        keys.add((t, i))
        ln = rng.choice(COMMON_LENS + [rng.randint(1, 90)])
        if long_one and not descs:
            ln = rng.choice([255, 256, 256, 257, 260, 300, 511, 512, 513, 700, 1023, 1024])     # longer than one byte can count
        body = bytes(rng.randrange(256) for _ in range(ln))
        if ln >= 2:
            body = bytes([ln & 0xFF, t]) + body[2:]     # looks like a descriptor; irrelevant for the handler
        descs.append((t, i, body))
    if n == 1:
        res.bin("single_descriptor_collection")
    return descs


def handler_session(rng, res):
    from luna.gateware.usb.usb3.application.descriptor import GetDescriptorHandler
    descs = make_collection(rng, res)
    use_real = rng.random() < 0.35
    if use_real:
        from usb_protocol.emitters import DeviceDescriptorCollection
        coll = DeviceDescriptorCollection(automatic_language_descriptor=False)
        for t, i, body in descs:
            coll.add_descriptor(body, index=i, descriptor_type=t)
        table = {(t, i): bytes(raw) for t, i, raw in coll}
        res.bin("collection_real")
    else:
        coll = list(descs)
        table = {(t, i): body for t, i, body in descs}
        res.bin("collection_list")
    # usb_domain: the default "ss", "sync" (the branch without DomainRenamer) or another name.  The handler sits in a rig that
    # also contains the two other domains as bystanders with their own, unrelated clocks: logic left behind in "sync" / "ss"
    # would run on the wrong clock instead of failing to elaborate.
    from amaranth import Elaboratable, Module, Signal, ClockDomain
    domain = rng.choice(["ss", "ss", "sync", "sync", "usb", "fast"])
    res.bin("usb_domain_ss" if domain == "ss" else "usb_domain_sync" if domain == "sync" else "usb_domain_other")
    explicit = domain != "ss" or rng.random() < 0.5
    dut = GetDescriptorHandler(coll, usb_domain=domain) if explicit else GetDescriptorHandler(coll)
    bystanders = [d for d in ("sync", "ss", "usb") if d != domain][:2]

    class Rig(Elaboratable):
        def elaborate(self, platform):
            m = Module()
            m.submodules.dut = dut
            for d in bystanders:
                m.domains += ClockDomain(d)
                c = Signal(8, name="bystander_" + d)
                m.d[d] += c.eq(c + 1)
            return m

    tx = dut.tx
    nreq = rng.randint(14, 26)
    maxlen = max(len(v) for v in table.values())
    b = Bench(Rig(), domain=domain, freq=125e6, clocks={bystanders[0]: 125e6 / 3.1, bystanders[1]: 125e6 * 0.43},
              max_cycles=nreq * (400 + 4 * maxlen) + 500)
    b.watch(tx.valid, tx.ready, tx.last, tx.payload, dut.tx_length, dut.stall)
    ready_profile = rng.choice(["always", "random", "random", "bursty", "low_until_valid", "stall_last"])
    p_ready = rng.choice([0.3, 0.6, 0.85])
    res.sig(sorted(table.items()), use_real, ready_profile, p_ready, domain, explicit)
    keys = sorted(table)

    S = {"words": [], "in_stream": False, "prev": None, "first_cycle": None, "tx_length": None, "stalls": [],
         "done": False, "expect_words": 0}

    def monitor(b):
        res.event("handler_cycles")
        v = b.get(tx.valid)
        if b.get(dut.stall):
            S["stalls"].append(b.cycle)
        if v:
            word = (v, b.get(tx.payload) & ((1 << (8 * NBYTES.get(v, 4))) - 1), b.get(tx.last))
            if not S["in_stream"]:
                S["in_stream"] = True
                if S["first_cycle"] is None:
                    S["first_cycle"] = b.cycle
                    S["tx_length"] = b.get(dut.tx_length)
            if S["prev"] is not None and S["prev"] != word:
                res.violation("descriptor_word_changed_while_not_ready", "handler: cycle %d word %s -> %s" % (b.cycle, S["prev"], word))
            if b.get(tx.ready):
                S["words"].append((b.cycle,) + word)
                S["prev"] = None
                if word[2]:
                    S["done"] = True
            else:
                S["prev"] = word
                res.bin("tx_stalled")
                if word[2]:
                    res.bin("tx_stall_on_last_word")
        else:
            if S["prev"] is not None:
                res.violation("descriptor_word_withdrawn_while_not_ready", "handler: cycle %d word %s" % (b.cycle, S["prev"]))
                S["prev"] = None
            S["in_stream"] = False

    def ready_driver():
        run, val = 0, 1
        while True:
            if ready_profile == "always":
                val = 1
            elif ready_profile == "random":
                val = int(rng.random() < p_ready)
            elif ready_profile == "bursty":
                if run <= 0:
                    val ^= 1
                    run = rng.randint(1, 5) if not val else rng.randint(1, 9)
                run -= 1
            elif ready_profile == "low_until_valid":
                val = 1 if S["in_stream"] and rng.random() < 0.8 else int(S["in_stream"])
                if not S["in_stream"]:
                    val = 0
            elif ready_profile == "stall_last":
                val = 1
                if S["in_stream"] and len(S["words"]) >= S["expect_words"] - 1 and rng.random() < 0.6:
                    val = 0
            b.set(tx.ready, val)
            yield

    def choose_request():
        k = rng.random()
        if k < 0.68 or not keys:
            key = rng.choice(keys)
        elif k < 0.84:
            t, i = rng.choice(keys)
            bit = rng.randrange(16)
            v = (t << 8 | i) ^ (1 << bit)
            key = (v >> 8, v & 0xFF)
            if key not in table:
                res.bin("desc_unknown_one_bit_off")
        elif k < 0.94:
            # aliases a sloppy selector would accept: type or index of a present descriptor alone, or mixed from two of them
            (t, i), (t2, i2) = rng.choice(keys), rng.choice(keys)
            key = rng.choice([(0, i), (t, 0), (t, i2), (t2, i), (i, t), (0, t), (i, 0)])
            key = (int(key[0]) & 0xFF, int(key[1]) & 0xFF)
            if key not in table:
                res.bin("desc_unknown_alias")
        else:
            key = (rng.randint(0, 255), rng.randint(0, 255))
        ln = len(table[key]) if key in table else rng.choice(COMMON_LENS)
        wl = rng.choice([0, 1, 2, 3, 4, 5, ln - 1, ln - 1, ln, ln, ln + 1, ln + 8, ln + 256, 0xFFFF, rng.randint(0, ln + 8), rng.randint(1, max(1, ln)),
                         0x100 + rng.randint(0, ln), 0x8000 + rng.randint(0, ln), 256 * rng.randint(1, 255) + rng.randint(0, ln)])
        wl = max(0, min(0xFFFF, wl))
        return key, wl

    first = []

    def driver():
        for _ in range(3):
            yield
        for r in range(nreq):
            key, wl = choose_request()
            value = key[0] << 8 | key[1]
            res.sig(value, wl)
            if len(first) < 8:
                first.append((hex(value), wl, key in table))
            known = key in table
            want = table[key][:wl] if known else b""
            S.update(words=[], first_cycle=None, tx_length=None, stalls=[], done=False, expect_words=(len(want) + 3) // 4)
            b.set(dut.value, value); b.set(dut.length, wl)
            for _ in range(rng.choice([0, 0, 1, 3])):
                yield
            b.set(dut.start, 1)
            t_start = b.cycle + 1
            yield
            b.set(dut.start, 0)
            res.event("descriptor_requests")
            # ---- wait for the end of the answer
            if known and want:
                n = 0
                limit = START_WINDOW + len(want) * 12 + 60
                while not S["done"] and n < limit:
                    yield
                    n += 1
                    if S["first_cycle"] is None and b.cycle > t_start + START_WINDOW:
                        break
                for _ in range(3):
                    yield
            else:
                for _ in range(START_WINDOW + 4):
                    yield
            # ---- judge
            ctx = "handler: request value=%#06x wLength=%d (descriptor %s, %d bytes) started at %d" % (
                value, wl, "known" if known else "unknown", len(table.get(key, b"")), t_start)
            stalls = [c for c in S["stalls"] if c >= t_start]
            if known:
                res.bin("desc_known")
                ln = len(table[key])
                res.bin("wlength_0" if wl == 0 else "wlength_lt_len" if wl < ln else "wlength_eq_len" if wl == ln else "wlength_gt_len")
                if wl >= 256 and (wl & 0xFF) <= ln:
                    res.bin("wlength_len_plus_256")
                if 0 < wl < ln and wl % 4:
                    res.bin("wlength_cuts_mid_word")
                if ln % 4:
                    res.bin("desc_len_not_multiple_of_4")
                if len(want) > 255:
                    res.bin("desc_answer_gt_255_bytes")
                if stalls:
                    res.violation("stall_for_known_descriptor", "%s: stall at %s" % (ctx, stalls))
                words = S["words"]
                if not want:
                    if words or S["first_cycle"] is not None:
                        res.violation("data_for_zero_length_request", "%s: %d words" % (ctx, len(words)))
                    continue
                if S["first_cycle"] is None:
                    res.violation("descriptor_not_sent", "%s: no tx.valid within %d cycles" % (ctx, START_WINDOW))
                    continue
                if not S["done"]:
                    res.violation("descriptor_stream_not_finished", "%s: %d words transferred, no `last`" % (ctx, len(words)))
                    continue
                li = [j for j, w in enumerate(words) if w[3]][0]
                extra = words[li + 1:]
                words = words[:li + 1]
                got = b"".join(w[2].to_bytes(4, "little")[:NBYTES.get(w[1], 4)] for w in words)
                masks_ok = all(w[1] == 0b1111 for w in words[:-1]) and words[-1][1] in NBYTES
                res.event("descriptor_bytes_compared", len(want))
                if got != want or not masks_ok:
                    if len(got) != len(want):
                        mech = "descriptor_length_wrong"
                    elif not masks_ok:
                        mech = "descriptor_byte_mask_wrong"
                    else:
                        mech = "descriptor_bytes_wrong"
                    res.violation(mech, "%s: got %d bytes %s masks %s, expected %d bytes %s" % (
                        ctx, len(got), got[:24].hex(), [bin(w[1]) for w in words[-3:]], len(want), want[:24].hex()))
                res.event("tx_length_compared")
                if S["tx_length"] != len(want):
                    mech = "tx_length_wrong"
                    if S["tx_length"] == wl and wl > ln:
                        mech = "tx_length_is_requested_length"
                    res.violation(mech, "%s: tx_length=%d in the first valid cycle, expected %d" % (ctx, S["tx_length"], len(want)))
                if extra:
                    res.violation("descriptor_words_after_last", "%s: %d words after the word flagged last" % (ctx, len(extra)))
            else:
                res.bin("desc_unknown")
                if S["words"] or S["first_cycle"] is not None:
                    res.violation("data_for_unknown_descriptor", "%s: %d words" % (ctx, len(S["words"])))
                good = [c for c in stalls if c <= t_start + 2]
                if not good:
                    res.violation("unknown_descriptor_not_stalled", "%s: stall cycles %s" % (ctx, stalls))
                else:
                    res.event("stalls_seen")
                if len(stalls) > 1:
                    res.violation("stall_repeated", "%s: stall cycles %s" % (ctx, stalls))
            for _ in range(rng.choice([0, 1, 2, 6])):
                yield

    b.add_driver(driver(), main=True)
    b.add_driver(ready_driver(), main=False)
    b.add_monitor(monitor)
    b.run()
    res.cycles += b.cycle
    return {"descriptors": [(t, i, len(d)) for (t, i), d in sorted(table.items())], "real_collection": use_real, "usb_domain": domain,
            "ready": ready_profile, "first_requests": first}


def run_case(rng, tier, res):
    res.cycles = 0
    d1 = decoder_session(rng, res)
    d2 = handler_session(rng, res)
    res.desc = {"decoder": d1, "handler": d2}
    bins = res.bins
    res.nontrivial = (bins.get("setup8_good", 0) >= 3 and (bins.get("setup8_bad", 0) + bins.get("setup8_aborted", 0)) >= 1
                      and (bins.get("setup_short_good", 0) + bins.get("setup_long_good", 0)) >= 1
                      and bins.get("desc_unknown", 0) >= 1 and bins.get("wlength_lt_len", 0) >= 1)
