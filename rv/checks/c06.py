"""C06 -- SETUP requests are decoded exactly and survive earlier corrupted packets.

DUTs (one per case, drawn from the seed):
  * sa_hs / sa_fs : real USBSetupDecoder(utmi, standalone=True) with its own tokenizer, CRC unit and timer,
                    `speed` held at HIGH / FULL (60 MHz timing tables); device address is the reset value 0.
  * dev_fs12      : real USBDevice(bus=UTMIInterface()) (12 MHz full-speed tables) with a control endpoint whose only
                    request handler is a passive spy (sees `setup.*`); unclaimed requests go to luna's fallback.
  * dev_fs60      : same with `always_fs=False, data_clock=60e6`, `full_speed_only` held (60 MHz full-speed tables).
    In the device the shared CRC unit, the data receiver, the handshake generator and the endpoint multiplexer are
    in the loop; the device address is set to a random value through a driver endpoint (public add_endpoint()).

Workload: a session of 25-60 "blocks".  A block is an optional run of 0-2 damaged / unrelated packets followed by a
SETUP transaction variant (good 8 bytes; 0-12 bytes with good CRC; CRC damaged in one bit; truncated; valid packet
with extra tail bytes; over-long packets (9-24 bytes) with PID-looking bytes at offsets 9-15, CRC-valid as a whole or
ending in the complete image of a valid 8-byte DATA0 packet; another token / SOF / handshake / damaged packet between token and data; token without data;
data without token), or unrelated traffic (transactions to a foreign address that differ from ours in one bit,
IN/OUT/PING to us, SOF, handshakes, garbage).  Damaged packets: data packets of every length with failing CRC,
PID-only / aborted data packets, over-long packets, tokens with bad CRC5 / PID check / length, empty rx_active pulses.
Gaps between host packets are drawn from the realistic range of the speed, with a share of tight 1-3 cycle gaps where
no device response can be pending; rx byte-gap profile and tx_ready back-pressure are drawn per case.

Monitors: every cycle: `received` strobe with the five fields (spy handler in the device, `packet` in stand-alone),
`ack` strobe (stand-alone) / handshake packets on the wire with the cycle `tx_valid` rose (device), rx_active edges.

Oracle (written from the statement and USB 2.0 ch. 8; packets are classified by rv.ref.usb2 only): `pending` is set
by a well-formed SETUP token to our address / endpoint 0 and cleared by every other well-formed token; a data packet
is reported iff pending and CRC16-valid and exactly 8 payload bytes, exactly once, with the fields = little-endian
bytes; exactly one ACK, not earlier than the minimum inter-packet gap of the speed (HS 1, FS 10 resp. 2 cycles after
rx_active fell) and within the response window; no report and no ACK for anything else.

Not judged (counted as unjudged): the data packet when something that is neither idle nor a well-formed token sat
between the SETUP token and it (handshake, damaged packet: the statement does not say whether the SETUP is still
pending); SETUP data with a PID other than DATA0 (a host never sends it); responses to PING (the control endpoint
may ACK them).  A SETUP transaction to our address but another endpoint number is judged in the device (the control
endpoint must neither report it to its request handlers nor ACK it) and unjudged on the stand-alone decoder, which has
no endpoint number.  The exact ACK cycle is C05's subject.

Reference state after a miss: when an expected report does not come, the reference no longer knows whether the decoder
still waits for data; everything up to the next token addressed to us is then unjudged (no cascades of one failure).

Known-finding classifier (names the mechanism, never decides the verdict; history patterns only):
  * `..._after_damaged_data_packet`: a data-PID packet with failing CRC ended so recently that at most ten bytes (counted
    from its first payload byte) were on the wire before the judged data packet started (stuck deserializer, finding A);
  * `setup_missed_after_unfinished_setup`: the SETUP token of the missed transaction arrived while an earlier SETUP
    token was still open (no report observed, no CRC-valid data packet of <= 8 bytes since) (finding B);
  * `setup_missed_after_damaged_setup_data`: both patterns at once;
  * `setup_reported_after_intervening_{foreign,sof}_token`: report although a well-formed token for another address /
    a SOF came between our SETUP token and the data packet (finding C).
Every other miss / spurious report / ACK anomaly keeps a generic mechanism name and fails the run.
"""
from rv.sim import Bench
from rv.usb2host import UTMIHost, init_device_signals
from rv.ref import usb2 as U

PROPERTY = "C06"
CASES = {"quick": 288, "thorough": 4800}
RULE = ("case = (DUT mode, own address, rx byte-gap profile, tx_ready profile, script of 25-60 blocks = [0-2 damaged/unrelated "
        "packets] + SETUP transaction variant | unrelated traffic); non-trivial = >=3 valid SETUPs of which >=1 directly after a "
        "damaged packet, and >=1 rejected SETUP attempt; distinct = hash of mode, address and the packet script")
PRE_KINDS = ["data_badcrc_short", "data_badcrc_8", "data_truncated", "data_overlong", "data_pid_only", "token_badcrc5",
             "token_truncated", "token_overlong", "bad_pid", "handshake", "foreign_setup_txn", "own_out_txn", "own_in",
             "sof", "stray_data", "garbage", "empty", "setup_token_only", "data_overlong_pidlike"]
REQUIRED_BINS = (["mode_sa_hs", "mode_sa_fs", "mode_dev_fs12", "mode_dev_fs60", "valid_setup", "valid_setup_back_to_back",
                  "setup_wrong_len_short", "setup_wrong_len_long", "setup_len_7", "setup_len_9", "setup_len_0", "setup_bad_crc",
                  "setup_truncated", "setup_tail", "setup_data_bad_pid", "setup_overlong_embedded_setup_tail",
                  "setup_overlong_pidlike_crc_valid", "setup_token_other_endpoint", "judged_data_after_setup_to_other_endpoint", "data8_without_setup_token", "own_token_between", "foreign_token_between",
                  "sof_between", "junk_between", "tight_gap_before_setup", "nonzero_address", "foreign_addr_one_bit",
                  "payload_single_bit", "rx_gaps", "tx_backpressure", "setup_token_repeated", "retry_after_rejected_setup_data",
                  "judged_data_after_foreign_token", "judged_data_after_sof_token"]
                 + ["pre_" + k for k in PRE_KINDS])
REQUIRED_EVENTS = ["cycles_monitored", "host_packets", "received_strobes", "acks_seen", "judged_expect_report",
                   "judged_expect_silence", "fields_compared", "ack_timing_checked"]
ASSUMPTIONS = [
    "a data packet is not judged when a handshake or a damaged packet sat between the SETUP token and it",
    "SETUP data packets with a PID other than DATA0 are not judged",
    "the host leaves the response window free after a packet the device may answer (legal host); tight gaps only elsewhere",
    "minimum gap is measured in cycles from the first cycle rx_active is low to the first cycle tx_valid (ack strobe) is high",
    "HS is exercised on the stand-alone decoder only (a HS USBDevice needs the ~300k-cycle chirp handshake)",
]

MODES = {
    #          device  host timing  min gap  max response  speed input
    "sa_hs":    (False, "hs60",      1,       40,           0),
    "sa_fs":    (False, "fs60",      10,      60,           1),
    "dev_fs12": (True,  "fs12",      2,       40,           None),
    "dev_fs60": (True,  "fs60",      10,      120,          None),
}
ACK_BYTE = U.pid_byte(U.ACK)


# ------------------------------------------------------------------------------------------------ script generation

def _payload(rng, n, res=None):
    r = rng.random()
    if r < 0.55:
        return bytes(rng.randrange(256) for _ in range(n))
    if r < 0.63:
        return bytes(n)
    if r < 0.71:
        return bytes([0xFF] * n)
    if r < 0.85:
        p = bytearray(n)
        if n:
            p[rng.randrange(n)] = 1 << rng.randrange(8)
            if res is not None:
                res.bin("payload_single_bit")
        return bytes(p)
    # bytes that look like packets / PIDs
    src = U.token(U.SETUP, rng.randrange(128), 0) + U.data(U.DATA0, b"")[:3] + bytes([U.pid_byte(U.ACK), U.pid_byte(U.DATA0)]) * 3
    off = rng.randrange(4)
    return bytes((src * 3)[off:off + n])


PIDLIKE = [U.pid_byte(U.DATA0), U.pid_byte(U.DATA1), U.pid_byte(U.SETUP), U.pid_byte(U.OUT), U.pid_byte(U.IN), U.pid_byte(U.ACK)]


def _overlong(rng, embedded_tail):
    """Over-long data packet (9..24 payload bytes) whose bytes at packet offsets 9..15 look like PIDs.
    embedded_tail: the packet *ends* with a complete, CRC-valid 8-byte DATA0 packet image (PID c3 at a random offset
    10..15), so a receiver that re-synchronises in the middle of the packet sees a valid SETUP payload; the whole
    packet then fails its own CRC.  Otherwise the whole packet is CRC-valid."""
    if embedded_tail:
        o = rng.randint(10, 15)                                       # packet offset of the embedded PID byte
        pre = bytes(rng.choice(PIDLIKE) if (i >= 8 or rng.random() < 0.3) else rng.randrange(256) for i in range(o - 1))
        x = _payload(rng, 8)
        return bytes([U.pid_byte(U.DATA0)]) + pre + U.data(U.DATA0, x)
    n = rng.randint(9, 24)
    pay = bytearray(rng.randrange(256) for _ in range(n))
    for i in range(8, min(n, 15)):                                    # payload index 8..14 = packet offset 9..15
        pay[i] = rng.choice(PIDLIKE) if rng.random() < 0.8 else pay[i]
    if rng.random() < 0.5 and n >= 12:
        t = U.token(U.SETUP, rng.randrange(128), 0)
        pay[9:12] = t                                                  # a SETUP-token image inside the payload
    return U.data(rng.choice([U.DATA0, U.DATA1]), bytes(pay))


def _flip(rng, pkt, lo=1):
    p = bytearray(pkt)
    i = rng.randrange(lo, len(p))
    p[i] ^= 1 << rng.randrange(8)
    return bytes(p)


class Script:
    def __init__(self, rng, own, device, res):
        self.rng, self.own, self.device, self.res = rng, own, device, res
        self.steps = []

    def foreign(self):
        rng = self.rng
        if rng.random() < 0.5:
            self.res.bin("foreign_addr_one_bit")
            return self.own ^ (1 << rng.randrange(7))
        while True:
            a = rng.randrange(128)
            if a != self.own:
                return a

    def add(self, kind, data, *, abort=None, gap=None, respond=False, tag=None):
        sent = bytes(data) if abort is None else bytes(data)[:abort]
        if U.classify(sent)["kind"] == "data":
            respond = True      # somebody on the bus answers a complete data packet: a host leaves the window free
        self.steps.append({"kind": kind, "data": bytes(data), "abort": abort, "gap": gap, "respond": respond, "tag": tag})

    # -- damaged / unrelated packets -------------------------------------------------------------
    def filler(self, kind):
        rng, own = self.rng, self.own
        if kind == "data_badcrc_short":
            p = U.data(rng.choice([U.DATA0, U.DATA1]), _payload(rng, rng.randint(0, 6)))
            self.add(kind, _flip(rng, p))
        elif kind == "data_badcrc_8":
            self.add(kind, _flip(rng, U.data(rng.choice([U.DATA0, U.DATA1]), _payload(rng, 8))))
        elif kind == "data_truncated":
            p = U.data(rng.choice([U.DATA0, U.DATA1]), _payload(rng, rng.choice([1, 2, 3, 4, 6, 8, 8, 12])))
            self.add(kind, p, abort=rng.randint(2, len(p) - 1))
        elif kind == "data_overlong":
            p = U.data(U.DATA0, _payload(rng, rng.choice([0, 2, 8, 8]))) + bytes(rng.randrange(256) for _ in range(rng.randint(1, 4)))
            self.add(kind, p)
        elif kind == "data_pid_only":
            self.add(kind, bytes([U.pid_byte(rng.choice(U.DATA_PIDS))]) + bytes(rng.randrange(256) for _ in range(rng.choice([0, 0, 1]))))
        elif kind == "token_badcrc5":
            t = U.token(rng.choice([U.SETUP, U.SETUP, U.IN, U.OUT]), own, 0)
            self.add(kind, _flip(rng, t))
        elif kind == "token_truncated":
            t = U.token(rng.choice([U.SETUP, U.IN, U.OUT]), own, 0)
            self.add(kind, t, abort=rng.randint(1, 2))
        elif kind == "token_overlong":
            t = U.token(rng.choice([U.SETUP, U.SETUP, U.OUT]), own, 0) + bytes(rng.randrange(256) for _ in range(rng.randint(1, 3)))
            self.add(kind, t)
        elif kind == "bad_pid":
            p = bytearray(rng.choice([U.token(U.SETUP, own, 0), U.data(U.DATA0, _payload(rng, 8)), U.handshake(U.ACK)]))
            p[0] ^= 1 << rng.randrange(8)
            self.add(kind, bytes(p))
        elif kind == "handshake":
            self.add(kind, U.handshake(rng.choice(U.HANDSHAKE_PIDS)))
        elif kind == "foreign_setup_txn":
            a = self.foreign()
            self.add("foreign_setup_token", U.token(U.SETUP, a, 0))
            self.add("foreign_setup_data", U.data(U.DATA0, _payload(rng, 8)), gap="td")
        elif kind == "own_out_txn":
            self.add("own_out_token", U.token(U.OUT, own, 0))
            d = U.data(rng.choice([U.DATA0, U.DATA1]), _payload(rng, rng.choice([0, 0, 1, 8, 8, 12])))
            if rng.random() < 0.25:
                d = _flip(rng, d)
            self.add("own_out_data", d, gap="td", respond=True)
        elif kind == "own_in":
            self.add(kind, U.token(rng.choice([U.IN, U.IN, U.PING]), own, 0), respond=True)
        elif kind == "sof":
            self.add(kind, U.sof(rng.randrange(2048)))
        elif kind == "stray_data":
            self.add(kind, U.data(rng.choice([U.DATA0, U.DATA1]), _payload(rng, rng.choice([0, 3, 8, 8, 8]))), respond=True)
        elif kind == "garbage":
            self.add(kind, bytes(rng.randrange(256) for _ in range(rng.randint(1, 13))), respond=True)
        elif kind == "empty":
            self.add(kind, b"\x00", abort=0)
        elif kind == "setup_token_only":
            self.add(kind, U.token(U.SETUP, own, 0))
        elif kind == "data_overlong_pidlike":
            # e.g. a bulk OUT to another endpoint / another device carrying PID-looking bytes
            if rng.random() < 0.5:
                self.add("out_token_other_ep", U.token(U.OUT, own, rng.randint(1, 15)))
            else:
                self.add("out_token_foreign", U.token(U.OUT, self.foreign(), rng.randrange(16)))
            self.add(kind, _overlong(rng, rng.random() < 0.4), gap="td")
        else:
            raise ValueError(kind)

    # -- SETUP transaction variants --------------------------------------------------------------
    def setup_txn(self, variant, tight=False):
        rng, own, res = self.rng, self.own, self.res
        tok = U.token(U.SETUP, own, 0)
        gap = "tight" if tight else None
        if variant == "stray8":
            # valid 8-byte DATA0 without a SETUP token in front: after a token to us that is not SETUP, or out of the blue
            if rng.random() < 0.6:
                self.add("own_other_token", U.token(rng.choice([U.OUT, U.OUT, U.PING]), own, 0), gap=gap)
                self.add("data8_no_setup", U.data(U.DATA0, _payload(rng, 8)), gap="td", respond=True, tag="data8_without_setup_token")
            else:
                self.add("data8_no_setup", U.data(U.DATA0, _payload(rng, 8)), gap=gap, respond=True, tag="data8_without_setup_token")
            return
        self.add("setup_token", tok, gap=gap)
        if variant == "good":
            self.add("setup_data_good", U.data(U.DATA0, _payload(rng, 8, res)), gap="td", respond=True)
        elif variant == "wrong_len":
            n = rng.choice([0, 0, 1, 2, 3, 4, 5, 6, 7, 7, 7, 9, 9, 9, 10, 11, 12, 16])
            self.add("setup_data_len%d" % n, U.data(U.DATA0, _payload(rng, n)), gap="td", respond=True)
        elif variant == "bad_crc":
            self.add("setup_data_badcrc", _flip(rng, U.data(U.DATA0, _payload(rng, 8))), gap="td", respond=True, tag="setup_bad_crc")
        elif variant == "truncated":
            p = U.data(U.DATA0, _payload(rng, 8))
            self.add("setup_data_truncated", p, abort=rng.randint(1, len(p) - 1), gap="td", respond=True, tag="setup_truncated")
        elif variant == "tail":
            # a complete valid 8-byte packet followed by more bytes inside the same packet
            p = U.data(U.DATA0, _payload(rng, 8)) + bytes(rng.randrange(256) for _ in range(rng.randint(1, 3)))
            self.add("setup_data_tail", p, gap="td", respond=True, tag="setup_tail")
        elif variant == "other_ep":
            # a complete, valid SETUP transaction to our address but NOT to the control endpoint
            self.steps[-1]["data"] = U.token(U.SETUP, own, rng.randint(1, 15))
            self.steps[-1]["kind"] = "setup_token_other_ep"
            self.steps[-1]["tag"] = "setup_token_other_endpoint"
            self.add("setup_data_other_ep", U.data(U.DATA0, _payload(rng, 8)), gap="td", respond=True)
        elif variant == "overlong_pidlike":
            emb = rng.random() < 0.55
            self.add("setup_data_overlong_pidlike", _overlong(rng, emb), gap="td", respond=True,
                     tag="setup_overlong_embedded_setup_tail" if emb else "setup_overlong_pidlike_crc_valid")
        elif variant == "bad_pid_data":
            p = bytearray(U.data(U.DATA0, _payload(rng, 8)))
            p[0] ^= 1 << rng.randrange(4, 8)            # PID check nibble damaged: not a data packet at all
            self.add("setup_data_badpid", bytes(p), gap="td", respond=True, tag="setup_data_bad_pid")
        elif variant == "other_pid":
            self.add("setup_data_otherpid", U.data(rng.choice([U.DATA1, U.DATA2, U.MDATA]), _payload(rng, 8)), gap="td", respond=True)
        elif variant == "between":
            w = rng.random()
            if w < 0.3:
                self.add("own_token_between", U.token(rng.choice([U.OUT, U.OUT, U.PING]), own, 0), gap="td", tag="own_token_between")
            elif w < 0.55:
                self.add("foreign_token_between", U.token(rng.choice([U.OUT, U.SETUP, U.IN]), self.foreign(), rng.choice([0, 0, 1])),
                         gap="td", tag="foreign_token_between")
            elif w < 0.7:
                self.add("sof_between", U.sof(rng.randrange(2048)), gap="td", tag="sof_between")
            else:
                k = rng.choice(["handshake", "token_badcrc5", "bad_pid", "empty", "data_badcrc_short", "garbage"])
                n0 = len(self.steps)
                self.filler(k)
                for s in self.steps[n0:]:
                    s["gap"], s["tag"] = "td", "junk_between"
            self.add("setup_data_after_between", U.data(U.DATA0, _payload(rng, 8)), gap="td", respond=True)
        elif variant == "no_data":
            pass
        else:
            raise ValueError(variant)

    def build(self, nblocks):
        rng = self.rng
        variants = ["good"] * 10 + ["wrong_len"] * 4 + ["bad_crc"] * 2 + ["truncated", "tail", "other_pid", "bad_pid_data", "no_data", "stray8", "stray8", "overlong_pidlike", "overlong_pidlike", "other_ep", "other_ep"] + ["between"] * 3
        for _ in range(nblocks):
            r = rng.random()
            if r < 0.72:
                npre = rng.choice([0, 1, 1, 1, 2])
                for _ in range(npre):
                    self.filler(rng.choice(PRE_KINDS))
                self.setup_txn(rng.choice(variants), tight=rng.random() < 0.35)
                if rng.random() < 0.3:
                    # a retry / next request directly behind
                    self.setup_txn("good", tight=rng.random() < 0.3)
            else:
                self.filler(rng.choice(PRE_KINDS))
        return self.steps


# ------------------------------------------------------------------------------------------------ DUT construction

def _build(mode):
    from amaranth import Module, Elaboratable
    from luna.gateware.interface.utmi import UTMIInterface
    device = MODES[mode][0]
    utmi = UTMIInterface()
    if not device:
        from luna.gateware.usb.usb2.request import USBSetupDecoder
        dut = USBSetupDecoder(utmi=utmi, standalone=True)
        return dut, utmi, dut.packet, dut.ack, None, dut
    from luna.gateware.usb.usb2.device import USBDevice
    from luna.gateware.usb.usb2.endpoint import EndpointInterface
    from luna.gateware.usb.usb2.request import RequestHandlerInterface

    class SpyHandler(Elaboratable):
        def __init__(self):
            self.interface = RequestHandlerInterface()

        def elaborate(self, platform):
            return Module()

    class AddressDriver(Elaboratable):
        def __init__(self):
            self.interface = EndpointInterface()

        def elaborate(self, platform):
            return Module()

    dev = USBDevice(bus=utmi)
    if mode == "dev_fs60":
        dev.always_fs = False
        dev.data_clock = 60e6
    ep0 = dev.add_control_endpoint()
    spy = SpyHandler()
    ep0.add_request_handler(spy)
    drv = AddressDriver()
    dev.add_endpoint(drv)
    return dev, utmi, spy.interface.setup, None, drv, dev


# ------------------------------------------------------------------------------------------------ the case

def run_case(rng, tier, res):
    mode = rng.choice(["sa_hs", "sa_fs", "sa_fs", "dev_fs12", "dev_fs12", "dev_fs60", "dev_fs60"])
    device, timing, min_gap, max_resp, speed_in = MODES[mode]
    res.bin("mode_" + mode)
    own = rng.choice([0, rng.randrange(1, 128), rng.randrange(1, 128)]) if device else 0
    if own:
        res.bin("nonzero_address")
    gap_profile = rng.choice(["none", "none", "random", "fixed4", "onestall"])
    ready_profile = rng.choice(["always", "always", ("random", 0.5), ("every", 3), ("bursty", 6, 4)]) if device else "always"
    if gap_profile != "none":
        res.bin("rx_gaps")
    if ready_profile != "always":
        res.bin("tx_backpressure")

    dut, utmi, setup, ack_sig, drv, top = _build(mode)
    b = Bench(dut, domain="usb", freq=60e6, max_cycles=90000)
    host = UTMIHost(b, utmi, rng, timing=timing, ready_profile=ready_profile, gap_profile=gap_profile)
    fields = [setup.received, setup.recipient, setup.type, setup.is_in_request, setup.request, setup.value, setup.index, setup.length]
    b.watch(*fields)
    if ack_sig is not None:
        b.watch(ack_sig)

    steps = Script(rng, own, device, res).build(rng.randint(25, 60))
    res.sig(mode, own, gap_profile, ready_profile, [(s["kind"], s["data"], s["abort"], s["gap"]) for s in steps])
    res.desc = {"mode": mode, "own_address": own, "gap_profile": gap_profile, "ready_profile": ready_profile,
                "steps": [(s["kind"], s["data"].hex(), s["abort"]) for s in steps[:14]]}

    recs, acks, pkts = [], [], []       # (cycle, fields) / cycle / host packets with start,end
    mon = {"prev_active": 0}

    def monitor(b):
        res.event("cycles_monitored")
        v = [b.get(s) for s in fields]
        if v[0]:
            res.event("received_strobes")
            recs.append((b.cycle, tuple(v[1:])))
        if ack_sig is not None and b.get(ack_sig):
            res.event("acks_seen")
            acks.append(b.cycle)
        a = b.get(utmi.rx_active)
        if mon["prev_active"] and not a and pkts and pkts[-1]["end"] is None:
            pkts[-1]["end"] = b.cycle
        mon["prev_active"] = a

    lo, hi = host.timing["gap"]

    def driver():
        if device:
            init_device_signals(b, top, utmi)
            if mode == "dev_fs60":
                b.set(top.full_speed_only, 1)
            yield from host.idle(3)
            b.set(drv.interface.new_address, own)
            b.set(drv.interface.address_changed, 1)
            yield
            b.set(drv.interface.address_changed, 0)
        else:
            b.set(top.speed, speed_in)
        yield from host.idle(6)
        for i, s in enumerate(steps):
            g = s["gap"]
            if g == "tight":
                n = rng.randint(1, 3)
                res.bin("tight_gap_before_setup")
            elif g == "td":
                n = rng.randint(1, 4) if rng.random() < 0.5 else rng.randint(lo, hi)      # token -> data
            else:
                n = rng.randint(lo, hi)
            yield from host.idle(n)
            sent = s["data"] if s["abort"] is None else s["data"][:s["abort"]]
            pkts.append({"i": i, "kind": s["kind"], "data": sent, "start": b.cycle, "end": None, "tag": s["tag"]})
            res.event("host_packets")
            yield from host.send_raw(s["data"], abort_after=s["abort"])
            if s["respond"]:
                # legal host: leave the response window to the device
                if device:
                    yield from host.wait_response(max_resp // 2 if mode == "dev_fs12" else 40)
                    yield from host.turnaround()
                else:
                    yield from host.idle(max(4, min_gap * 2 + 6))
        yield from host.idle(max_resp + 10)

    b.add_monitor(monitor)
    b.add_driver(driver())
    b.run()
    res.cycles = b.cycle
    if b.hit_max_cycles:
        res.violation("harness_max_cycles", "case did not finish in %d cycles" % b.max_cycles)
        return
    if device:
        for p in host.tx_packets:
            if bytes(p.data) == bytes([ACK_BYTE]):
                res.event("acks_seen")
                acks.append(p.first_valid)
    judge(res, mode, own, pkts, recs, acks, b.cycle)


# ------------------------------------------------------------------------------------------------ oracle

def expected_fields(p):
    return (p[0] & 0x1F, (p[0] >> 5) & 3, p[0] >> 7, p[1], p[2] | (p[3] << 8), p[4] | (p[5] << 8), p[6] | (p[7] << 8))


def _is_data_pid(info, raw):
    if info["kind"] == "data":
        return True
    return info["kind"] == "malformed" and info.get("pid") in U.DATA_PIDS


def _poisoned(pkts, infos, idx):
    """Known-finding classifier: did a data-PID packet with failing CRC end fewer than ten wire bytes (counted from its
    first payload byte) before packet idx started?"""
    between = 0
    j = idx - 1
    while j >= 0 and between <= 10:
        raw = pkts[j]["data"]
        if infos[j]["kind"] == "malformed" and infos[j].get("pid") in U.DATA_PIDS:
            if (len(raw) - 1) + between <= 10:
                return True
        between += len(raw)
        j -= 1
    return False


def judge(res, mode, own, pkts, recs, acks, last_cycle):
    device, timing, min_gap, max_resp, _ = MODES[mode]
    infos = [U.classify(p["data"]) for p in pkts]
    out = []            # (mechanism, detail)
    # reference state.  open_setup: the last well-formed token addressed to us was SETUP/ep0 and no 8-byte CRC-valid data
    # packet has followed yet.  other_token: a well-formed token to another address ('foreign') or a SOF ('sof') came since.
    # junk: something that is neither idle nor a well-formed token came since (=> not judged).  repeat: the SETUP token
    # arrived while a SETUP was already open (classifier only).
    open_setup, other_token, junk = False, None, False
    # classifier state (names the open findings, never decides a verdict): cls_open = the decoder may still be waiting for
    # SETUP data (SETUP token seen, no report observed and no CRC-valid data packet of <= 8 bytes outside a "poisoned"
    # context since); repeat = the SETUP token of the current transaction arrived while cls_open.
    cls_open, repeat = False, False
    other_ep = False        # the last token to us was a SETUP for an endpoint other than 0
    ri = ai = 0
    for idx, (p, info) in enumerate(zip(pkts, infos)):
        if p["end"] is None:
            out.append(("harness_packet_without_end", "packet %d" % idx))
            continue
        w0 = p["end"]
        w1 = pkts[idx + 1]["end"] if idx + 1 < len(pkts) and pkts[idx + 1]["end"] is not None else last_cycle + 1
        my_recs = []
        while ri < len(recs) and recs[ri][0] < w1:
            if recs[ri][0] >= w0:
                my_recs.append(recs[ri])
            else:
                out.append(("setup_reported_during_packet", "strobe at %d before end of packet %d" % (recs[ri][0], idx)))
            ri += 1
        my_acks = []
        while ai < len(acks) and acks[ai] < w1:
            my_acks.append(acks[ai])
            ai += 1
        kind = info["kind"]
        if p["tag"]:
            res.bin(p["tag"])
        pending = (open_setup and not other_token and not junk) or (None if (open_setup and junk and not other_token) else False)
        ctx = "pkt#%d %s %s pending=%s own=%d mode=%s prev=%s" % (
            idx, p["kind"], p["data"].hex(), pending, own, mode, [(q["kind"], q["data"].hex()) for q in pkts[max(0, idx - 4):idx]])
        if _is_data_pid(info, p["data"]):
            valid8 = kind == "data" and len(info["payload"]) == 8
            ambiguous = pending is None or (pending is True and valid8 and info["pid"] != U.DATA0)
            poisoned = _poisoned(pkts, infos, idx)
            if ambiguous:
                res.unjudged += 1
            elif pending is True and valid8:
                res.event("judged_expect_report")
                res.bin("valid_setup")
                if idx >= 2:
                    pk = pkts[idx - 2]["kind"]
                    if pk in PRE_KINDS:
                        res.bin("pre_" + pk)
                    elif pk == "foreign_setup_data":
                        res.bin("pre_foreign_setup_txn")
                    elif pk == "own_out_data":
                        res.bin("pre_own_out_txn")
                    elif pk == "setup_data_good":
                        res.bin("valid_setup_back_to_back")
                    if pk.startswith("setup_data_") and pk != "setup_data_good":
                        res.bin("retry_after_rejected_setup_data")
                if repeat:
                    res.bin("setup_token_repeated")
                if len(my_recs) == 0:
                    # classifier for the open findings (history pattern only; see module docstring)
                    if poisoned and repeat:
                        mech = "setup_missed_after_damaged_setup_data"
                    elif poisoned:
                        mech = "setup_missed_after_damaged_data_packet"
                    elif repeat:
                        mech = "setup_missed_after_unfinished_setup"
                    else:
                        mech = "setup_missed"
                    out.append((mech, ctx))
                    if my_acks:
                        out.append(("setup_acked_but_not_reported", ctx + " acks=%s" % my_acks))
                else:
                    if len(my_recs) > 1:
                        out.append(("setup_reported_twice", ctx + " strobes=%s" % [c for c, _ in my_recs]))
                    res.event("fields_compared")
                    exp = expected_fields(info["payload"])
                    if my_recs[0][1] != exp:
                        out.append(("setup_fields_wrong", ctx + " got(recipient,type,in,request,value,index,length)=%s expected=%s" % (my_recs[0][1], exp)))
                    if len(my_acks) == 0:
                        out.append(("setup_not_acked", ctx))
                    elif len(my_acks) > 1:
                        out.append(("setup_acked_twice", ctx + " acks=%s end=%d" % (my_acks, w0)))
                    if my_acks:
                        res.event("ack_timing_checked")
                        d = my_acks[0] - w0
                        if d < min_gap:
                            out.append(("setup_ack_too_early", ctx + " ack %d cycles after end of packet, minimum %d" % (d, min_gap)))
                        elif d > max_resp:
                            out.append(("setup_ack_late", ctx + " ack %d cycles after end of packet, window %d" % (d, max_resp)))
            else:
                res.event("judged_expect_silence")
                if open_setup and other_token:
                    why = "after_intervening_%s_token" % other_token
                    res.bin("judged_data_after_%s_token" % other_token)
                elif open_setup:
                    if kind == "data":
                        n = len(info["payload"])
                        res.bin("setup_wrong_len_short" if n < 8 else "setup_wrong_len_long")
                        if n in (0, 7, 9):
                            res.bin("setup_len_%d" % n)
                        why = "wrong_length"
                    else:
                        why = "bad_crc"
                else:
                    why = "without_setup_token"
                    if other_ep and valid8:
                        why = "for_setup_to_other_endpoint"
                        res.bin("judged_data_after_setup_to_other_endpoint")
                if poisoned and kind == "data" and not valid8:
                    # open finding: the stuck deserializer reports a concatenation of packets
                    why = "after_damaged_data_packet"
                if my_recs:
                    out.append(("setup_reported_" + why, ctx + " fields=%s" % (my_recs[0][1],)))
                elif my_acks:
                    out.append(("ack_" + why, ctx + " acks=%s end=%d" % (my_acks, w0)))
            # state after a data packet
            if open_setup and not other_token:
                if valid8 and my_recs:
                    open_setup, junk = False, False
                else:
                    junk = True         # also after a miss: the reference no longer knows whether the decoder still waits
            if my_recs or (kind == "data" and len(info["payload"]) <= 8 and not poisoned):
                cls_open = False
        else:
            is_ping_to_us = kind == "token" and info["pid"] == U.PING and info["addr"] == own
            if my_recs:
                # open finding A: the stuck deserializer may complete its concatenation on any packet
                out.append(("setup_reported_after_damaged_data_packet" if _poisoned(pkts, infos, idx) else "setup_reported_without_data_packet", ctx))
                cls_open = False
            elif my_acks and not is_ping_to_us:
                out.append(("ack_without_data_packet", ctx + " acks=%s" % my_acks))
            if kind == "token" and info["addr"] == own:
                other_ep = info["pid"] == U.SETUP and info["endp"] != 0
                if info["pid"] == U.SETUP and info["endp"] == 0:
                    repeat, cls_open = cls_open, True
                    open_setup, other_token, junk = True, None, False
                elif other_ep and not device:
                    # the stand-alone decoder is not the control endpoint (it has no endpoint number): not judged
                    open_setup, other_token, junk = True, None, True
                    cls_open = repeat = False
                else:
                    open_setup, other_token, junk = False, None, False
                    cls_open = repeat = False
            elif kind == "token" or kind == "sof":
                if open_setup:
                    t = "foreign" if kind == "token" else "sof"
                    other_token = t if other_token in (None, t) else "foreign"
            elif open_setup:
                junk = True
    while ri < len(recs):
        out.append(("setup_reported_unattributed", "strobe at %d" % recs[ri][0]))
        ri += 1
    # emit: at most two per mechanism, so that a frequent (known) mechanism cannot crowd out another one
    seen = {}
    for mech, detail in out:
        seen[mech] = seen.get(mech, 0) + 1
        if seen[mech] <= 2:
            res.violation(mech, detail)
    res.nontrivial = (res.bins.get("valid_setup", 0) >= 3 and any(res.bins.get("pre_" + k) for k in PRE_KINDS[:9])
                      and res.events.get("judged_expect_silence", 0) >= 1)
