"""C33 — the transmit CTC inserts SKP words only in place of logical idle, keeps the scrambler still, and keeps the rate.

DUTs (real luna classes, domain "ss"), one harness per case:
  phy  : USB3PhysicalLayer(phy=PIPEInterface(width=4)); the testbench plays the link layer on `sink`/`can_send_skp`
         (Scrambler -> CTCSkipInserter -> PHY pins, including the real `scrambler.hold` wiring) and reads the PHY
         pins `tx_data`/`tx_datak` every cycle.
  link : USB3LinkLayer on a stub physical layer (a bundle of signals); a link-partner model written for this check plays
         LFPS, TS1/TS2, the idle handshake, the header sequence / credit advertisement, acknowledges (or rejects, LBAD) the
         DUT's header packets and sends header packets of its own, while the testbench offers header packets and data
         packets (0..1024 bytes: zero-length, lengths that end in a partial word, full words) on the protocol side: TSEQ, TS1, TS2, link commands (LGOOD/LCRD/LUP/LRTY), header
         packets, data packet payloads and retries appear on the transmit stream, with streams of different arbiter inputs
         back to back.  Warm resets during equaliser training restart the bring-up.  To reach U0 in a short case the
         harness constructs the TSEQ emitter with a burst of 40 ordered sets instead of 65536 (constructor argument
         overridden from the harness, nothing else touched); the thorough tier also runs cases with the unmodified length
         (524288 cycles of TSEQ).

Workload (phy): a COM-led all-control word (synchronises the reference LFSR), then segments drawn from: logical idle with
`can_send_skp` (runs of 1..800 words, also with the permission toggling inside the run), words that look like idle
but are not permitted (all-zero data inside a packet, `valid`=0 filler), header-packet / link-command / data-packet shaped
bursts of tagged symbols (1..266 words; lengths chosen so that the 354-symbol boundary is crossed on the last word of a
burst, on the first idle word, and on a word that is being replaced), COM-led words, backlogs of 2..6 owed sets drained
through single idle words, mostly-idle sessions of 5k-8k words, sessions in which bursts outrun the idle time
(backlog >= 8 sets), scrambling on/off, and electrical idle in the middle of the stream (1..400 cycles, after a burst with a
backlog, inside a permitted idle run, with `can_send_skp` offered or not meanwhile) followed by a new sync word.

Oracle (written from the statement and USB 3.2 6.4.3 / appendix B; rv/ref/c31_lfsr.py is the bit-serial LFSR of the
specification, self-tested on the TSEQ vector): the word on the PHY pins `lat` cycles after a word was accepted from the link
(lat = constant measured on the sync word, not prescribed) is either
  * a SKP word (4 x K28.1): allowed only if the accepted word was logical idle offered with `can_send_skp`; it counts as
    two SKP ordered sets and does not move the reference descrambler; or
  * the accepted word, scrambled: the reference descrambler (advances 4 symbols per non-SKP word, restarts after COM in
    symbol 0) must return exactly the accepted symbols and control flags.  So nothing is dropped, altered, duplicated or
    reordered, and the keystream position is unchanged across inserted SKPs.
Rate: with N = symbols put on the pins since the transmitter left electrical idle (all symbols, SKPs included) and S = SKP
ordered sets so far, S <= floor((N + 16)/354) at all times (no set before it is scheduled), and whenever
floor((N - 16)/354) - S >= 2 at a permitted idle word, a SKP word must appear within the next 4 permitted idle words (not too
few; pairs, as luna sends them, and single sets both satisfy this).  16 symbols = 4 words of allowance for the phase of the
DUT's own counter.

link harness: the stream offered to the physical layer is parsed with the USB 3.2 framing rules (header packet, link command,
data packet payload, training sets); every cycle `can_send_skp` must imply that the offered word is logical idle (`valid` is
not demanded: the physical layer does not look at it) and not part of a packet or ordered set; outside electrical idle, logical-idle filler between packets must carry the
permission except for at most two words per run of filler (the arbiter's switching cycle); a word offered with `valid` low
must be logical idle (the physical layer transmits whatever is on `sink` in every cycle).  With the phy harness (any link
stream, permission only on filler) this composes to the statement for the real stack.

Finding on the unchanged tree (findings/C33.md): `skp_backlog_forgotten_at_8_sets` — the 3-bit backlog counter wraps.

Deviation from DESIGN.md 7/C33: the rate clause is judged on all transmitted symbols with a 4-word phase allowance instead
of "within 3 cycles"; the link harness is a separate case type rather than part of every case and reaches U0 already in the
quick tier (shortened TSEQ burst); `can_send_skp` is not compared with the arbiter's `idle` signal (an equivalent permission
source, e.g. `~arbiter.source.valid`, keeps the property) but with the framing of the offered stream; `arbiter.idle` is
observed through the registry for coverage only.

Back-pressure: if the layer does not take a word in some cycle (outside electrical idle today's luna always does), the slot
on the pins that belongs to that cycle may only carry a SKP word, and only while the waiting word is permitted logical idle
(`word_transmitted_while_link_stalled`, `skp_inserted_while_non_idle_word_waits`); the stream after the stall is judged as
before.  Electrical idle: words whose slot falls into an episode, and everything up to the next COM-led sync word accepted
after the transmitter is on again, are not judged (nothing is transmitted; luna repeats the waiting word on the pins when it
resumes, which the statement does not cover); from that sync word on everything is judged again.  The "too few" side of the
rate restarts with each switch-on (the statement does not say whether a backlog survives electrical idle), the "too many"
side counts all symbols and sets since the first switch-on with 2 more words of allowance per episode.

Not judged: the stream before the first sync word (start-up of the registered `ready`); COM in symbols 1..3 and COM followed by data symbols (C31); what the receiver
does (C32); in the link harness: whether idle time is granted while the transmitter is in electrical idle, packets cut
short or not by a change of link state (the words are not classified until the next start-of-packet word or permitted idle
word), the compliance pattern.
"""
from rv.sim import Bench, Registry
from rv.ref import c31_lfsr as L

PROPERTY = "C33"
CASES = {"quick": 192, "thorough": 3200}
TIMEOUT = {"quick": 900, "thorough": 4 * 3600}
RULE = ("case = harness (phy: link-stream script of 1.2k-4.5k words, 9 % mostly-idle sessions of 5k-8k words, 10 % overload sessions; "
        "link: bring-up timing script) x scrambling on/off; non-trivial = at least two SKP words inserted (phy) / equaliser "
        "training reached (link); distinct = hash of the full script")
REQUIRED_BINS = ["mode_phy", "mode_link", "scrambling_on", "scrambling_off",
                 "skp_after_burst_ge_177_words", "skp_in_single_idle_word", "back_to_back_skp_words", "backlog_ge_4_sets",
                 "backlog_kept_across_burst", "idle_not_permitted_while_owed", "zero_data_word_in_burst_while_owed",
                 "boundary_crossed_on_replaced_word", "boundary_crossed_on_last_burst_word", "boundary_crossed_on_first_idle_word",
                 "com_word_after_skp", "data_word_right_after_skp", "burst_max_packet", "long_session", "overload_session",
                 "permission_toggles_in_idle_run", "link_filler_to_packet", "link_packet_to_filler", "link_tseq_word",
                 "link_u0_reached", "link_u0_link_command", "link_u0_header_packet", "link_u0_data_payload", "link_u0_partner_header",
                 "link_filler_run_of_one_word",
                 "electrical_idle_mid_stream", "electrical_idle_with_backlog", "electrical_idle_during_permitted_idle",
                 "resync_after_electrical_idle", "rate_judged_beyond_40_sets", "link_u0_zlp_requested", "link_u0_partial_last_word"]
REQUIRED_EVENTS = ["phy_words_compared", "phy_data_symbols_descrambled", "skp_words", "skp_sets_owed_checks", "idle_words_replaced",
                   "idle_words_kept", "scrambler_hold_cycles", "inserter_sending_skip_cycles",
                   "link_cycles_monitored", "link_can_send_skp_cycles", "link_packet_words", "link_filler_words"]
ASSUMPTIONS = ["phy harness: the stream before the first COM-led sync word, and between the start of an electrical idle episode and the next sync word, is not judged",
               "SKP sets are counted against all symbols on the PHY pins (SKP symbols included) with a phase allowance of 4 words",
               "the link stream never contains K28.1, COM only in symbol 0 of an all-control word",
               "link harness: TSEQ burst shortened to 40 ordered sets by a harness-side constructor override (thorough: also unmodified)",
               "link harness: permission for idle filler is not demanded while tx_electrical_idle is high; <= 2 unpermitted filler words per run",
               "reference keystream = bit-serial LFSR of USB 3.2 appendix B (self-test: TSEQ symbols)"]

COM, SKP, SHP, SDP, END, SLC, EPF, EDB = 0xBC, 0x3C, 0xFB, 0x5C, 0xFD, 0xFE, 0xF7, 0x7C
SKP_WORD = (0x3C3C3C3C, 0xF)
LIMIT = 354                      # [USB 3.2 6.4.3] one SKP ordered set per 354 symbols
PHASE_SLACK_WORDS = 4
OPPORTUNITY_WINDOW = 4
KNOWN_WRAP = "skp_backlog_forgotten_at_8_sets"


def pack(syms):
    d = c = 0
    for i, (v, k) in enumerate(syms):
        d |= v << (8 * i)
        c |= k << i
    return d, c


# ------------------------------------------------------------------------------------------ reference models

class RefDescrambler:
    """Receiver-side keystream tracker (USB 3.2 appendix B), word granular."""

    def __init__(self, enable):
        self.enable = enable
        self.state = 0xFFFF

    def word(self, data, ctrl):
        """descramble one non-SKP word; returns (data, ctrl)"""
        ns, ks = L.word_step(self.state)
        out = 0
        for i in range(4):
            b = (data >> (8 * i)) & 0xFF
            if not (ctrl >> i) & 1 and self.enable:
                b ^= ks[i]
            out |= b << (8 * i)
        if (ctrl & 1) and (data & 0xFF) == COM:
            self.state = 0xFFFF
        else:
            self.state = ns
        return out, ctrl


class ScriptBuilder:
    """Builds the link-layer stream: list of (data, ctrl, can_send_skp, valid, kind)."""

    def __init__(self, rng, res, start_words=0):
        self.rng = rng
        self.res = res
        self.words = []
        self.tag = rng.randrange(256)
        # nominal bookkeeping used only to *aim* the stimulus (not the oracle)
        self.n_words = start_words          # words on the pins before the first script word (aiming only)
        self.owed = 0             # nominal owed sets if every opportunity is used
        self.bounded = True       # keep the nominal backlog <= 6 sets

    # -- nominal model for aiming
    def _count(self, opportunity):
        before = (4 * self.n_words) // LIMIT
        self.n_words += 1
        after = (4 * self.n_words) // LIMIT
        if opportunity and self.owed >= 2:
            self.owed -= 2
        self.owed += after - before

    def symbols_to_boundary(self):
        return LIMIT - (4 * self.n_words) % LIMIT

    def add(self, d, c, skp, valid, kind):
        self.words.append((d, c, skp, valid, kind))
        self._count(bool(skp))

    def dsym(self):
        self.tag = (self.tag + 1) & 0xFF
        r = self.rng.random()
        if r < 0.82:
            return (self.tag, 0)
        if r < 0.90:
            return (0x00, 0)
        return (self.rng.choice([0x3C, 0xBC, 0xFF, self.rng.randrange(256)]), 0)     # data bytes that look like K codes

    def data_word(self):
        return pack([self.dsym() for _ in range(4)])

    def idle(self, n, permitted=True, kind="idle"):
        if not permitted:
            self.room(n)
        for _ in range(n):
            self.add(0, 0, 1 if permitted else 0, 1, kind if permitted else "idle_np")

    def idle_toggling(self, n):
        self.res.bin("permission_toggles_in_idle_run")
        for _ in range(n):
            p = self.rng.random() < 0.5
            self.add(0, 0, 1 if p else 0, 1, "idle" if p else "idle_np")

    def invalid_filler(self, n):
        self.room(n)
        for _ in range(n):
            self.add(0, 0, 0, 0, "idle_np")

    def com_word(self):
        self.room(1)
        ks = [self.rng.choice([SDP, EDB, 0x9C, 0xDC, END, COM]) for _ in range(3)]
        self.add(*pack([(COM, 1)] + [(k, 1) for k in ks]), 0, 1, "com")

    def link_command(self):
        self.room(2)
        self.add(*pack([(SLC, 1), (SLC, 1), (SLC, 1), (EPF, 1)]), 0, 1, "burst")
        self.add(*self.data_word(), 0, 1, "burst")

    def header_packet(self):
        self.room(5)
        self.add(*pack([(SHP, 1), (SHP, 1), (SHP, 1), (EPF, 1)]), 0, 1, "burst")
        for _ in range(4):
            self.add(*self.data_word(), 0, 1, "burst")

    def room(self, n):
        """ordinary sessions: drain the nominal backlog first if `n` more words without idle would take it beyond 6 sets"""
        if self.bounded and self.owed + (4 * n + LIMIT - 1) // LIMIT + 1 > 6:
            self.idle(max(self.owed // 2 + 1, self.rng.choice([1, 2, 4, 9])))

    def burst(self, n, zero_words=0.04):
        """n words shaped like a data packet payload: framing word, data (some all-zero words), end framing"""
        self.room(n)
        if n >= 2:
            self.add(*pack([(SDP, 1), (SDP, 1), (SDP, 1), (EPF, 1)]), 0, 1, "burst")
            n -= 1
            tail = 1
        else:
            tail = 0
        for _ in range(n - tail):
            if self.rng.random() < zero_words:
                self.add(0, 0, 0, 1, "zero_in_burst")
            else:
                self.add(*self.data_word(), 0, 1, "burst")
        if tail:
            self.add(*pack([self.dsym(), (END, 1), (END, 1), (END, 1)]) if self.rng.random() < 0.5 else
                     pack([(END, 1), (END, 1), (END, 1), (EPF, 1)]), 0, 1, "burst")

    def sync_word(self):
        self.add(*pack([(COM, 1), (SDP, 1), (EDB, 1), (END, 1)]), 0, 1, "sync")

    def electrical_idle(self):
        """the LTSSM switches the transmitter off for a while in the middle of the stream (whatever is pending), then a new
        COM-led sync word starts the next judged stretch"""
        if len(self.words) < 20:
            return                     # the pipeline latency is measured on the very first sync word: keep that one on the pins
        self.res.bin("electrical_idle_mid_stream")
        if self.owed >= 2:
            self.res.bin("electrical_idle_with_backlog")
        if self.words and self.words[-1][4] == "idle":
            self.res.bin("electrical_idle_during_permitted_idle")
        # (cycles, permission offered meanwhile: 0 never / 1 always / 2 alternating)
        self.words.append((self.rng.choice([1, 2, 3, 8, 40, 150, 400]), self.rng.randrange(3), 0, 0, "ei"))
        for _ in range(self.rng.randint(1, 6)):
            self.add(0, 0, 0, 1, "idle_np")
        self.sync_word()

    def burst_to_boundary(self, extra_words):
        """burst that ends `extra_words` words after (>=0) / before (<0) the word on which the next 354 boundary is crossed"""
        to_cross = (self.symbols_to_boundary() + 3) // 4          # the crossing happens on that many-th word from now
        n = to_cross + extra_words
        while n < 1:
            n += 89
        self.burst(n)


def build_phy_script(rng, res, profile, pre_words):
    sb = ScriptBuilder(rng, res, pre_words + 1)
    # sync word first: COM + three control symbols, unique in the stream head
    sb.sync_word()
    if profile == "long":
        target = rng.randint(5000, 8000)
    elif profile == "overload":
        target = rng.randint(2200, 4000)
    else:
        target = rng.randint(1200, 4500)
    if profile == "overload":
        sb.bounded = False
        # bursts outrun the idle time: max-size packets separated by one or two idle words until >= 9 sets are owed,
        # then a long idle stretch; repeated
        while len(sb.words) < target:
            while sb.owed < rng.choice([9, 10, 12, 17]):
                sb.header_packet()
                sb.burst(rng.choice([260, 264, 266, 300]))
                sb.idle(rng.choice([1, 1, 1, 2]) if rng.random() < 0.8 else 0)
            sb.idle(rng.randint(30, 200))
            for _ in range(rng.randint(0, 3)):
                sb.burst(rng.choice([5, 40, 120]))
                sb.idle(rng.randint(1, 50))
        sb.idle(40)
        return sb.words
    while len(sb.words) < target:
        r = rng.random()
        if profile == "long":
            # mostly idle; short traffic in between
            if rng.random() < 0.01:
                sb.electrical_idle()
            if r < 0.5:
                sb.idle(rng.choice([50, 200, 400, 800]))
            elif r < 0.7:
                sb.header_packet()
            elif r < 0.8:
                sb.link_command()
            elif r < 0.9:
                sb.burst(rng.choice([1, 5, 20, 88, 89]))
            else:
                sb.idle(rng.choice([1, 2, 3]), permitted=False)
            continue
        if rng.random() < 0.035:
            # electrical idle in the middle of the stream: after a burst (backlog), inside permitted idle, or anywhere
            k = rng.random()
            if k < 0.4:
                sb.burst(rng.choice([177, 200, 264]))
            elif k < 0.7:
                sb.idle(rng.choice([1, 2, 5]))
            sb.electrical_idle()
        if r < 0.20:
            sb.idle(rng.choice([1, 1, 1, 2, 2, 3, 5, 20, 60, 200, 400]))
        elif r < 0.25:
            sb.idle_toggling(rng.choice([4, 10, 40]))
        elif r < 0.31:
            sb.idle(rng.choice([1, 1, 2, 3]), permitted=False)
        elif r < 0.35:
            sb.invalid_filler(rng.choice([1, 1, 2]))
        elif r < 0.42:
            sb.header_packet()
            if rng.random() < 0.5:
                sb.burst(rng.choice([2, 3, 10, 66, 130, 258, 259, 264]))
        elif r < 0.47:
            sb.link_command()
        elif r < 0.52:
            sb.com_word()
        elif r < 0.62:
            sb.burst(rng.choice([1, 2, 3, 5, 8, 20, 40]))
        elif r < 0.72:
            # backlog: at least two owed sets, then a single permitted idle word, then traffic again
            sb.burst(rng.choice([177, 178, 180, 200, 264, 266]), zero_words=0.08)
            k = rng.random()
            if k < 0.4:
                sb.idle(1)
                sb.burst(rng.choice([1, 3, 30, 89, 177]))
            elif k < 0.6:
                sb.idle(rng.choice([1, 2]), permitted=False)
                sb.idle(rng.choice([1, 2, 3]))
            elif k < 0.8:
                sb.idle(rng.choice([1, 2, 3, 4, 6]))
                if rng.random() < 0.6:
                    sb.com_word()
            else:
                sb.com_word()
                sb.idle(1)
                sb.com_word() if rng.random() < 0.5 else sb.burst(2)
        elif r < 0.78:
            # deep backlog (4..6 sets) built from bursts separated by non-permitted idle, then drained in pieces
            sb.burst(rng.choice([264, 266]))
            sb.idle(rng.choice([1, 2]), permitted=False)
            sb.burst(rng.choice([100, 177, 200]))
            for _ in range(rng.randint(1, 4)):
                sb.idle(rng.choice([1, 1, 2]))
                sb.burst(rng.choice([1, 2, 5, 30]))
            sb.idle(rng.choice([1, 5, 20]))
        else:
            # aim at the 354-symbol boundary
            k = rng.random()
            if k < 0.35:
                sb.burst_to_boundary(0)                      # boundary crossed on the last burst word
                sb.idle(rng.choice([1, 2, 5]))
            elif k < 0.7:
                sb.burst_to_boundary(-1)                     # boundary crossed on the first idle word
                sb.idle(rng.choice([1, 2, 5]))
            else:
                # boundary crossed on a word that is being replaced: a backlog of >= 4 sets, so that two or three consecutive
                # idle words are replaced, and the crossing aimed at the second of them (whatever the phase of the DUT's counter)
                sb.burst(rng.choice([264, 266]))
                sb.idle(rng.choice([1, 2]), permitted=False)
                sb.burst_to_boundary(-2)
                while sb.owed < 4:
                    sb.burst_to_boundary(-2)
                sb.idle(rng.choice([3, 3, 4, 6]))
    sb.idle(30)
    return sb.words


# ------------------------------------------------------------------------------------------ phy harness

def run_phy(rng, tier, res):
    from amaranth import Elaboratable, Module
    from luna.gateware.interface.pipe import PIPEInterface
    from luna.gateware.usb.usb3.physical.layer import USB3PhysicalLayer
    from luna.gateware.usb.usb3.physical.scrambling import Scrambler
    from luna.gateware.usb.usb3.physical.ctc import CTCSkipInserter

    class Top(Elaboratable):
        def __init__(self):
            self.phy = PIPEInterface(width=4)
            self.phy._MustUse__silence = True        # used as a plain bundle of pins, never elaborated
            self.layer = USB3PhysicalLayer(phy=self.phy, sync_frequency=125e6)

        def elaborate(self, platform):
            m = Module()
            m.submodules.layer = self.layer
            return m

    r = rng.random()
    profile = "long" if r < 0.09 else "overload" if r < 0.19 else "mixed"
    if profile == "long":
        res.bin("long_session")
    if profile == "overload":
        res.bin("overload_session")
    scrambling = rng.random() < 0.85
    res.bin("scrambling_on" if scrambling else "scrambling_off")
    pre_idle = rng.randint(2, 9)          # cycles in electrical idle
    pre_words = rng.randint(1, 12)        # filler words before the sync word
    script = build_phy_script(rng, res, profile, pre_words)

    top = Top()
    lay, phy = top.layer, top.phy
    with Registry(Scrambler, CTCSkipInserter) as reg:
        b = Bench(top, domain="ss", freq=125e6, clocks={"sync": 125e6}, max_cycles=len(script) + 400 + sum(w[0] + 8 for w in script if w[4] == "ei"))
    scr = reg.one(Scrambler)
    ins = reg.one(CTCSkipInserter)
    watch = [lay.sink.ready, phy.tx_data, phy.tx_datak]
    if scr is not None:
        watch.append(scr.hold)
    if ins is not None:
        watch.append(ins.sending_skip)
    b.watch(*watch)
    res.desc = {"mode": "phy", "profile": profile, "scrambling": scrambling, "words": len(script), "pre": [pre_idle, pre_words],
                "first_words": ["%08x/%x/%d" % (d, c, s) for d, c, s, _, _ in script[:10]],
                "electrical_idle_episodes": sum(1 for w in script if w[4] == "ei")}
    res.sig("phy", scrambling, pre_idle, pre_words, [(d, c, s, v, k == "ei") for d, c, s, v, k in script])

    accepted = []          # (cycle, index into script) for every accepted word, in order
    outs = {}              # cycle -> (data, ctrl)
    stalls = {}            # cycle -> script index offered in a cycle in which the layer did not take the word
    st = {"done": False, "t_active": None, "ei": [], "stalls": stalls}

    def driver():
        b.set(lay.enable_scrambling, 1 if scrambling else 0)
        b.set(lay.tx_electrical_idle, 1)
        b.set(lay.sink.valid, 1)
        b.set(lay.sink.payload, 0)
        b.set(lay.sink.ctrl, 0)
        b.set(lay.can_send_skp, 0)
        for _ in range(pre_idle):
            yield
        b.set(lay.tx_electrical_idle, 0)
        st["t_active"] = b.cycle + 1          # first edge at which the DUT sees the transmitter enabled
        for _ in range(pre_words):
            yield
        for i, (d, c, skp, valid, kind) in enumerate(script):
            if kind == "ei":
                b.set(lay.tx_electrical_idle, 1)
                b.set(lay.sink.valid, 1)
                b.set(lay.sink.payload, 0)
                b.set(lay.sink.ctrl, 0)
                st["ei"].append([b.cycle + 1, None])          # [first edge with the transmitter off, first edge with it on again)
                for j in range(d):
                    b.set(lay.can_send_skp, 1 if c == 1 or (c == 2 and j % 2) else 0)
                    yield
                b.set(lay.tx_electrical_idle, 0)
                b.set(lay.can_send_skp, 0)
                st["ei"][-1][1] = b.cycle + 1
                continue
            b.set(lay.sink.valid, valid)
            b.set(lay.sink.payload, d)
            b.set(lay.sink.ctrl, c)
            b.set(lay.can_send_skp, skp)
            for _ in range(200):
                yield
                if b.get(lay.sink.ready):
                    break
                stalls[b.cycle] = i
            else:
                res.violation("phy_sink_never_ready", "word #%d not taken within 200 cycles" % i)
                return
            accepted.append((b.cycle, i))
        b.set(lay.can_send_skp, 0)
        b.set(lay.sink.payload, 0)
        b.set(lay.sink.ctrl, 0)
        for _ in range(8):
            yield
        st["done"] = True

    def monitor(b):
        outs[b.cycle] = (b.get(phy.tx_data), b.get(phy.tx_datak))
        if scr is not None and b.get(scr.hold):
            res.event("scrambler_hold_cycles")
        if ins is not None and b.get(ins.sending_skip):
            res.event("inserter_sending_skip_cycles")

    b.add_driver(driver())
    b.add_monitor(monitor)
    b.run()
    res.cycles = b.cycle
    if not st["done"]:
        if not res.violations:
            res.violation("phy_sink_never_ready", "driver did not finish in %d cycles" % b.cycle)
        return
    judge_phy(res, script, accepted, outs, st, scrambling)


def judge_phy(res, script, accepted, outs, st, scrambling):
    sync_d, sync_c = script[0][0], script[0][1]
    c_sync = accepted[0][0]
    lat = None
    for k in range(0, 12):
        if outs.get(c_sync + k) == (sync_d, sync_c):
            lat = k
            break
    if lat is None:
        res.violation("sync_word_not_transmitted", "the COM-led sync word accepted at cycle %d never reached the PHY pins within 12 cycles"
                      % c_sync)
        return
    t_active = st["t_active"]
    ref = RefDescrambler(scrambling)
    shadow = RefDescrambler(scrambling)          # hypothesis "keystream also advances over SKP words" (classification only)
    sets = 0                                     # SKP ordered sets since the transmitter was (last) switched on
    sets_total = 0                               # ... since it was switched on for the first time
    # SKP words in the unjudged head of the stream still count for the rate
    for c in range(t_active, c_sync + lat):
        if outs.get(c) == SKP_WORD:
            sets += 2
            sets_total += 2
    eis = st["ei"]                               # electrical idle episodes [first cycle off, first cycle on again)
    stalls = st["stalls"]
    ei_idx = 0
    ei_cycles = 0                                # cycles spent in electrical idle so far
    ep_start = t_active
    blind = False                                # between the start of an electrical idle episode and the next sync word
    rate_on = True
    missed = 0               # permitted idle words passed while >= 2 sets were owed (lower bound) since the last SKP word
    max_owed_since_ok = 0    # for the classification of the counter-wrap finding
    prev_kind = None
    prev_skp = False
    run_burst = 0            # length of the current run of non-idle words
    last_burst_len = 0
    idle_run = 0             # index inside the current run of permitted idle words
    skp_total = 0
    last_skp_idle_run_len = None
    expect_cycle = c_sync
    n_acc = len(accepted)
    for k, (cyc, idx) in enumerate(accepted):
        d, c, skp_ok, valid, kind = script[idx]
        oc = cyc + lat
        if oc not in outs:
            break
        if not blind and ei_idx < len(eis) and oc >= eis[ei_idx][0]:
            blind = True             # this word's slot on the pins falls into electrical idle: nothing is transmitted
        if blind:
            ei_on, ei_off = eis[ei_idx]
            if kind == "sync" and cyc >= ei_off:
                # the transmitter is on again and the link starts a new stretch with a COM-led word: judged again from here
                if outs[oc] != (d, c):
                    res.violation("sync_word_not_transmitted_after_electrical_idle",
                                  "cycle %d: sync word #%d accepted %d cycles after the transmitter was switched on again, pins show %08x/%x"
                                  % (oc, idx, cyc - ei_off, outs[oc][0], outs[oc][1]))
                    return
                for cc in range(ei_off, oc):
                    if outs.get(cc) == SKP_WORD:
                        sets_total += 2
                ei_cycles += ei_off - ei_on
                ep_start, sets, missed, max_owed_since_ok = ei_off, 0, 0, 0
                idle_run = run_burst = last_burst_len = 0
                prev_skp, last_skp_idle_run_len = False, None
                blind = False
                ei_idx += 1
                expect_cycle = cyc
                res.bin("resync_after_electrical_idle")
            else:
                res.event("phy_words_not_judged_around_electrical_idle")
                res.unjudged += 1
                continue
        if cyc != expect_cycle:
            # the layer did not take a word for one or more cycles (never in today's luna outside electrical idle).  What the
            # statement still decides: the only thing that may be transmitted in such a slot is a SKP word, and only while the
            # word that waits is permitted logical idle; the stream after the stall is judged as before.
            for g in range(expect_cycle, cyc):
                slot = outs.get(g + lat)
                waiting = stalls.get(g)
                res.event("phy_stalled_slots_judged")
                if slot == SKP_WORD:
                    if waiting is None or not _is_permitted(script[waiting]):
                        res.violation("skp_inserted_while_non_idle_word_waits", "cycle %d: SKP word transmitted while link word #%s waits"
                                      % (g + lat, waiting))
                        return
                    sets += 2
                    sets_total += 2
                    skp_total += 1
                    shadow.word(0, 0)
                    res.event("skp_words")
                else:
                    res.violation("word_transmitted_while_link_stalled",
                                  "cycle %d: %08x/%x on the pins although no link word was accepted for that slot (word #%s waits)"
                                  % ((g + lat,) + tuple(slot or (0, 0)) + (waiting,)))
                    return
        expect_cycle = cyc + 1
        od, ok = outs[oc]
        n_before = 4 * (oc - ep_start)                   # symbols on the pins before this word since the transmitter is on
        n_incl = n_before + 4
        n_total_incl = 4 * (oc - t_active - ei_cycles) + 4
        crossing = (n_incl // LIMIT) != (n_before // LIMIT)
        permitted = (d, c) == (0, 0) and skp_ok == 1
        owed_hi = n_before // LIMIT - sets
        owed_lo = max(0, n_before - 4 * PHASE_SLACK_WORDS) // LIMIT - sets
        if owed_hi > max_owed_since_ok:
            max_owed_since_ok = owed_hi
        # ---- stimulus bins that depend on position
        if permitted:
            idle_run += 1
        is_skp_symbol = [((ok >> i) & 1) and ((od >> (8 * i)) & 0xFF) == SKP for i in range(4)]
        if all(is_skp_symbol):
            # ---- an inserted SKP word
            if not permitted:
                if (d, c) == (0, 0):
                    res.violation("skp_replaces_idle_word_without_permission",
                                  "cycle %d: word #%d (%s, can_send_skp=0, valid=%d) was replaced by a SKP word; owed=%d"
                                  % (oc, idx, kind, valid, owed_hi))
                else:
                    res.violation("skp_replaces_non_idle_word",
                                  "cycle %d: word #%d %08x/%x (%s) was replaced by a SKP word; owed=%d" % (oc, idx, d, c, kind, owed_hi))
                return
            sets += 2
            sets_total += 2
            skp_total += 1
            res.event("skp_words")
            res.event("idle_words_replaced")
            # a backlog may be carried across electrical idle (the statement does not say): the upper side counts everything
            # transmitted since the first switch-on, with 2 more words of allowance per episode
            if rate_on and sets_total > (n_total_incl + 4 * PHASE_SLACK_WORDS + 8 * ei_idx) // LIMIT:
                res.violation("skp_sent_too_often", "cycle %d: %d SKP ordered sets after %d transmitted symbols (one per %d allowed)"
                              % (oc, sets_total, n_total_incl, LIMIT))
                return
            if prev_skp:
                res.bin("back_to_back_skp_words")
            if last_burst_len >= 177 and idle_run == 1:
                res.bin("skp_after_burst_ge_177_words")
            if crossing:
                res.bin("boundary_crossed_on_replaced_word")
            if owed_hi >= 4:
                res.bin("backlog_ge_4_sets")
            last_skp_idle_run_len = idle_run
            missed = 0
            if owed_hi - 2 < 2:
                max_owed_since_ok = 0
            # the keystream must not move: ref untouched; the shadow hypothesis advances
            shadow.word(0, 0)
            prev_skp = True
            single = permitted and idle_run == 1 and (k + 1 >= n_acc or not _is_permitted(script[accepted[k + 1][1]]))
            if single:
                res.bin("skp_in_single_idle_word")
            prev_kind = "skp"
            run_burst = 0
            continue
        if any(is_skp_symbol):
            res.violation("malformed_skp_word", "cycle %d: %08x/%x mixes SKP with other symbols (link word #%d %08x/%x)"
                          % (oc, od, ok, idx, d, c))
            return
        # ---- an ordinary word: must be the accepted word, scrambled
        rd, rc = ref.word(od, ok)
        sd, sc = shadow.word(od, ok)
        if (rd, rc) != (d, c):
            if (sd, sc) == (d, c) and skp_total:
                mech = "keystream_advanced_over_skp"
            elif k > 0 and _matches_other(script, accepted, k, od, ok, scrambling, -1):
                mech = "stream_delayed_by_one_word"
            elif k + 1 < n_acc and _matches_other(script, accepted, k, od, ok, scrambling, +1):
                mech = "word_dropped"
            elif (d, c) == (0, 0):
                mech = "idle_word_altered"
            else:
                mech = "non_idle_word_altered"
            res.violation(mech, "cycle %d: link word #%d %08x/%x (%s) appeared as %08x/%x, which descrambles to %08x/%x; %d SKP words so far"
                          % (oc, idx, d, c, kind, od, ok, rd, rc, skp_total))
            return
        res.event("phy_words_compared")
        res.event("phy_data_symbols_descrambled", 4 - bin(c).count("1"))
        if (d, c) == (0, 0):
            res.event("idle_words_kept")
        # ---- rate, lower side
        if rate_on and n_before >= 40 * LIMIT:
            res.bin("rate_judged_beyond_40_sets")
        if permitted:
            res.event("skp_sets_owed_checks")
            if rate_on and owed_lo >= 2:
                missed += 1
                if missed > OPPORTUNITY_WINDOW:
                    mech = KNOWN_WRAP if max_owed_since_ok >= 8 else "skp_not_sent_when_idle_permits"
                    res.violation(mech, "cycle %d: %d SKP ordered sets after %d symbols (>= %d owed, at most %d were owed since the "
                                  "backlog was last below 2), %d permitted idle words passed without a SKP word"
                                  % (oc, sets, n_before, owed_lo, max_owed_since_ok, missed))
                    if mech != KNOWN_WRAP:
                        return
                    rate_on = False          # the set count is off from here on; stream integrity is still judged
            else:
                if owed_hi < 2:
                    max_owed_since_ok = 0
        else:
            if owed_hi >= 2:
                if (d, c) == (0, 0):
                    res.bin("zero_data_word_in_burst_while_owed" if kind == "zero_in_burst" else "idle_not_permitted_while_owed")
        # ---- more bins
        if prev_skp:
            if kind == "com":
                res.bin("com_word_after_skp")
            elif c != 0xF and (d, c) != (0, 0):
                res.bin("data_word_right_after_skp")
        if (d, c) != (0, 0) or kind == "zero_in_burst":
            run_burst += 1
            if crossing and (k + 1 < n_acc and _is_permitted(script[accepted[k + 1][1]])):
                res.bin("boundary_crossed_on_last_burst_word")
            if run_burst >= 260:
                res.bin("burst_max_packet")
            if run_burst == 1 and last_skp_idle_run_len is not None and owed_hi >= 2:
                res.bin("backlog_kept_across_burst")
            last_burst_len = run_burst
            idle_run = 0
            last_skp_idle_run_len = None
            prev_kind = "burst"
        else:
            if permitted and crossing and idle_run == 1:
                res.bin("boundary_crossed_on_first_idle_word")
            if not permitted:
                idle_run = 0
            run_burst = 0
            prev_kind = "idle" if permitted else "idle_np"
        prev_skp = False
    res.nontrivial = skp_total >= 2


def _is_permitted(w):
    return (w[0], w[1]) == (0, 0) and w[2] == 1


def _matches_other(script, accepted, k, od, ok, scrambling, delta):
    """classification helper: does the raw output word carry the control flags and control symbols of the neighbouring link word?"""
    d, c = script[accepted[k + delta][1]][:2]
    if ok != c:
        return False
    for i in range(4):
        if (c >> i) & 1 and ((od >> (8 * i)) & 0xFF) != ((d >> (8 * i)) & 0xFF):
            return False
    return c != 0 or not scrambling and od == d


# ------------------------------------------------------------------------------------------ link harness

TSEQ_FIRST = (0xC017FFBC, 0x1)          # K28.5 D31.7 D23.0 D0.6 [USB 3.2 table 6-3]
TS1_WORDS = [(0xBCBCBCBC, 0xF), (0x4A4A0000, 0), (0x4A4A4A4A, 0), (0x4A4A4A4A, 0)]      # COM x4, rsvd, link functionality, D10.2 x10
TS2_WORDS = [(0xBCBCBCBC, 0xF), (0x45450000, 0), (0x45454545, 0), (0x45454545, 0)]      # ... D5.2 x10


def make_stub_phy():
    """A bundle of signals with the attribute names USB3LinkLayer uses on its physical layer (no logic)."""
    from amaranth import Signal
    from luna.gateware.usb.stream import USBRawSuperSpeedStream

    class Stub:
        pass
    p = Stub()
    p.sink, p.source, p.raw_source = USBRawSuperSpeedStream(), USBRawSuperSpeedStream(), USBRawSuperSpeedStream()
    for name, width in [("ready", 1), ("engage_terminations", 1), ("tx_deemph", 2), ("tx_electrical_idle", 1), ("tx_ones_zeros", 1),
                        ("invert_rx_polarity", 1), ("train_equalizer", 1), ("vbus_present", 1), ("enable_scrambling", 1),
                        ("perform_rx_detection", 1), ("link_partner_detected", 1), ("no_link_partner_detected", 1),
                        ("send_lfps_polling", 1), ("lfps_cycles_sent", 16), ("lfps_ping_detected", 1), ("lfps_polling_detected", 1),
                        ("lfps_reset_detected", 1), ("can_send_skp", 1), ("skip_removed", 1)]:
        setattr(p, name, Signal(width, name="stub_" + name))
    return p


class LinkMonitor:
    """Per-cycle judgement of what the link layer offers to the physical layer.

    The transmit stream is parsed with the framing rules of USB 3.2 (7.2.1 header packets and data packet payloads, 7.2.2 link
    commands, 6.4.1 training sets), so that a word is known to be either part of a packet / ordered set or filler.
      * `can_send_skp` high  =>  the offered word is logical idle, valid, and not part of a packet or ordered set;
      * filler that is not permitted: at most 2 words per run of filler (the cycle in which the transmit arbiter switches to a
        new stream is such a word) - otherwise idle time is withheld from the CTC.
    The arbiter's `idle` output (registry) is only counted: the monitor is blind if it is never seen in both states.
    """

    def __init__(self, res, b, stub, arbiter, link):
        self.res, self.b, self.stub, self.arb, self.link = res, b, stub, arbiter, link
        self.prev_trained = 0
        self.prev_idle = None
        self.left = 0              # words of the current header packet / link command / training set still to come
        self.in_dpp = False        # inside a data packet payload (until its end framing)
        self.in_ts = False         # the current structure is a training set
        self.uncertain = False     # framing unknown (after a change of link state)
        self.unpermitted = 0       # unpermitted filler words in the current run of filler
        self.flagged_run = False
        self.prev_in_packet = None
        self.filler_run = 0

    def watch(self):
        s = self.stub
        self.b.watch(s.can_send_skp, s.sink.valid, s.sink.payload, s.sink.ctrl, s.tx_electrical_idle, self.link.trained)
        if self.arb is not None:
            self.b.watch(self.arb.idle)

    START_WORDS = {(0xF7FBFBFB, 0xF), (0xF7FEFEFE, 0xF), (0xF75C5C5C, 0xF), (0xBCBCBCBC, 0xF)}

    def classify(self, sd, sc, sv, cs):
        """-> True if the word belongs to a packet / ordered set, False if it is filler, None if the framing is not known
        (after a change of link state, until the next start-of-packet word or permitted idle word); advances the framing state"""
        if self.uncertain:
            if sv and ((sd, sc) in self.START_WORDS or ((sc & 1) and (sd & 0xFF) == COM)):
                self.uncertain = False
            elif cs and (sd, sc) == (0, 0):
                self.uncertain = False
                return False
            else:
                return None
        if self.in_dpp:
            # the payload ends with END END END EPF or EDB EDB EDB EPF, at any symbol offset: EPF (K23.7) is its last symbol
            for i in range(4):
                if (sc >> i) & 1 and (sd >> (8 * i)) & 0xFF == EPF:
                    self.in_dpp = False
            return True
        if self.left:
            if self.in_ts and (sd, sc) == (0, 0):
                # no training set contains a D0.0 D0.0 D0.0 D0.0 word: the set was cut short (luna starts a new TSEQ set in the
                # cycle in which the LTSSM leaves Polling.RxEQ); this is filler
                self.left = 0
            else:
                self.left -= 1
                return True
        self.in_ts = False
        if not sv:
            return False
        if (sd, sc) == (0xF7FBFBFB, 0xF):        # SHP SHP SHP EPF
            self.left = 4
        elif (sd, sc) == (0xF7FEFEFE, 0xF):      # SLC SLC SLC EPF
            self.left = 1
        elif (sd, sc) == (0xF75C5C5C, 0xF):      # SDP SDP SDP EPF
            self.in_dpp = True
        elif (sd, sc) == (0xBCBCBCBC, 0xF):      # TS1 / TS2: 16 symbols
            self.left, self.in_ts = 3, True
        elif (sc & 1) and (sd & 0xFF) == COM:    # TSEQ: 32 symbols
            self.left, self.in_ts = 7, True
        else:
            return (sd, sc) != (0, 0)
        return True

    def __call__(self, b):
        s, res = self.stub, self.res
        cs, sv, sd, sc = b.get(s.can_send_skp), b.get(s.sink.valid), b.get(s.sink.payload), b.get(s.sink.ctrl)
        res.event("link_cycles_monitored")
        trained = b.get(self.link.trained)
        elec_idle = b.get(s.tx_electrical_idle)
        if trained != self.prev_trained:
            # a change of link state may cut a packet or ordered set short - or not: the framing is unknown until the next
            # start-of-packet word or permitted idle word
            self.prev_trained = trained
            self.left, self.in_dpp, self.unpermitted, self.prev_in_packet, self.filler_run = 0, False, 0, None, 0
            self.uncertain = True
        if elec_idle:
            # nothing is transmitted in electrical idle; the stream starts afresh afterwards
            self.left, self.in_dpp, self.unpermitted, self.prev_in_packet, self.filler_run = 0, False, 0, None, 0
            self.uncertain = False
        if elec_idle:
            # only "permission implies logical idle" is judged (whether idle time is granted is moot while nothing is sent)
            res.event("link_cycles_in_electrical_idle")
            if cs and (sd, sc) != (0, 0):
                res.violation("skp_permitted_on_non_idle_word", "cycle %d (electrical idle): can_send_skp=1 while the offered word is "
                              "%08x/%x valid=%d" % (b.cycle, sd, sc, sv))
            return
        in_packet = self.classify(sd, sc, sv, cs)
        if in_packet is None:
            res.event("link_words_framing_unknown")
            if cs and (sd, sc) != (0, 0):
                res.violation("skp_permitted_on_non_idle_word", "cycle %d: can_send_skp=1 while the offered word is %08x/%x valid=%d"
                              % (b.cycle, sd, sc, sv))
            return
        if in_packet:
            res.event("link_packet_words")
        if cs:
            res.event("link_can_send_skp_cycles")
            if (sd, sc) != (0, 0):
                res.violation("skp_permitted_on_non_idle_word", "cycle %d: can_send_skp=1 while the offered word is %08x/%x valid=%d"
                              % (b.cycle, sd, sc, sv))
            elif in_packet:
                res.violation("skp_permitted_inside_packet", "cycle %d: can_send_skp=1 on an all-zero word that is part of a packet"
                              % b.cycle)
        if not sv and (sd, sc) != (0, 0):
            res.violation("invalid_word_offered_is_not_logical_idle",
                          "cycle %d: sink.valid=0 but payload %08x/%x is offered; the physical layer transmits it" % (b.cycle, sd, sc))
        if self.prev_in_packet is not None and self.prev_in_packet != in_packet:
            res.bin("link_filler_to_packet" if in_packet else "link_packet_to_filler")
        self.prev_in_packet = in_packet
        if not in_packet:
            res.event("link_filler_words")
            if not cs:
                self.unpermitted += 1
                res.event("link_filler_words_not_permitted")
                if self.unpermitted > 2 and not self.flagged_run:
                    self.flagged_run = True
                    res.violation("skp_not_permitted_on_idle_filler", "cycle %d: %d words of logical-idle filler in a row without can_send_skp"
                                  % (b.cycle, self.unpermitted))
            self.filler_run += 1
        else:
            if self.filler_run == 1:
                res.bin("link_filler_run_of_one_word")
            self.filler_run = 0
            self.unpermitted = 0
            self.flagged_run = False
        if (sd, sc) == TSEQ_FIRST:
            res.bin("link_tseq_word")
        if self.arb is not None:
            idle = b.get(self.arb.idle)
            if idle:
                res.event("link_arbiter_idle_cycles")
            else:
                res.event("link_busy_cycles")
            if not idle and not sv:
                res.bin("link_busy_cycle_without_valid_word")
            if self.prev_idle == 1 and not idle:
                res.bin("link_idle_to_busy")
            if self.prev_idle == 0 and idle:
                res.bin("link_busy_to_idle")
            self.prev_idle = idle
            if bool(idle) != bool(cs):
                res.event("link_permission_differs_from_arbiter_idle")


SHORT_TSEQ_SETS = 40
_LINK_DESIGNS = {}         # per worker process: TSEQ burst length -> (stub, link layer, arbiter, bench)


class ReusableBench(Bench):
    """Bench whose compiled simulator can be reset and run again with new drivers and monitors."""

    def __init__(self, *a, **k):
        super().__init__(*a, **k)
        self._tb_added = False

    def rearm(self):
        self.sim.reset()
        self.cycle = 0
        self.hit_max_cycles = False
        self._watch, self._idx, self._vals, self._pending = [], {}, (), {}
        self._drivers, self._monitors = [], []
        self._started = self._stop = False

    def run(self):
        import warnings
        self._started = True
        if not self._watch:
            raise RuntimeError("nothing watched")
        if not self._tb_added:
            self._tb_added = True
            bench = self

            async def tb(ctx):
                watch = tuple(bench._watch)
                tick = ctx.tick(bench.domain).sample(*watch)
                bench._vals = tuple(ctx.get(s) for s in watch)
                bench._advance_drivers()
                while True:
                    if bench._pending:
                        for sig, val in bench._pending.values():
                            ctx.set(sig, val)
                        bench._pending.clear()
                    bench._vals = (await tick)[2:]
                    bench.cycle += 1
                    for m in bench._monitors:
                        m(bench)
                    if not bench._advance_drivers() or bench._stop:
                        break
                    if bench.cycle >= bench.max_cycles:
                        bench.hit_max_cycles = True
                        break
            self.sim.add_testbench(tb)
        with warnings.catch_warnings():
            warnings.simplefilter("ignore")
            self.sim.run()
        return self


class ShortTSEQ:
    """Harness-side parameter override: the TSEQ emitter is constructed with a burst of `sets` ordered sets instead of 65536
    (524288 cycles), so that U0 is reachable in a short case.  Nothing else is touched; `sets=None` leaves luna unmodified."""

    def __init__(self, sets):
        self.sets = sets

    def __enter__(self):
        if self.sets is None:
            return self
        from luna.gateware.usb.usb3.link.ordered_sets import TSEmitter
        self.cls, self.orig = TSEmitter, TSEmitter.__init__
        orig, sets = self.orig, self.sets

        def __init__(slf, *a, **k):
            if k.get("transmit_burst_length") == 65536:
                k["transmit_burst_length"] = sets
            orig(slf, *a, **k)
        TSEmitter.__init__ = __init__
        return self

    def __exit__(self, *exc):
        if self.sets is not None:
            self.cls.__init__ = self.orig


def run_link(rng, tier, res, full):
    from luna.gateware.usb.usb3.link.layer import USB3LinkLayer
    from luna.gateware.usb.stream import SuperSpeedStreamArbiter

    tseq_sets = None if full else SHORT_TSEQ_SETS
    budget = 1_200_000 if full else 40000
    cached = _LINK_DESIGNS.get(tseq_sets)
    if cached is None:
        stub = make_stub_phy()
        link = USB3LinkLayer(physical_layer=stub, ss_clock_frequency=125e6)
        with Registry(SuperSpeedStreamArbiter) as reg, ShortTSEQ(tseq_sets):
            b = ReusableBench(link, domain="ss", freq=125e6, clocks={"sync": 125e6}, max_cycles=budget)
        arb = reg.one(SuperSpeedStreamArbiter)
        _LINK_DESIGNS[tseq_sets] = (stub, link, arb, b)
    else:
        # the compiled design is reused inside one worker process (elaboration costs ~10 s); Simulator.reset() puts every
        # signal, memory and process back to its initial state, so the case does not depend on what ran before
        stub, link, arb, b = cached
        b.rearm()
    mon = LinkMonitor(res, b, stub, arb, link)
    mon.watch()
    b.watch(stub.send_lfps_polling, stub.train_equalizer, stub.perform_rx_detection, link.trained, link.ready,
            link.header_sink.ready, link.data_sink.ready, link.data_sink.valid)
    plan = {"ready_delay": rng.randint(0, 40), "vbus_delay": rng.randint(0, 60), "lfps_period": rng.choice([2, 3, 7, 20]),
            "lfps_seen_at": rng.randint(0, 30), "tseq_sets": tseq_sets,
            "warm_resets": 0 if full else rng.choice([0, 0, 1, 2]), "u0_cycles": rng.randint(8000, 20000) if full else rng.randint(2500, 7000)}
    res.desc = {"mode": "link", "plan": plan}
    res.sig("link", sorted(plan.items()))
    st = {"rxeq_seen": 0}

    def lfps_phase(limit):
        """Polling.LFPS: count bursts while polling is requested; returns when the equaliser training (Polling.RxEQ) starts"""
        sent = 0
        n = 0
        while not b.get(stub.train_equalizer):
            n += 1
            if n > limit:
                return False
            if b.get(stub.send_lfps_polling) and n % plan["lfps_period"] == 0:
                sent += 1
                b.set(stub.lfps_cycles_sent, sent & 0xFFFF)
                if sent >= plan["lfps_seen_at"]:
                    b.set(stub.lfps_polling_detected, 1)
            yield
        b.set(stub.lfps_polling_detected, 0)
        return True

    def driver():
        b.set(stub.source.valid, 1)
        b.set(stub.raw_source.valid, 1)
        b.set(stub.sink.ready, 1)                     # as the real physical layer outside electrical idle
        b.set(link.header_source.ready, 1)            # the protocol layer takes every received header at once
        for _ in range(min(plan["ready_delay"], plan["vbus_delay"])):
            yield
        if plan["ready_delay"] <= plan["vbus_delay"]:
            b.set(stub.ready, 1)
            for _ in range(plan["vbus_delay"] - plan["ready_delay"]):
                yield
            b.set(stub.vbus_present, 1)
            b.set(stub.link_partner_detected, 1)
        else:
            b.set(stub.vbus_present, 1)
            b.set(stub.link_partner_detected, 1)
            for _ in range(plan["ready_delay"] - plan["vbus_delay"]):
                yield
            b.set(stub.ready, 1)
        ok = yield from lfps_phase(3000)
        if not ok:
            raise RuntimeError("link harness: Polling.RxEQ not reached")
        st["rxeq_seen"] += 1
        for _ in range(plan["warm_resets"]):
            # warm reset signalling during equaliser training: the LTSSM falls back to Rx.Detect and trains again
            for _ in range(rng.randint(3, 8 * tseq_sets // 2)):
                yield
            b.set(stub.lfps_reset_detected, 1)
            for _ in range(rng.randint(2, 30)):
                yield
            b.set(stub.lfps_reset_detected, 0)
            b.set(stub.lfps_cycles_sent, 0)
            for _ in range(rng.randint(5, 120)):
                yield
            ok = yield from lfps_phase(3000)
            if not ok:
                raise RuntimeError("link harness: Polling.RxEQ not reached again")
            st["rxeq_seen"] += 1
        yield from bring_up_to_u0(rng, res, b, stub, link, plan)

    b.add_driver(driver())
    b.add_monitor(mon)
    b.run()
    res.cycles = b.cycle
    if b.hit_max_cycles:
        raise RuntimeError("link harness: cycle budget exhausted")
    res.nontrivial = st["rxeq_seen"] > 0


def bring_up_to_u0(rng, res, b, stub, link, plan):
    """a link-partner model takes the link layer through the rest of the training into U0 and exchanges traffic
    (driver generator; the judgement is done by LinkMonitor every cycle)."""
    from rv.ref import c35_usb3link as U
    LGOOD, LCRD, LRTY, LBAD = 0, 1, 2, 3    # link command class/type codes [USB 3.2 table 7-4]
    rxq = []                                # words the partner still has to put on the DUT's receive stream

    def rx_drive():
        d, c = rxq.pop(0) if rxq else (0, 0)
        for st in (stub.source, stub.raw_source):
            b.set(st.payload, d)
            b.set(st.ctrl, c)

    # ---- Polling.RxEQ: the TSEQ burst (65536 ordered sets unless shortened by the harness)
    n = 0
    limit = 8 * (plan["tseq_sets"] or 65536) + 4000
    while b.get(stub.train_equalizer):
        n += 1
        if n > limit:
            raise RuntimeError("link harness: TSEQ burst did not end")
        yield
    if plan["tseq_sets"] is None:
        res.event("link_full_tseq_cycles", n)
    # ---- Polling.Active / Configuration: TS1 then TS2, as a partner does that follows the DUT
    for _ in range(rng.randint(12, 40)):
        rxq.extend(TS1_WORDS)
    dut_ts2 = 0
    sent_ts2 = 0
    n = 0
    while True:
        n += 1
        if n > 20000:
            raise RuntimeError("link harness: TS1/TS2 handshake did not finish")
        if (b.get(stub.sink.payload), b.get(stub.sink.ctrl)) == TS2_WORDS[1]:
            dut_ts2 += 1
        if not rxq:
            if dut_ts2 >= 18 and sent_ts2 >= 16:
                break
            rxq.extend(TS2_WORDS)
            sent_ts2 += 1
        rx_drive()
        yield
    for _ in range(rng.randint(0, 20)):
        rxq.extend(TS2_WORDS)
    # ---- Polling.Idle: logical idle until the DUT reports U0
    n = 0
    while not b.get(link.trained):
        n += 1
        if n > 5000:
            raise RuntimeError("link harness: U0 not reached")
        rx_drive()
        yield
    res.bin("link_u0_reached")
    # ---- U0
    for sub in [7]:
        rxq.extend([(0, 0)] * rng.randint(2, 40))
        rxq.extend(U.link_command_words(LGOOD, sub))
    for sub in range(4):
        rxq.extend([(0, 0)] * rng.randint(0, 4))
        rxq.extend(U.link_command_words(LCRD, sub))
    state = {"mode": None, "hdr": [], "acks": [], "credit": 0, "dut_credits": 0, "dut_next_seq": None, "my_seq": 0,
             "hp_pending": False, "dp_words": None, "ignore_until_lrty": False, "zlp": False, "dp_mask": 0xF}
    t_end = plan["u0_cycles"]

    def parse_sink():
        d, c = b.get(stub.sink.payload), b.get(stub.sink.ctrl)
        if not b.get(stub.sink.valid):
            return
        if state["mode"] == "lc":
            state["mode"] = None
            lo = d & 0xFFFF
            cmd, sub = (lo >> 7) & 0xF, lo & 0xF
            res.bin("link_u0_link_command")
            if cmd == LCRD:
                state["dut_credits"] += 1
            elif cmd == LRTY:
                state["ignore_until_lrty"] = False
                res.bin("link_u0_retry")
            elif cmd == LGOOD and state["dut_next_seq"] is None:
                state["dut_next_seq"] = (sub + 1) & 7
            return
        if state["mode"] == "hp":
            state["hdr"].append(d)
            if len(state["hdr"]) == 4:
                seq = (state["hdr"][3] >> 16) & 7
                state["mode"] = None
                res.bin("link_u0_header_packet")
                if not state["ignore_until_lrty"]:
                    state["acks"].append([rng.randint(4, 60), seq])
            return
        if (d, c) == U.LCSTART:
            state["mode"] = "lc"
        elif (d, c) == U.HPSTART:
            state["mode"], state["hdr"] = "hp", []
        elif (d, c) == U.DPPSTART:
            res.bin("link_u0_data_payload")

    t = 0
    while t < t_end:
        t += 1
        parse_sink()
        # acknowledge the DUT's header packets
        for a in state["acks"]:
            a[0] -= 1
        if state["acks"] and state["acks"][0][0] <= 0 and not rxq:
            _, seq = state["acks"].pop(0)
            if rng.random() < 0.08:
                # the partner claims the header was damaged: the DUT has to send LRTY and everything unacknowledged again
                rxq.extend(U.link_command_words(LBAD, 0))
                state["acks"] = []
                state["ignore_until_lrty"] = True
            else:
                rxq.extend(U.link_command_words(LGOOD, seq))
                rxq.extend([(0, 0)] * rng.randint(0, 3))
                rxq.extend(U.link_command_words(LCRD, state["credit"]))
                state["credit"] = (state["credit"] + 1) & 3
        r = rng.random()
        # the protocol layer above the DUT offers a header packet
        if state["hp_pending"]:
            if b.get(link.header_sink.ready):
                b.set(link.header_sink.valid, 0)
                state["hp_pending"] = False
        elif r < 0.01:
            b.set(link.header_sink.header.dw0, 0x04 | (rng.getrandbits(27) << 5))
            b.set(link.header_sink.header.dw1, rng.getrandbits(32))
            b.set(link.header_sink.header.dw2, rng.getrandbits(32))
            b.set(link.header_sink.valid, 1)
            state["hp_pending"] = True
        # ... or a data packet
        if state["dp_words"] is not None:
            left, total = state["dp_words"]
            if b.get(link.data_sink.ready) and b.get(link.data_sink.valid):
                left -= 1
            if left == 0:
                b.set(link.data_sink.valid, 0)
                b.set(link.data_sink.first, 0)
                b.set(link.data_sink.last, 0)
                state["dp_words"] = None
            else:
                b.set(link.data_sink.valid, state["dp_mask"] if left == 1 else 0xF)
                b.set(link.data_sink.payload, rng.getrandbits(32) if rng.random() < 0.9 else 0)
                b.set(link.data_sink.first, 1 if left == total else 0)
                b.set(link.data_sink.last, 1 if left == 1 else 0)
                state["dp_words"] = (left, total)
        elif state["zlp"]:
            b.set(link.data_sink_send_zlp, 0)
            state["zlp"] = False
        elif 0.013 <= r < 0.0145:
            # zero-length data packet: header with length 0 and an empty payload
            b.set(link.data_sink_sequence_number, rng.randrange(32))
            b.set(link.data_sink_endpoint_number, rng.randrange(1, 16))
            b.set(link.data_sink_send_zlp, 1)
            state["zlp"] = True
            res.bin("link_u0_zlp_requested")
        elif 0.01 <= r < 0.013:
            nwords = rng.choice([1, 1, 2, 16, 128, 256])
            tail = rng.choice([4, 4, 1, 2, 3])                 # bytes in the last word
            state["dp_mask"] = (1 << tail) - 1
            if tail != 4:
                res.bin("link_u0_partial_last_word")
            b.set(link.data_sink_length, 4 * (nwords - 1) + tail)
            b.set(link.data_sink_sequence_number, rng.randrange(32))
            b.set(link.data_sink_endpoint_number, rng.randrange(1, 16))
            b.set(link.data_sink_direction, 1)
            b.set(link.data_sink.valid, state["dp_mask"] if nwords == 1 else 0xF)
            b.set(link.data_sink.payload, rng.getrandbits(32))
            b.set(link.data_sink.first, 1)
            b.set(link.data_sink.last, 1 if nwords == 1 else 0)
            state["dp_words"] = (nwords, nwords)
        # the partner sends a header packet of its own (the DUT answers with LGOOD / LCRD while it may be transmitting)
        if 0.02 <= r < 0.03 and not rxq and state["dut_credits"] > 0 and state["dut_next_seq"] is not None:
            state["dut_credits"] -= 1
            rxq.extend(U.header_words(0x04 | (rng.getrandbits(27) << 5), rng.getrandbits(32), rng.getrandbits(32), state["dut_next_seq"]))
            state["dut_next_seq"] = (state["dut_next_seq"] + 1) & 7
            res.bin("link_u0_partner_header")
        rx_drive()
        yield
    if not b.get(link.trained):
        res.bin("link_u0_left")


def run_case(rng, tier, res):
    if not L.selftest():
        raise RuntimeError("reference LFSR self-test failed")
    r = rng.random()
    if tier == "thorough" and r < 0.004:
        res.bin("mode_link_full")
        run_link(rng, tier, res, full=True)
    elif r < 0.07:
        res.bin("mode_link")
        run_link(rng, tier, res, full=False)
    else:
        res.bin("mode_phy")
        run_phy(rng, tier, res)
