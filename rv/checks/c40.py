"""C40 -- each received data packet is reported good or bad exactly once.

DUT: luna.gateware.usb.usb3.link.data.DataPacketReceiver (real code) behind a harness-side ResetInserter (the reset is
  pulsed between the sub-sessions of a case; a case is several sub-sessions because elaborating the CRC-32 costs seconds).
Workload (link-partner model, rv/ref/c35_usb3link.py): sub-sessions of 8 packets; data packet headers + payloads of every
  length mod 4 (0..70 mostly, some up to 300, about 2 % at or next to the 1024-byte maximum), header fields random; damaged variants: one CRC-32
  bit flipped, one payload bit flipped, two CRC bytes swapped, header CRC-16 / CRC-5 wrong in one bit, payload aborted
  with EDB EDB EDB EPF at every offset (also exactly where the CRC is due), payload shorter / longer than the header's
  length, a K-symbol inside the payload, a payload crafted so that the END framing that follows it equals its CRC-32 while
  the CRC itself is missing; non-data headers (TP/LMP/ITP and the reserved types 0x09/0x0A/0x18 one bit away from DATA),
  also followed by a complete well-formed DPP (never a data packet: 'good' forbidden); data headers without a DPP followed
  by an idle word, other framing, a link command or directly by the next header's start framing; link commands, ordered-set and idle words as other traffic;
  packets back to back or separated.  Not-valid words (what the receive path produces when SKPs are removed) are inserted
  at random (four densities) and on purpose before every kind of word -- header words, DPP start, first / middle payload
  words, *the word that completes the CRC*, the END framing -- carrying garbage, the previous word, the next word, zero
  or look-alikes of framing.
Monitors: packet_good / packet_bad strobes (cycle, kind) and every byte offered on `source` (valid lanes), per cycle.
Oracle (reference receiver written from USB 3.2 7.2.1/7.2.4, no luna code): per data packet (header + DPP start seen)
  the verdict is computed from the valid words the partner sent: header CRC-16 and CRC-5 good, the first data-length
  symbols after the start framing are data symbols, the next four are data symbols equal to the CRC-32 of those bytes ->
  'good', otherwise 'bad'; a packet whose header CRC is wrong must never be 'good' (nothing or one 'bad' accepted).
  Strobes are attributed to the packet whose DPP start was presented last.  Required per packet: exactly one strobe in
  total, of the right kind; 'good' not before the word completing the CRC; bytes offered before 'good' == the payload,
  and no more bytes afterwards (exactly data-length bytes).  No strobe and no byte outside data packets.
Not judged: latency of the report beyond "before the next packet's DPP start"; `first`/`last`/`header`/`new_header`;
  payload bytes of packets that end 'bad'; corrupt END framing after a valid CRC (not generated); data-length > 1024;
  whether a DPP behind a header of another type is reported 'bad' or not at all.
Known findings on the unchanged tree are classified narrowly (see known_findings.d/C40.json); after the ZLP finding
  (receiver stuck) the rest of that sub-session is unjudged.
Deviation from DESIGN section 7: cases are long sessions (elaboration cost), so the quick tier has 16 cases x 192 packets (one round on 16 workers: 16 elaborations side by side are what costs wall time).
"""
import struct

from rv.sim import Bench
from rv.ref import c35_usb3link as L

PROPERTY = "C40"
CASES = {"quick": 16, "thorough": 160}
# elaboration of the CRC-32 users dominates the cost; generous watchdog for a loaded machine
TIMEOUT = {"quick": 3600, "thorough": 8 * 3600}
RULE = ("case = 24 sub-sessions (DUT reset between) x 8 packets: data packets of all lengths mod 4 incl. zero length, ~45% damaged "
        "(CRC-32/payload/header CRC bit flips, aborts, short/long, K-symbol, missing CRC), other traffic between, not-valid words at "
        "random density and directed before each word role; non-trivial = >=1 damaged packet, >=1 not-valid word inside a payload "
        "and before a CRC word; distinct = hash of the complete word script")
REQUIRED_BINS = ["ctrl_symbol_in_last_payload_word", "good_len_mod4_0", "good_len_mod4_1", "good_len_mod4_2", "good_len_mod4_3", "zlp_good", "zlp_bad_crc", "good_long", "good_max_size_1024", "bad_max_size_1024",
                 "bad_crc32_flip", "bad_payload_flip", "bad_crc_swap", "bad_hdr_crc16", "bad_hdr_crc5", "abort_mid", "abort_at_crc",
                 "short_payload", "long_payload", "ctrl_in_payload", "nondata_header", "link_command_between", "dph_without_dpp",
                 "dph_without_dpp_then_hpstart", "dph_without_dpp_then_framing", "type_one_bit_from_data_with_dpp", "type_bit4_set_with_dpp",
                 "other_type_with_dpp",
                 "gap_in_header", "gap_before_dppstart", "gap_before_first_payload", "gap_in_payload", "gap_before_crc_word",
                 "gap_after_crc_word", "gap_style_next", "gap_style_hold", "gap_style_lookalike", "back_to_back", "good_after_bad_back_to_back",
                 "gap_before_crc_word_good_aligned", "gap_before_crc_word_good_unaligned"]
REQUIRED_EVENTS = ["packets_sent", "packets_expected_good", "packets_expected_bad", "packets_bad_header", "good_strobes", "bad_strobes",
                   "payload_bytes_observed", "payload_bytes_compared", "cycles_monitored", "invalid_words_sent", "packets_judged"]
ASSUMPTIONS = ["a data packet = data header followed (possibly after not-valid words) by the DPP start framing; the report must come "
               "before the DPP start of the next packet is presented",
               "a packet whose header CRC-16/CRC-5 is wrong is never 'good'; whether it is reported 'bad' or not at all is not judged",
               "the four symbols after the payload must be data symbols equal to the CRC-32; K-symbols there make the packet bad"]

KINDS = [("good", 40), ("crc32_flip", 9), ("payload_flip", 7), ("crc_swap", 3), ("hdr_crc16", 6), ("hdr_crc5", 5), ("abort", 7),
         ("short", 4), ("long", 4), ("ctrl_in_payload", 5), ("crafted_no_crc", 2), ("nondata", 5), ("dph_no_dpp", 4), ("other_type_with_dpp", 6)]
GAP_ROLES = ["dw0", "dw1", "dw2", "dw3", "sdp", "pay_first", "pay_mid", "crc", "end"]
KSYMS = [L.SKP, L.SUB, L.COM, L.END, L.EDB, L.SHP, L.SDP, L.EPF]


def pick_weighted(rng, table):
    tot = sum(w for _, w in table)
    x = rng.random() * tot
    for k, w in table:
        x -= w
        if x < 0:
            return k
    return table[-1][0]


def ref_verdict(n, syms):
    """reference DPP verdict from the symbols that follow the start framing (valid words only)."""
    if len(syms) < n + 4:
        return "bad", None
    if any(c for (_, c) in syms[:n + 4]):
        return "bad", None
    payload = bytes(v for (v, _) in syms[:n])
    crc = sum(v << (8 * i) for i, (v, _) in enumerate(syms[n:n + 4]))
    if crc != L.crc32(payload):
        return "bad", None
    return "good", payload


class Session:
    def __init__(self, rng, res, tier):
        self.rng, self.res, self.tier = rng, res, tier
        self.script = []       # (valid, data, ctrl, rst)
        self.packets = []
        self.resets = []       # (first_idx, last_idx) of reset spans
        self.p_gap = 0.0

    # -------------------------------------------------------------------------------- low level emission
    def put(self, valid, data, ctrl, rst=0):
        self.script.append((valid, data & 0xFFFFFFFF, ctrl & 0xF, rst))
        return len(self.script) - 1

    def garbage(self, style, nxt):
        rng = self.rng
        if style == "random":
            return rng.getrandbits(32), rng.choice([0, 0, rng.getrandbits(4)])
        if style == "hold":
            for (v, d, c, r) in reversed(self.script):
                return d, c
            return 0, 0
        if style == "next":
            return nxt
        if style == "lookalike":
            return rng.choice([L.HPSTART, L.DPPSTART, L.DPPEND, L.DPPABORT, (rng.getrandbits(32), 0xF)])
        return 0, 0

    def gaps(self, role, pkt, nxt):
        """maybe insert not-valid words before a valid word with the given role; returns number inserted"""
        rng, res = self.rng, self.res
        k = 0
        if pkt is not None and role in pkt["directed"]:
            k = rng.choice([1, 1, 2, 3])
        elif rng.random() < self.p_gap:
            k = rng.choice([1, 1, 1, 2, 4])
        for _ in range(k):
            style = rng.choice(["random", "random", "hold", "next", "zero", "lookalike"])
            d, c = self.garbage(style, nxt)
            self.put(0, d, c)
            res.event("invalid_words_sent")
            if style in ("next", "hold", "lookalike"):
                res.bin("gap_style_" + style)
        return k

    def word(self, data, ctrl, role, pkt):
        k = self.gaps(role, pkt, (data, ctrl))
        idx = self.put(1, data, ctrl)
        if pkt is not None and k:
            pkt["gaps"].setdefault(role, 0)
            pkt["gaps"][role] += k
        return idx

    # -------------------------------------------------------------------------------- traffic elements
    def filler(self):
        rng, res = self.rng, self.res
        r = rng.random()
        if r < 0.4:
            return 0
        n0 = len(self.script)
        for _ in range(rng.choice([1, 1, 2, 3, 6])):
            kind = rng.choice(["idle", "idle", "invalid", "lcmd", "ts", "skp", "data"])
            if kind == "idle":
                self.put(1, 0, 0)
            elif kind == "invalid":
                self.put(0, rng.getrandbits(32), rng.getrandbits(4))
                res.event("invalid_words_sent")
            elif kind == "lcmd":
                for (d, c) in L.link_command_words(rng.randrange(16), rng.randrange(16)):
                    self.put(1, d, c)
                res.bin("link_command_between")
            elif kind == "ts":
                self.put(1, *L.pack_word([L.K(L.COM), L.D(0), L.D(0x4A), L.D(0x4A)]))
            elif kind == "skp":
                self.put(1, *L.pack_word([L.K(L.SKP)] * 4))
            else:
                self.put(1, rng.getrandbits(32), 0)
        return len(self.script) - n0

    def length(self):
        rng = self.rng
        r = rng.random()
        if r < 0.05:
            return 0
        if r < 0.55:
            return rng.randint(1, 16)
        if r < 0.90:
            return rng.randint(17, 70)
        if r > 0.98:
            # the maximum packet size and its neighbours (byte-counter width boundary), in both tiers
            return rng.choice([1024, 1024, 1024, 1023, 1022, 1021, 1020, 512])
        return rng.randint(71, 300)

    def packet(self, kind=None, directed=None):
        rng, res = self.rng, self.res
        if kind is None:
            kind = pick_weighted(rng, KINDS)
        pkt = {"index": len(self.packets), "kind": kind, "gaps": {}, "directed": set(directed or ()),
               "i_hp": None, "i_sdp": None, "i_pay_last": None, "i_crc_last": None, "i_last": None}
        if directed is None:
            r = rng.random()
            if r < 0.35:
                pkt["directed"] = {rng.choice(GAP_ROLES)}
            elif r < 0.45:
                pkt["directed"] = set(rng.sample(GAP_ROLES, 2))
        n = self.length()
        if kind in ("crc32_flip", "crc_swap", "abort") and rng.random() < 0.12:
            n = 0
        if kind in ("short",) and n < 1:
            n = rng.randint(1, 24)
        if kind in ("ctrl_in_payload", "payload_flip") and n < 1:
            n = rng.randint(1, 24)
        if kind == "crafted_no_crc" and n < 4:
            n = rng.randint(4, 40)
        htype = L.HDR_TYPE_DATA
        if kind == "nondata":
            htype = rng.choice([L.HDR_TYPE_LMP, L.HDR_TYPE_TP, L.HDR_TYPE_ITP, 0x09, 0x0A, 0x18])
        if kind == "other_type_with_dpp":
            # a header whose type is not DATA (one bit away from it, or a defined other type) but which looks like a data
            # header in every other respect and is followed by a well-formed DPP: not a data packet, never 'good'
            htype = rng.choice([0x09, 0x0A, 0x18, 0x09, 0x0A, 0x18, L.HDR_TYPE_LMP, L.HDR_TYPE_ITP, L.HDR_TYPE_TP])
            kind_bin = "type_one_bit_from_data_with_dpp" if htype in (0x09, 0x0A, 0x18, 0x00, 0x0C) else "other_type_with_dpp"
            res.bin(kind_bin)
            if htype == 0x18:
                res.bin("type_bit4_set_with_dpp")
        dw0 = htype | (rng.getrandbits(27) << 5)
        dw1 = rng.getrandbits(16) | (n << 16)
        if kind == "nondata":
            dw1 = rng.getrandbits(32)
        dw2 = rng.getrandbits(32)
        seq, rsv, hub, dl, df = rng.randrange(8), rng.choice([0, 0, rng.randrange(8)]), rng.randrange(8), int(rng.random() < 0.15), int(rng.random() < 0.1)
        hw = L.header_words(dw0, dw1, dw2, seq, rsv, hub, dl, df)
        header_ok = True
        if kind == "hdr_crc16":
            w = rng.choice([1, 2, 3, 4])
            bit = rng.randrange(32) if w < 4 else rng.randrange(16)
            hw[w] = (hw[w][0] ^ (1 << bit), 0)
            header_ok = False
        elif kind == "hdr_crc5":
            hw[4] = (hw[4][0] ^ (1 << rng.randrange(16, 32)), 0)
            header_ok = False
        pkt.update(n=n, dw=(dw0, dw1, dw2), header_ok=header_ok)
        roles = ["hp", "dw0", "dw1", "dw2", "dw3"]
        for (d, c), role in zip(hw, roles):
            i = self.word(d, c, role, pkt)
            if role == "hp":
                pkt["i_hp"] = i
        if kind == "nondata":
            pkt["expect"] = "silent"
            res.bin("nondata_header")
            self.packets.append(pkt)
            pkt["i_last"] = len(self.script) - 1
            return pkt
        if kind == "dph_no_dpp":
            follow = rng.choice(["idle", "hpstart", "hpstart", "lcstart", "framing"])
            if follow == "idle":
                self.put(1, 0, 0)
            elif follow == "lcstart":
                for (d, c) in L.link_command_words(rng.randrange(16), rng.randrange(16)):
                    self.put(1, d, c)
            elif follow == "framing":
                self.put(1, *rng.choice([L.DPPEND, L.DPPABORT, L.pack_word([L.K(L.SKP)] * 4)]))
            else:
                # the start framing of the next header packet follows the header directly
                pkt["next_directly"] = True
                res.bin("dph_without_dpp_then_hpstart")
            if follow in ("lcstart", "framing"):
                res.bin("dph_without_dpp_then_framing")
            pkt["expect"] = "silent"
            res.bin("dph_without_dpp")
            self.packets.append(pkt)
            pkt["i_last"] = len(self.script) - 1
            return pkt
        # ---- payload symbols
        payload = bytes(rng.getrandbits(8) for _ in range(n))
        if rng.random() < 0.1 and n:
            payload = bytes([rng.choice([0x00, 0xFF, 0xFD, 0xF7, 0x5C])] * n)
        if kind == "crafted_no_crc":
            x = L.crc32_steer(payload[:n - 4], L.DPPEND[0])
            payload = payload[:n - 4] + x
            syms = [L.D(b) for b in payload] + [L.K(L.END)] * 3 + [L.K(L.EPF)]
        elif kind == "abort":
            k = rng.choice([n, n, rng.randint(0, n), rng.randint(0, n)])
            syms = [L.D(b) for b in payload[:k]] + [L.K(L.EDB)] * 3 + [L.K(L.EPF)]
            res.bin("abort_at_crc" if k == n else "abort_mid")
        elif kind == "short":
            m = rng.randint(0, n - 1)
            syms = L.dpp_symbols(payload[:m])[4:]
            res.bin("short_payload")
        elif kind == "long":
            extra = bytes(rng.getrandbits(8) for _ in range(rng.choice([1, 2, 3, 4, 4, 5, 8])))
            syms = L.dpp_symbols(payload + extra)[4:]
            res.bin("long_payload")
        else:
            crc = L.crc32(payload)
            sent = bytearray(payload)
            if kind == "crc32_flip":
                crc ^= 1 << rng.randrange(32)
                res.bin("bad_crc32_flip")
            elif kind == "crc_swap":
                cb = bytearray(struct.pack("<I", crc))
                i, j = rng.sample(range(4), 2)
                if cb[i] == cb[j]:
                    cb[i] ^= 0x01
                cb[i], cb[j] = cb[j], cb[i]
                crc = struct.unpack("<I", bytes(cb))[0]
                res.bin("bad_crc_swap")
            elif kind == "payload_flip":
                sent[rng.randrange(n)] ^= 1 << rng.randrange(8)
                res.bin("bad_payload_flip")
            syms = [L.D(b) for b in sent] + [L.D(b) for b in struct.pack("<I", crc)] + [L.K(L.END)] * 3 + [L.K(L.EPF)]
            if kind == "ctrl_in_payload":
                k = rng.randrange(n)
                syms[k] = L.K(rng.choice(KSYMS)) if rng.random() < 0.8 else (syms[k][0], 1)
                res.bin("ctrl_in_payload")
        if kind == "hdr_crc16":
            res.bin("bad_hdr_crc16")
        if kind == "hdr_crc5":
            res.bin("bad_hdr_crc5")
        words = L.pack_symbols([L.K(L.SDP)] * 3 + [L.K(L.EPF)] + syms)
        j_pay_last = (n - 1) // 4 + 1 if n else 0        # index into `words`
        j_crc_last = (n + 3) // 4 + 1
        for j, (d, c) in enumerate(words):
            if j == 0:
                role = "sdp"
            elif j == j_crc_last:
                role = "crc"
            elif j > j_crc_last:
                role = "end"
            elif j == 1:
                role = "pay_first"
            else:
                role = "pay_mid"
            i = self.word(d, c, role, pkt)
            if j == 0:
                pkt["i_sdp"] = i
            if j == j_pay_last:
                pkt["i_pay_last"] = i
            if j == j_crc_last:
                pkt["i_crc_last"] = i
        pkt["i_last"] = len(self.script) - 1
        # stimulus feature used by the known-finding classifier: the first K-symbol inside the payload region sits in the
        # word that holds the last payload byte
        pkt["ctrl_first_in_last_payload_word"] = False
        if 1 <= j_pay_last < len(words):
            lanes = n - 4 * (j_pay_last - 1)
            pkt["ctrl_first_in_last_payload_word"] = bool((words[j_pay_last][1] & ((1 << lanes) - 1))
                                                          and all(words[j][1] == 0 for j in range(1, j_pay_last)))
        verdict, pl = ref_verdict(n, syms)
        if not header_ok or kind == "other_type_with_dpp":
            pkt["expect"] = "none"
        else:
            pkt["expect"] = verdict
            pkt["payload"] = pl
        # ---- bins
        g = pkt["gaps"]
        if pkt["ctrl_first_in_last_payload_word"] and header_ok:
            res.bin("ctrl_symbol_in_last_payload_word")
        if any(r in g for r in ("dw0", "dw1", "dw2", "dw3")):
            res.bin("gap_in_header")
        if "sdp" in g:
            res.bin("gap_before_dppstart")
        if "pay_first" in g and n:
            res.bin("gap_before_first_payload")
        if "pay_mid" in g:
            res.bin("gap_in_payload")
        if "crc" in g and pkt["i_crc_last"] is not None:
            res.bin("gap_before_crc_word")
            if pkt["expect"] == "good" and n:
                res.bin("gap_before_crc_word_good_aligned" if n % 4 == 0 else "gap_before_crc_word_good_unaligned")
        if "end" in g:
            res.bin("gap_after_crc_word")
        if pkt["expect"] == "good":
            if n == 0:
                res.bin("zlp_good")
            else:
                res.bin("good_len_mod4_%d" % (n % 4))
            if n > 70:
                res.bin("good_long")
            if n == 1024:
                res.bin("good_max_size_1024")
        elif n == 1024 and pkt["expect"] == "bad":
            res.bin("bad_max_size_1024")
        elif n == 0 and kind in ("crc32_flip", "crc_swap"):
            res.bin("zlp_bad_crc")
        self.packets.append(pkt)
        return pkt

    def reset(self):
        a = self.put(0, 0, 0, 1)
        self.put(0, 0, 0, 1)
        b = self.put(0, 0, 0, 0)
        self.resets.append((a, b))

    def build(self, n_sub, n_pkt):
        rng, res = self.rng, self.res
        for s in range(n_sub):
            self.p_gap = rng.choice([0.0, 0.04, 0.2, 0.5])
            for _ in range(rng.randint(1, 3)):
                self.put(1, 0, 0)
            prev = None
            for k in range(n_pkt):
                n_before = len(self.script)
                direct = prev is not None and prev.get("next_directly")
                nfill = self.filler() if ((k or rng.random() < 0.5) and not direct) else 0
                pkt = self.packet(kind=pick_weighted(rng, [kk for kk in KINDS if kk[0] not in ("nondata", "dph_no_dpp", "other_type_with_dpp")])
                                  if direct else None)
                if direct:
                    pkt["after_dph_without_dpp"] = True
                if prev is not None and nfill == 0 and pkt["i_hp"] == n_before:
                    res.bin("back_to_back")
                    if prev["expect"] in ("bad", "none") and pkt["expect"] == "good":
                        res.bin("good_after_bad_back_to_back")
                prev = pkt
                pkt["sub"] = s
            for _ in range(rng.randint(8, 12)):
                self.put(rng.choice([1, 1, 1, 0]), 0, 0)
            self.put(1, 0, 0)
            self.put(1, 0, 0)
            self.reset()


def judge(res, sess, strobes, bytes_seen, n_cycles):
    """strobes: list of (cycle, 'G'|'B'); bytes_seen: list of (cycle, bytes).  word i of the script is sampled at cycle i+1."""
    cyc = lambda i: None if i is None else i + 1
    pk = [p for p in sess.packets if p["i_sdp"] is not None]
    reset_spans = [(cyc(a), cyc(b)) for (a, b) in sess.resets]

    def in_reset(c):
        return any(a <= c <= b for a, b in reset_spans)

    def sub_end(p):
        return reset_spans[p["sub"]][0]

    # windows: (t_sdp, next t_sdp] within the same sub-session, else up to the reset
    wins = []
    for i, p in enumerate(pk):
        lo = cyc(p["i_sdp"])
        hi = sub_end(p) - 1
        if i + 1 < len(pk) and pk[i + 1]["sub"] == p["sub"]:
            hi = cyc(pk[i + 1]["i_sdp"])
        wins.append((lo, hi))
        p["S"], p["bytes"] = [], []

    def owner(c):
        # last packet with t_sdp < c, if c is inside its window
        lo_i, hi_i = 0, len(pk) - 1
        ans = None
        while lo_i <= hi_i:
            mid = (lo_i + hi_i) // 2
            if wins[mid][0] < c:
                ans = mid
                lo_i = mid + 1
            else:
                hi_i = mid - 1
        if ans is None or c > wins[ans][1]:
            return None
        return ans

    stuck_subs = set()
    orphans = []
    for (c, k) in strobes:
        if in_reset(c):
            continue
        o = owner(c)
        if o is None:
            orphans.append((c, k))
        else:
            pk[o]["S"].append((c, k))
    orphan_bytes = []
    for (c, bs) in bytes_seen:
        if in_reset(c):
            continue
        o = owner(c)
        if o is None:
            orphan_bytes.append((c, bs))
        else:
            pk[o]["bytes"].append((c, bs))

    prev_known_tail = None      # (sub, last strobe cycle) of a packet that showed the good-then-bad pattern
    for i, p in enumerate(pk):
        if p["sub"] in stuck_subs:
            res.unjudged += 1
            continue
        res.event("packets_judged")
        S = p["S"]
        kinds = [k for (_, k) in S]
        exp = p["expect"]
        n = p["n"]
        tc, tp, thp = cyc(p["i_crc_last"]), cyc(p["i_pay_last"]), cyc(p["i_hp"])
        ctx = "packet#%d kind=%s len=%d expect=%s hp@%s sdp@%s crc_word@%s gaps=%r window=%r strobes=%r" % (
            p["index"], p["kind"], n, exp, thp, cyc(p["i_sdp"]), tc, p["gaps"], wins[i], S[:8])
        consecutive = all(S[j + 1][0] == S[j][0] + 1 for j in range(len(S) - 1))
        ok = ((exp == "good" and kinds == ["G"] and tc is not None and S[0][0] >= tc)
              or (exp == "bad" and kinds == ["B"])
              or (exp == "none" and "G" not in kinds and len(kinds) <= 1))
        mech = None
        if not ok:
            if (n == 0 and exp in ("good", "bad") and tc is not None and len(S) >= 2 and set(kinds) == {"G"} and consecutive
                    and S[0][0] > tc and S[-1][0] >= wins[i][1] - 1):
                mech = "zlp_reported_good_every_cycle_receiver_stuck"
                stuck_subs.add(p["sub"])
            elif ("crc" in p["gaps"] and S and tc is not None and tp is not None and tp < S[0][0] < tc):
                mech = "crc_checked_on_invalid_word_before_crc_word"
            elif (exp == "bad" and p["ctrl_first_in_last_payload_word"] and len(S) >= 2 and S[0] == (tp, "B")):
                mech = "second_report_after_control_symbol_in_last_payload_word"
                prev_known_tail = (p["sub"], S[-1][0], "second_report")
            elif (p["kind"] == "crafted_no_crc" and kinds and kinds[0] == "G"):
                mech = "good_when_crc_field_holds_end_framing"
                if len(S) >= 2 and consecutive and kinds[-1] == "B":
                    prev_known_tail = (p["sub"], S[-1][0], "good_then_bad")
            elif (exp == "good" and len(S) >= 2 and consecutive and tc is not None and S[0][0] >= tc
                  and set(kinds[:-1]) == {"G"} and kinds[-1] == "B"):
                mech = "good_then_bad_next_cycle"
                prev_known_tail = (p["sub"], S[-1][0], "good_then_bad")
            elif (not S and exp in ("good", "bad") and prev_known_tail is not None and prev_known_tail[0] == p["sub"]
                  and prev_known_tail[1] >= thp):
                mech = "next_packet_missed_after_" + prev_known_tail[2]
            elif not S and exp in ("good", "bad") and p.get("after_dph_without_dpp"):
                mech = "packet_missed_after_data_header_without_payload"
            elif exp == "good":
                if not S:
                    mech = "good_packet_not_reported"
                elif kinds[0] == "B":
                    mech = "good_packet_reported_bad"
                    if any(r in p["gaps"] for r in ("pay_first", "pay_mid")):
                        mech += "_with_invalid_words_in_payload"
                    elif any(r in p["gaps"] for r in ("dw0", "dw1", "dw2", "dw3", "sdp")):
                        mech += "_with_invalid_words_in_header"
                elif tc is None or S[0][0] < tc:
                    mech = "good_before_crc_received"
                else:
                    mech = "good_packet_reported_more_than_once"
            elif exp == "bad":
                if "G" in kinds:
                    mech = "%s_packet_reported_good" % p["kind"]
                elif not S:
                    mech = "bad_packet_not_reported"
                else:
                    mech = "bad_packet_reported_more_than_once"
            else:
                if "G" in kinds:
                    mech = "good_for_non_data_header_type" if p["kind"] == "other_type_with_dpp" else "good_with_bad_header_crc"
                else:
                    mech = "bad_header_packet_reported_more_than_once"
            res.violation(mech, ctx)
        # ---- payload stream (only for packets the oracle calls good and the DUT called good first)
        if exp == "good" and kinds and kinds[0] == "G":
            t_good = S[0][0]
            got = b"".join(bs for (c, bs) in p["bytes"] if c <= t_good)
            late = b"".join(bs for (c, bs) in p["bytes"] if c > t_good)
            res.event("payload_bytes_compared", len(got) + (1 if n == 0 else 0))
            if got != p["payload"]:
                m2 = "payload_length_mismatch" if len(got) != n else "payload_content_mismatch"
                res.violation(m2, ctx + " got %d bytes %s expected %d bytes %s" % (len(got), got[:24].hex(), n, p["payload"][:24].hex()))
            elif late and mech is None:
                res.violation("payload_bytes_after_report", ctx + " %d extra bytes after the good strobe" % len(late))
    for (c, k) in orphans[:3]:
        if not stuck_subs:
            res.violation("report_outside_data_packet", "strobe %s at cycle %d belongs to no data packet" % (k, c))
    for (c, bs) in orphan_bytes[:3]:
        if not stuck_subs:
            res.violation("payload_bytes_outside_data_packet", "%d bytes offered at cycle %d outside any data packet payload" % (len(bs), c))


def run_case(rng, tier, res):
    from amaranth import Signal, ResetInserter
    from luna.gateware.usb.usb3.link.data import DataPacketReceiver

    L.selftest()
    dut = DataPacketReceiver()
    rst = Signal(name="harness_rst")
    top = ResetInserter({"ss": rst})(dut)
    sess = Session(rng, res, tier)
    sess.build(24, 8)
    script = sess.script
    b = Bench(top, domain="ss", freq=125e6, max_cycles=len(script) + 50)
    sigs = [dut.sink.valid, dut.sink.data, dut.sink.ctrl, dut.packet_good, dut.packet_bad, dut.source.valid, dut.source.data, rst]
    b.watch(*sigs)
    res.sig(script)
    res.desc = {"packets": [(p["kind"], p["n"], p["expect"], sorted(p["gaps"])) for p in sess.packets[:10]],
                "words": len(script), "first_words": [(v, "%08x" % d, c) for (v, d, c, r) in script[:10]]}
    for p in sess.packets:
        res.event("packets_sent")
        if p["expect"] == "good":
            res.event("packets_expected_good")
        elif p["expect"] == "bad":
            res.event("packets_expected_bad")
        elif p["expect"] == "none":
            res.event("packets_bad_header")
    strobes, bytes_seen = [], []
    state = {"desync": None}

    def driver():
        for (v, d, c, r) in script:
            b.set(dut.sink.valid, v); b.set(dut.sink.data, d); b.set(dut.sink.ctrl, c); b.set(rst, r)
            yield
        b.set(dut.sink.valid, 0)
        yield

    def monitor(b):
        v, d, c, g, bad, sv, sd, r = (b.get(s) for s in sigs)
        t = b.cycle
        res.event("cycles_monitored")
        k = t - 1
        if k < len(script) and state["desync"] is None:
            if (v, d, c) != script[k][:3]:
                state["desync"] = (t, v, d, c, script[k])
        if g:
            strobes.append((t, "G"))
            res.event("good_strobes")
        if bad:
            strobes.append((t, "B"))
            res.event("bad_strobes")
        if g and bad and not r:
            res.violation("good_and_bad_same_cycle", "cycle %d" % t)
        if sv:
            if sv not in (1, 3, 7, 15):
                res.violation("payload_lanes_not_contiguous", "cycle %d source.valid=%s" % (t, bin(sv)))
            nb = bin(sv).count("1")
            bytes_seen.append((t, bytes((sd >> (8 * i)) & 0xFF for i in range(4) if (sv >> i) & 1)))
            res.event("payload_bytes_observed", nb)

    b.add_driver(driver(), main=True)
    b.add_monitor(monitor)
    b.run()
    res.cycles = b.cycle
    if state["desync"]:
        raise RuntimeError("harness desync: %r" % (state["desync"],))
    judge(res, sess, strobes, bytes_seen, b.cycle)
    res.nontrivial = bool(res.events.get("packets_expected_bad") and res.bins.get("gap_in_payload") and res.bins.get("gap_before_crc_word"))
