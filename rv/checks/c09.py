"""C09 — GET_DESCRIPTOR returns exactly the requested descriptor bytes.

DUTs (real luna objects):
  * in-device sessions: USBDevice(bus=UTMIInterface()) + USBControlEndpoint(max_packet_size in {8,16,32,64}) +
    StandardRequestHandler(avoid_blockram False/True), i.e. GetDescriptorHandlerBlock, GetDescriptorHandlerDistributed
    and (when the collection holds "runtime" descriptors = factories of stream generators) GetDescriptorHandlerMux
    over both; optionally a second IN endpoint (USBSignalInEndpoint) for interleaved traffic.  The start_position
    advance on ACK is the real one.
  * stand-alone sessions: GetDescriptorHandlerBlock / GetDescriptorHandlerDistributed / GetDescriptorHandlerMux
    (block + distributed) driven on value/length/start_position/start with random tx.ready.

Collections: random, automatic_language_descriptor=False, types 0..15, sparse indices (0..255), lengths 1..300
with emphasis on 1..9, mps-1, mps, mps+1, k*mps, 255/256; bytes carry their position (restart / skip / shift are
distinguishable); plus a "default" collection built with the usb_protocol emitters (device, configuration,
strings, automatic language descriptor).

Workload, in-device: per session 4-9 control transfers GET_DESCRIPTOR(type, index, wLength) read with IN
transactions by the USB2 host model (rv/usb2host.py): existing and missing descriptors (missing type, type above
the table, index between / beyond sparse indices), wLength in {1, 2, len-1, len, len+1, mps-1, mps, mps+1, k*mps,
255, 256, 0xFFFF, random}; tx_ready back-pressure profiles; hostile histories: host ACK lost (host re-issues the IN,
the same packet must come again), foreign traffic between the retries (IN to another address followed by the
host's ACK to that device, IN to the second endpoint + ACK, OUT+DATA to another address, SOF), the same foreign
traffic between ACKed packets and between the SETUP and the first IN, ACK to the *final* packet lost (host goes on
to the status stage), data stage ended early by the host (status stage after k packets), transfer abandoned
without status stage followed by a new SETUP, request for a missing descriptor directly before / after a good one.
Every packet the device transmits must be the answer to a host packet (unsolicited packets are violations).
A session stops at its first violation (later transfers would only show follow-up damage).
Workload, stand-alone: 25-60 requests per session: (value, length, start_position) with start positions 0, k*mps,
arbitrary positions inside the descriptor, position == descriptor length (ZLP case), random tx.ready stalls.

Oracle (independent; the descriptor table is a python dict): expected data stage = desc[:min(wLength, len)];
walking it in mps pieces every IN must be answered by a CRC-valid data packet whose payload is exactly the next
piece (so: every packet <= mps, the stage ends with a short packet, or with a ZLP when the total is a non-zero
multiple of mps below wLength; nothing is skipped or repeated); a packet the host did not ACK must be sent again
unchanged; a missing descriptor must be answered with a STALL handshake and no data.  Stand-alone: the tx stream
packet (bytes between first and last, valid held, or the ZLP indication valid & last & ~first) equals
desc[sp : sp + min(mps, length - sp)], `stall` pulses for a missing descriptor and no tx.valid is seen.
A python `icontract` post-condition around GetDescriptorHandlerBlock.generate_rom_content decodes the ROM image per
the documented layout (type table -> index table -> data; big-endian (count|length, address) words) and requires
every (type, index) to round-trip and every absent type to have count 0.

Coverage-audit additions: stand-alone block handler in clock domain default / usb / sync / aux (sync then runs at an
unrelated rate as a bystander); mux shapes [Block], [Block, Block] (mux + handlers in a non-default domain), [Block,
Distributed], [Distributed, Block], [Block, Distributed, Distributed]; in-device `avoid_blockram=None` with and without
LUNA_AVOID_BLOCKRAM in the environment (the handler classes that were built are checked through the instance
registry); zero-length descriptors (expected: ZLP); descriptors of 1024..1900 bytes (offsets up to the 11-bit limit of
start_position); stand-alone probes a legal host never sends - start_position beyond the descriptor (up to 2047) and
length == start_position - on ROM descriptors, judged only for "no data byte is streamed" (ZLP, stall, silence are all
accepted).

Deviations from DESIGN.md section 7: the workload is wider (hostile host histories, mux with runtime descriptors,
unsolicited-packet accounting); in stand-alone mode a ZLP indication that is held until tx.ready is a violation
(the packet generator never raises ready for a ZLP, the in-device sessions show the resulting babble).
Known findings are classified by the stimulus history (see findings/C09.md), everything else keeps content-based
mechanism names.

Not judged: data PIDs/toggles, SETUP/status-stage handshakes (C07), response latency (bounded only), wLength == 0
(no data stage), start positions beyond the descriptor or beyond wLength (not reachable by a host that stops after
a short packet), requests while the previous packet is still being sent.
"""
from rv.sim import Bench
from rv.ref import usb2 as U

PROPERTY = "C09"
CASES = {"quick": 416, "thorough": 6400}
RULE = ("case = (handler variant block/distributed/mux, max packet size 8/16/32/64, random descriptor collection) and either an "
        "in-device session of 4-9 GET_DESCRIPTOR control transfers through the USB2 host model (lost ACKs, foreign traffic, early "
        "status, abandoned transfers, tx_ready stalls) or a stand-alone session of 25-60 (value, length, start_position) requests on "
        "the handler ports; non-trivial = at least one multi-packet transfer and one missing-descriptor request; distinct = hash of "
        "collection + request list + schedule")
REQUIRED_BINS = [
    "dev_block", "dev_distributed", "dev_mux", "sa_block", "sa_distributed", "sa_mux",
    "mps_8", "mps_16", "mps_32", "mps_64",
    "exact_multiple_wlength_above_block", "exact_multiple_wlength_above_distributed",
    "exact_multiple_wlength_equal", "wlength_below_len", "wlength_above_len", "wlength_multiple_of_mps_below_len",
    "multi_packet", "single_short_packet", "missing_type", "missing_index_sparse", "missing_type_above_table",
    "lost_ack_retry", "foreign_ack_between_retries", "second_endpoint_between_retries", "early_status", "abandoned_then_new_setup",
    "foreign_ack_before_first_in", "lost_final_ack_then_status", "foreign_ack_before_first_in_after_lost_final_ack",
    "missing_then_good", "sparse_indices", "default_collection", "runtime_descriptor_requested",
    "sa_start_mid_descriptor", "sa_zlp_position", "sa_zlp_with_ready_low", "sa_stall_on_last_byte", "tx_ready_stalls",
    "sa_start_beyond_descriptor", "sa_start_near_11bit_limit", "sa_length_equals_start", "zero_length_descriptor_requested",
    "sa_domain_usb", "sa_domain_sync", "sa_domain_aux", "sa_mux_shape_B", "sa_mux_shape_BB", "sa_mux_shape_BD", "sa_mux_shape_DB", "sa_mux_shape_BDD",
    "avoid_blockram_none_env_set", "avoid_blockram_none_env_unset", "long_descriptor",
]
REQUIRED_EVENTS = ["transfers_judged", "data_packets_compared", "bytes_compared", "stalls_seen", "zlps_seen",
                   "sa_requests_judged", "sa_bytes_compared", "sa_stalls_seen", "rom_postcondition_checked", "setup_acked", "sa_probes_judged",
                   "handler_class_checked"]
ASSUMPTIONS = [
    "host is legal: waits for the response or a timeout before the next packet, stops the data stage after a short packet or wLength bytes",
    "stand-alone: value/length/start_position are held from the start strobe until the packet has ended; one request at a time",
    "response latency is only bounded (host model window); data PIDs and status-stage handshakes are not judged here",
]

SA_WAIT = 24


# --------------------------------------------------------------------------------------------- collections

def tagged(n, salt):
    return bytes((((i * 29) ^ salt ^ (i >> 2) ^ ((i >> 6) * 0x55)) & 0xFF) for i in range(n))


def draw_length(rng, mps):
    return rng.choice([1, 2, 3, 4, 5, 7, 8, 9, 18, mps - 1, mps, mps, mps + 1, 2 * mps - 1, 2 * mps, 2 * mps, 2 * mps + 1, 3 * mps, 4 * mps,
                       255, 256, 300, rng.randint(1, 300), rng.randint(1, 3 * mps), rng.randint(1, 40), rng.randint(1, 12)
                       ]) if rng.random() < 0.9 else rng.randint(1, 300)


def make_entries(rng, mps, max_total, allow_long=True):
    """dict (type, index) -> bytes"""
    entries = {}
    ntypes = rng.randint(1, 4)
    types = rng.sample(range(0, 16), ntypes) if rng.random() < 0.4 else rng.sample([1, 2, 3, 4, 6, 7, 15], min(ntypes, 4))
    total = 0
    for t in types:
        style = rng.random()
        if style < 0.45:
            idxs = list(range(rng.randint(1, 3)))                        # consecutive
        elif style < 0.8:
            idxs = sorted(rng.sample([0, 1, 2, 3, 5, 7, 0x20, 0x80, 0xEE, 0xFE, 0xFF], rng.randint(1, 3)))   # sparse
        else:
            idxs = sorted(rng.sample(range(256), rng.randint(1, 3)))
        for i in idxs:
            n = draw_length(rng, mps)
            if total + n > max_total:
                n = rng.choice([mps, 2 * mps, rng.randint(1, 9)])
            r = rng.random()
            if r < 0.04:
                n = 0                                   # zero-length descriptor (the quantifier says sizes 0..)
            elif r < 0.09 and allow_long and not any(len(v) > 1000 for v in entries.values()):
                n = rng.choice([1024, 1031, 1536, 1900, 64 * rng.randint(16, 29)])     # offsets near the 11-bit start_position limit
                total -= n
            total += n
            entries[(t, i)] = tagged(n, rng.randrange(256)) if rng.random() < 0.8 else bytes(rng.randrange(256) for _ in range(n))
    # make sure exact multiples exist
    if not any(len(v) % mps == 0 and len(v) for v in entries.values()):
        t = rng.choice(types)
        i = rng.choice([x for x in range(0, 9) if (t, x) not in entries])
        entries[(t, i)] = tagged(mps * rng.choice([1, 1, 2, 3]), rng.randrange(256))
    return entries


def default_collection():
    from usb_protocol.emitters import DeviceDescriptorCollection
    d = DeviceDescriptorCollection()
    with d.DeviceDescriptor() as dd:
        dd.idVendor = 0x16D0
        dd.idProduct = 0x0F3B
        dd.iManufacturer = "LUNA"
        dd.iProduct = "Descriptor test device with a long product name"
        dd.iSerialNumber = "ThisSerialNumberIsResultsInADescriptorLongerThan64Bytes"
        dd.bNumConfigurations = 1
    with d.ConfigurationDescriptor() as c:
        for n in range(2):
            with c.InterfaceDescriptor() as i:
                i.bInterfaceNumber = n
                with i.EndpointDescriptor() as e:
                    e.bEndpointAddress = 0x81 + n
                    e.wMaxPacketSize = 64
                with i.EndpointDescriptor() as e:
                    e.bEndpointAddress = 0x01 + n
                    e.wMaxPacketSize = 64
    return d


class Setup:
    """Configuration of one case: collection + handler variant (+ reference table)."""

    def __init__(self, rng, standalone):
        self.standalone = standalone
        self.mps = rng.choice([8, 16, 32, 64])
        self.variant = rng.choice(["block", "distributed", "mux"] + (["mux", "mux"] if standalone else []))
        self.default = (not standalone) and self.variant != "mux" and rng.random() < 0.3
        self.runtime = set()
        if self.default:
            coll = default_collection()
            self.table = {(int(t), int(i)): bytes(raw) for t, i, raw in coll}
            self.collection = coll
            return
        budget = 1400 if self.variant != "block" else 2500
        self.table = make_entries(rng, self.mps, budget, allow_long=standalone or self.mps >= 32)
        keys = sorted(self.table)
        if self.variant == "mux":
            k = rng.randint(1, max(1, len(keys) // 2)) if len(keys) > 1 else 0
            self.runtime = set(rng.sample(keys, k))
            if len(self.runtime) == len(keys):
                self.runtime.discard(keys[0])
            if not self.runtime:
                # need one runtime descriptor: add one
                t = keys[0][0]
                i = max(i for (tt, i) in keys if tt == t) + 1
                if i < 256:
                    self.table[(t, i)] = tagged(rng.choice([self.mps, 5, 2 * self.mps + 3]), 7)
                    self.runtime = {(t, i)}
        elif self.variant == "distributed" and rng.random() < 0.3 and len(keys) > 1:
            self.runtime = set(rng.sample(keys, 1))

    def build_collection(self):
        if self.default:
            return self.collection
        from usb_protocol.emitters import DeviceDescriptorCollection
        from luna.gateware.usb.usb2.descriptor import USBDescriptorStreamGenerator
        coll = DeviceDescriptorCollection(automatic_language_descriptor=False)
        for (t, i), raw in sorted(self.table.items()):
            if (t, i) in self.runtime:
                coll.add_descriptor((lambda raw=raw: USBDescriptorStreamGenerator(raw)), index=i, descriptor_type=t)
            else:
                coll.add_descriptor(raw, index=i, descriptor_type=t)
        return coll

    def describe(self):
        return {"mode": "standalone" if self.standalone else "device", "variant": self.variant, "mps": self.mps,
                "default_collection": self.default,
                "descriptors": {"%d/%d" % k: len(v) for k, v in sorted(self.table.items())},
                "runtime": sorted("%d/%d" % k for k in self.runtime)}

    # ---- request generation shared by both modes
    def draw_missing(self, rng, res):
        types = sorted({t for t, _ in self.table})
        r = rng.random()
        for _ in range(50):
            if r < 0.3:
                cands = [t for t in range(0, max(types) + 1) if t not in types]
                if cands:
                    res.bin("missing_type")
                    return rng.choice(cands), rng.choice([0, 0, 1, 255])
                r = 0.5
            if r < 0.55:
                t = rng.choice([max(types) + 1, max(types) + 2, 16, 0x21, 0x22, 0x30, 0xFF, 200])
                if t > max(types) and t < 256:
                    res.bin("missing_type_above_table")
                    return t, rng.choice([0, 0, 1, 2, 255])
                r = 0.8
            t = rng.choice(types)
            have = sorted(i for (tt, i) in self.table if tt == t)
            cands = [i for i in ([have[-1] + 1, have[-1] + 2, 255, len(have), len(have) + 1] + list(range(0, have[-1]))) if 0 <= i < 256 and i not in have]
            if cands:
                i = rng.choice(cands)
                res.bin("missing_index_sparse" if i < have[-1] else "missing_index_beyond")
                return t, i
            r = rng.random()
        return 0xFE, 0xFE

    def draw_wlength(self, rng, n):
        mps = self.mps
        c = [1, 2, n - 1, n, n, n + 1, mps - 1, mps, mps + 1, 2 * mps, 3 * mps, (n // mps) * mps, (n // mps + 1) * mps, 255, 256, 0xFFFF, 0xFFFF, 4096,
             n + mps, n + 9, rng.randint(1, n + 70), rng.randint(1, max(1, n))]
        return rng.choice([x for x in c if 1 <= x <= 0xFFFF])

    def owner(self, key):
        """which sub-handler owns the key in the stand-alone mux shapes (index into the handler list), else 0"""
        return getattr(self, "owners", {}).get(key, 0)


def classify_request(setup, res, key, wlength, n, variant_of_key):
    mps = setup.mps
    if wlength < n:
        res.bin("wlength_below_len")
        if wlength % mps == 0:
            res.bin("wlength_multiple_of_mps_below_len")
    elif wlength > n:
        res.bin("wlength_above_len")
    total = min(wlength, n)
    if n % mps == 0 and wlength > n:
        res.bin("exact_multiple_wlength_above_" + variant_of_key)
    if n % mps == 0 and wlength == n:
        res.bin("exact_multiple_wlength_equal")
    if total > mps:
        res.bin("multi_packet")
    if total < mps:
        res.bin("single_short_packet")
    if key in setup.runtime:
        res.bin("runtime_descriptor_requested")


def tiny_rom(setup):
    """largest descriptor that goes into the block handler's ROM is shorter than 4 bytes"""
    if setup.variant == "distributed":
        return False
    rom = [len(v) for k, v in setup.table.items() if k not in setup.runtime]
    return bool(rom) and max(rom) <= 3


TINY_ROM_MECH = "block_handler_fails_to_elaborate_when_largest_rom_descriptor_is_below_4_bytes"


# --------------------------------------------------------------------------------------------- ROM post-condition

class RomContract:
    """icontract post-condition on GetDescriptorHandlerBlock.generate_rom_content (harness side, class-level wrap
    for the duration of elaboration; behaviour unchanged)."""

    def __init__(self, res):
        self.res = res
        self.failed = None

    def __enter__(self):
        import icontract
        from luna.gateware.usb.usb2.descriptor import GetDescriptorHandlerBlock
        self.cls = GetDescriptorHandlerBlock
        self.orig = GetDescriptorHandlerBlock.generate_rom_content
        outer = self

        def decodes(result, self):
            outer.res.event("rom_postcondition_checked")
            why = outer.decode(result, self)
            if why:
                outer.failed = why
            return why is None

        self.cls.generate_rom_content = icontract.ensure(decodes, "ROM image decodes back to every descriptor")(self.orig)
        return self

    def __exit__(self, *exc):
        self.cls.generate_rom_content = self.orig

    @staticmethod
    def decode(result, handler):
        init, max_size, max_type, index_map = result
        rom = b"".join(int(w).to_bytes(4, "big") for w in init)
        table = {}
        for t, i, raw in handler._descriptors:
            table[(int(t), int(i))] = bytes(raw)
        if not table:
            return None
        if max_type != max(t for t, _ in table):
            return "max_type_number %r" % (max_type,)
        if max_size < max(len(v) for v in table.values()):
            return "max_descriptor_size %r too small" % (max_size,)
        types = {t for t, _ in table}
        for t in range(max_type + 1):
            count = int.from_bytes(rom[4 * t:4 * t + 2], "big")
            ptr = int.from_bytes(rom[4 * t + 2:4 * t + 4], "big")
            idxs = sorted(i for (tt, i) in table if tt == t)
            if t not in types:
                if count != 0:
                    return "absent type %d has count %d" % (t, count)
                continue
            if count != len(idxs):
                return "type %d count %d != %d" % (t, count, len(idxs))
            if ptr % 4:
                return "type %d table pointer unaligned" % t
            for pos, i in enumerate(idxs):
                slot = index_map.get((t << 8) | i, None) if index_map else i
                if slot is None or not 0 <= slot < count:
                    return "type %d index %d has no slot" % (t, i)
                a = ptr + 4 * slot
                ln = int.from_bytes(rom[a:a + 2], "big")
                addr = int.from_bytes(rom[a + 2:a + 4], "big")
                if addr % 4:
                    return "descriptor %d/%d data pointer unaligned" % (t, i)
                if rom[addr:addr + ln] != table[(t, i)]:
                    return "descriptor %d/%d does not round-trip (len %d vs %d)" % (t, i, ln, len(table[(t, i)]))
        return None


# --------------------------------------------------------------------------------------------- in-device session

def run_device(rng, tier, res, setup):
    import icontract
    from luna.gateware.interface.utmi import UTMIInterface
    from luna.gateware.usb.usb2.device import USBDevice
    from luna.gateware.usb.usb2.control import USBControlEndpoint
    from luna.gateware.usb.usb2.endpoints.status import USBSignalInEndpoint
    from rv.usb2host import UTMIHost, init_device_signals

    mps = setup.mps
    utmi = UTMIInterface()
    dev = USBDevice(bus=utmi)
    ep0 = USBControlEndpoint(utmi=dev.utmi, max_packet_size=mps)
    import os
    from rv.sim import Registry
    from luna.gateware.usb.usb2.descriptor import GetDescriptorHandlerBlock, GetDescriptorHandlerDistributed, GetDescriptorHandlerMux
    avoid = setup.variant == "distributed"
    if rng.random() < 0.4:
        # avoid_blockram=None: the handler defers to LUNA_AVOID_BLOCKRAM in the environment (read when it is constructed)
        saved = os.environ.pop("LUNA_AVOID_BLOCKRAM", None)
        try:
            if avoid:
                os.environ["LUNA_AVOID_BLOCKRAM"] = rng.choice(["1", "true", "yes"])
            res.bin("avoid_blockram_none_env_set" if avoid else "avoid_blockram_none_env_unset")
            res.desc["config"]["avoid_blockram"] = "None, env %s" % ("set" if avoid else "unset")
            ep0.add_standard_request_handlers(setup.build_collection(), avoid_blockram=None)
        finally:
            os.environ.pop("LUNA_AVOID_BLOCKRAM", None)
            if saved is not None:
                os.environ["LUNA_AVOID_BLOCKRAM"] = saved
    else:
        ep0.add_standard_request_handlers(setup.build_collection(), avoid_blockram=avoid)
    dev.add_endpoint(ep0)
    if any(len(v) > 1000 for v in setup.table.values()):
        res.bin("long_descriptor")
    second_ep = rng.choice([0, 1, 2, 5, 9])
    sig_ep = None
    if second_ep:
        sig_ep = USBSignalInEndpoint(width=rng.choice([8, 16]), endpoint_number=second_ep)
        dev.add_endpoint(sig_ep)
    res.bin("dev_" + setup.variant)
    res.bin("mps_%d" % mps)
    contract = RomContract(res)
    try:
        with contract, Registry(GetDescriptorHandlerBlock, GetDescriptorHandlerDistributed, GetDescriptorHandlerMux) as reg:
            b = Bench(dev, domain="usb", freq=60e6, max_cycles=90000)
        built = (len(reg.instances[GetDescriptorHandlerBlock]), len(reg.instances[GetDescriptorHandlerDistributed]),
                 len(reg.instances[GetDescriptorHandlerMux]))
        want = {"block": (1, 0, 0), "distributed": (0, 1, 0), "mux": (1, 1, 1)}[setup.variant]
        res.event("handler_class_checked")
        if built != want:
            res.violation("descriptor_handler_selection_differs_from_avoid_blockram_setting",
                          "%s :: built (block, distributed, mux) = %s expected %s" % (setup.describe(), built, want))
            return
    except icontract.ViolationError as e:
        res.violation("rom_image_roundtrip_wrong", "%s :: %s" % (setup.describe(), contract.failed or str(e)[:300]))
        return
    except IndexError as e:
        if not tiny_rom(setup):
            raise
        res.violation(TINY_ROM_MECH, "%s :: IndexError: %s" % (setup.describe(), e))
        return
    ready_profile = rng.choice(["always", "always", ("random", 0.7), ("random", 0.4), ("bursty", 6, 12), ("every", 2), ("every", 3)])
    if ready_profile != "always":
        res.bin("tx_ready_stalls")
    gap_profile = rng.choice(["none", "none", "random", "onestall"])
    host = UTMIHost(b, utmi, rng, timing="fs12", ready_profile=ready_profile, gap_profile=gap_profile)
    if sig_ep is not None:
        b.watch(sig_ep.signal)
    res.desc.update({"ready_profile": str(ready_profile), "gap_profile": gap_profile, "second_endpoint": second_ep, "transfers": []})
    res.sig(ready_profile, gap_profile, second_ep)
    flags = {"multi": False, "missing": False}
    # history the classifier needs: which descriptor the handler was last started for (an IN in a data stage),
    # and whether an ACK that was not meant for endpoint 0 went by while a packet of ours was still un-ACKed
    hist = {"last_started": None, "foreign_ack_pending": False, "accounted": 0, "zlp_key": None,
            "unacked_pending": False, "stale_ack_consumed": False, "abandon_dirty": False}

    def account():
        """every device packet so far was the response to a host packet"""
        hist["accounted"] = len(host.tx_packets)

    def unsolicited(where):
        """device packets that nobody asked for (host.tx_packets also holds what arrived between transactions)"""
        n = len(host.tx_packets) + (1 if host._cur is not None else 0)
        if n == hist["accounted"]:
            return False
        extra = [bytes(p.data).hex()[:24] for p in host.tx_packets[hist["accounted"]:]]
        zk = hist["zlp_key"]
        if zk is not None and variant_of(zk) == "distributed":
            mech = "distributed_keeps_sending_unsolicited_zlps_after_exact_multiple"
        else:
            mech = "unsolicited_packet_from_device"
        res.violation(mech, "%s :: %d packet(s) without a token: %s" % (where, n - hist["accounted"], extra[:4]))
        return True

    def variant_of(key):
        if setup.variant == "mux":
            return "distributed" if key in setup.runtime else "block"
        return setup.variant

    def foreign_traffic(kind):
        """traffic that is not for endpoint 0 of this device; must not influence the transfer."""
        if kind == "foreign_in_ack":
            yield from host.token(U.IN, rng.choice([5, 17, 127]), rng.choice([0, 1, 2]))
            yield from host.idle(rng.randint(6, 30))           # the other device answers (not visible downstream)
            yield from host.handshake(U.ACK)
        elif kind == "second_ep_in_ack":
            if sig_ep is not None:
                b.set(sig_ep.signal, rng.randrange(256))
            r = yield from host.in_transaction(0, second_ep, ack="ack")
            account()
            if r["kind"] != "data":
                res.event("second_endpoint_no_data")
        elif kind == "foreign_out":
            yield from host.token(U.OUT, rng.choice([3, 64]), rng.choice([0, 1]))
            yield from host.idle(rng.randint(1, 3))
            yield from host.data(rng.choice([U.DATA0, U.DATA1]), bytes(rng.randrange(256) for _ in range(rng.randint(0, 9))))
            yield from host.idle(rng.randint(4, 12))
        elif kind == "sof":
            yield from host.sof(rng.randrange(2048))
        yield from host.gap()

    def in_until_answer(limit=12):
        """IN transactions until something other than NAK comes back (host does not ACK here)."""
        naks = 0
        while True:
            yield from host.token(U.IN, 0, 0)
            pkt = yield from host.wait_response()
            account()
            if pkt is None:
                return {"kind": "timeout"}
            info = U.classify(pkt.data)
            info["pkt"] = pkt
            if info["kind"] == "handshake" and info["pid"] == U.NAK and naks < limit:
                naks += 1
                res.event("naks_seen")
                yield from host.gap()
                continue
            return info

    def transfer(key, wlength, scenario, note):
        exp_full = setup.table.get(key)
        t, i = key
        sp = U.setup_bytes(0x80, 6, (t << 8) | i, rng.choice([0, 0, 0x0409]), wlength)
        if unsolicited("before SETUP type=%d index=%d" % key):
            return "failed"
        r = yield from host.setup_transaction(0, sp)
        account()
        desc = {"type": t, "index": i, "wLength": wlength, "len": None if exp_full is None else len(exp_full), "scenario": scenario, "note": note}
        if len(res.desc["transfers"]) < 10:
            res.desc["transfers"].append(desc)
        res.sig(key, wlength, scenario)
        if r.get("kind") != "handshake" or r.get("pid") != U.ACK:
            res.event("setup_not_acked")
            res.unjudged += 1
            yield from host.idle(30)
            return "setup_failed"
        res.event("setup_acked")
        yield from host.gap()
        if note.startswith("abandoned") and (hist["stale_ack_consumed"] or hist["foreign_ack_pending"] or not note.startswith("abandoned after 0 ")):
            hist["abandon_dirty"] = True      # the handler was left in its data stage with an advanced offset (survives further abandoned transfers)
        elif not note.startswith("abandoned"):
            hist["abandon_dirty"] = False     # a status stage or a STALL ended the previous transfer
        carried = hist["abandon_dirty"]
        hist["foreign_ack_pending"] = False
        hist["stale_ack_consumed"] = False
        if rng.random() < (0.8 if hist["unacked_pending"] else 0.3):
            # foreign traffic between the SETUP and the first IN of the data stage
            kinds = ["foreign_in_ack", "foreign_in_ack", "foreign_out", "sof"] + (["second_ep_in_ack"] if second_ep else [])
            k = rng.choice(kinds if not hist["unacked_pending"] else kinds[:2] + kinds[4:])
            yield from foreign_traffic(k)
            if k in ("foreign_in_ack", "second_ep_in_ack"):
                res.bin("foreign_ack_before_first_in")
                if hist["unacked_pending"]:
                    # the final packet of an earlier transfer never got its ACK: the device still waits for one
                    res.bin("foreign_ack_before_first_in_after_lost_final_ack")
                    hist["stale_ack_consumed"] = True
                    hist["unacked_pending"] = False
        ctx = "variant=%s mps=%d type=%d index=%d wLength=%d len=%s scenario=%s%s" % (
            variant_of(key) if exp_full is not None else setup.variant, mps, t, i, wlength,
            "missing" if exp_full is None else len(exp_full), scenario, (" after " + note) if note else "")
        if exp_full is None:
            flags["missing"] = True
            r = yield from in_until_answer()
            if setup.variant == "mux" and key == (3, 0) and r["kind"] == "data" and len(r["payload"]) <= 4:
                # StandardRequestHandler rebuilds the ROM / runtime sub-collections with automatic_language_descriptor=True
                res.violation("mux_string0_answered_by_automatic_language_descriptor", "%s :: got %s" % (
                    ctx, bytes(r["pkt"].data).hex()[:60]))
                yield from host.turnaround()
                yield from host.handshake(U.ACK)
                yield from host.gap()
                return "failed"
            if r["kind"] == "handshake" and r["pid"] == U.STALL:
                hist["unacked_pending"] = False
                res.event("stalls_seen")
                res.event("transfers_judged")
            elif r["kind"] == "timeout":
                res.violation("missing_descriptor_no_response", ctx)
            elif r["kind"] == "data" or r["kind"] == "malformed":
                res.violation("missing_descriptor_returned_data", "%s :: got %s" % (ctx, bytes(r["pkt"].data).hex()[:80]))
                yield from host.turnaround()
                yield from host.handshake(U.ACK)
            else:
                res.violation("missing_descriptor_wrong_response", "%s :: got %s" % (ctx, bytes(r["pkt"].data).hex()[:40]))
            yield from host.gap()
            return "stalled"
        exp = exp_full[:wlength]
        if len(exp_full) == 0:
            res.bin("zero_length_descriptor_requested")
        classify_request(setup, res, key, wlength, len(exp_full), variant_of(key))
        if len(exp) > mps:
            flags["multi"] = True
        offset = 0
        npk = 0
        hist["zlp_key"] = None
        lost_before = False
        stop_after = None
        if scenario in ("early_status", "abandon"):
            stop_after = rng.randint(0, max(0, (len(exp) - 1) // mps))
        while True:
            if stop_after is not None and npk >= stop_after:
                break
            chunk = exp[offset:offset + mps]
            prev_started = hist["last_started"]
            if unsolicited("%s before IN at offset=%d" % (ctx, offset)):
                return "failed"
            if len(chunk) == 0:
                hist["zlp_key"] = key          # from here on: the data stage was closed with a ZLP after an exact multiple
            r = yield from in_until_answer()
            hist["last_started"] = key
            where = "%s offset=%d" % (ctx, offset)
            payload = bytes(r["payload"]) if r["kind"] == "data" else None
            if payload is not None:
                res.event("data_packets_compared")
                res.event("bytes_compared", len(payload))
                if len(payload) == 0:
                    res.event("zlps_seen")
            if payload != chunk:
                got = "nothing" if r["kind"] == "timeout" else bytes(r["pkt"].data).hex()[:96]
                vk = variant_of(key)
                # ---- classifier: history first (narrow stimulus patterns), then content
                if hist["stale_ack_consumed"]:
                    # the ACK of the final packet of an earlier transfer was lost, the host went on (status stage, new SETUP),
                    # then an ACK for somebody else went by before the first IN of this transfer
                    mech = "offset_advanced_by_foreign_ack_after_lost_final_ack_of_earlier_transfer"
                elif hist["foreign_ack_pending"]:
                    # a packet of this transfer was not ACKed, then an ACK for somebody else went by, then came the retry
                    mech = "retry_differs_after_ack_meant_for_other_function"
                elif carried and offset == 0 and npk == 0:
                    mech = "first_packet_wrong_after_abandoned_data_stage"
                elif (r["kind"] == "handshake" and r["pid"] == U.STALL and setup.variant == "mux" and key not in setup.runtime
                      and prev_started in setup.runtime and offset == 0):
                    mech = "mux_rom_descriptor_stalled_after_runtime_descriptor_request"
                elif setup.variant == "mux" and key == (3, 0) and payload is not None and len(payload) <= 4 and offset == 0:
                    # both sub-handlers own a (STRING, 0) descriptor: the user's and the automatically added 4-byte one
                    mech = "mux_string0_answered_by_automatic_language_descriptor"
                elif r["kind"] == "timeout":
                    mech = "no_response_to_in" if len(chunk) else "%s_no_zlp_after_exact_multiple_no_response" % vk
                elif r["kind"] == "handshake" and r["pid"] == U.STALL:
                    mech = "existing_descriptor_stalled"
                elif r["kind"] == "malformed":
                    mech = "data_packet_malformed"
                elif payload is None:
                    mech = "unexpected_response_to_in"
                elif len(exp_full) == 0:
                    mech = "%s_zero_length_descriptor_not_answered_with_zlp" % vk
                elif len(chunk) == 0:
                    # total is a non-zero multiple of mps and below wLength: a ZLP is required
                    if payload == exp[:len(payload)]:
                        mech = "%s_restarts_descriptor_instead_of_zlp_after_exact_multiple" % vk
                    else:
                        mech = "%s_data_instead_of_zlp_after_exact_multiple" % vk
                elif len(payload) > mps:
                    mech = "packet_longer_than_max_packet_size"
                elif len(payload) > len(chunk) and payload[:len(chunk)] == chunk:
                    mech = "more_bytes_than_requested"
                elif len(payload) < len(chunk) and chunk[:len(payload)] == payload:
                    mech = "packet_truncated"
                elif offset and payload == exp[:len(payload)]:
                    mech = "descriptor_restarted_at_offset"
                elif scenario.startswith("lost_ack") and lost_before and len(payload) and payload == exp_full[offset + mps:offset + mps + len(payload)]:
                    mech = "packet_skipped_after_lost_ack"
                elif len(payload) == len(chunk):
                    mech = "data_mismatch"
                else:
                    mech = "data_and_length_mismatch"
                res.violation(mech, "%s :: got %s expected %s" % (where, got, chunk.hex()[:96]))
                if payload is not None:
                    # let the device finish (ACK) and abandon this transfer
                    yield from host.turnaround()
                    yield from host.handshake(U.ACK)
                    yield from host.gap()
                return "failed"
            # (foreign_ack_pending stays set for the rest of this transfer: the offset inside the device may already be
            #  wrong even if the retried packet happened to look right, e.g. a one-packet descriptor that restarts)
            lost_before = False
            # decide whether the host's ACK reaches the device
            lose = scenario.startswith("lost_ack") and rng.random() < (0.6 if scenario == "lost_ack_foreign" else 0.45)
            final = len(payload) < mps or offset + len(payload) >= wlength
            if scenario == "lost_final_ack" and final:
                # the host got the packet and ACKs, but the ACK never reaches the device; the host goes on to the status stage
                res.bin("lost_final_ack_then_status")
                hist["unacked_pending"] = True
                yield from host.idle(rng.randint(18, 30))
                npk += 1
                offset += len(payload)
                break
            if lose:
                hist["unacked_pending"] = True
                lost_before = True
                res.bin("lost_ack_retry")
                yield from host.idle(rng.randint(18, 30))       # device times out waiting for the handshake
                if scenario == "lost_ack_foreign":
                    kinds = ["foreign_in_ack", "foreign_in_ack", "foreign_out", "sof"]
                    if second_ep:
                        kinds = ["foreign_in_ack", "foreign_in_ack", "foreign_out", "sof", "second_ep_in_ack", "second_ep_in_ack"]
                    k = rng.choice(kinds)
                    if k == "foreign_in_ack":
                        res.bin("foreign_ack_between_retries")
                    if k == "second_ep_in_ack":
                        res.bin("second_endpoint_between_retries")
                    yield from foreign_traffic(k)
                    if k in ("foreign_in_ack", "second_ep_in_ack"):
                        hist["foreign_ack_pending"] = True
                        hist["unacked_pending"] = False        # (that ACK was taken for ours)
                else:
                    yield from host.gap()
                continue                                         # same offset: the same packet must come again
            yield from host.turnaround()
            yield from host.handshake(U.ACK)
            hist["unacked_pending"] = False
            yield from host.gap()
            if scenario == "interleave" and rng.random() < 0.5:
                yield from foreign_traffic(rng.choice(["foreign_in_ack", "foreign_out", "sof"] + (["second_ep_in_ack"] if second_ep else [])))
            npk += 1
            offset += len(payload)
            if len(payload) < mps or offset >= wlength:
                break
        if scenario == "abandon":
            res.bin("abandoned_then_new_setup")
            res.event("transfers_judged")
            yield from host.idle(rng.randint(2, 20))
            return "abandoned after %d packets" % npk
        if scenario == "early_status" and stop_after is not None:
            res.bin("early_status")
        # status stage (not judged here)
        for _ in range(4):
            if unsolicited(ctx + " before the status stage"):
                return "failed"
            r = yield from host.out_transaction(0, 0, U.DATA1, b"")
            account()
            yield from host.gap()
            if r.get("kind") == "handshake" and r.get("pid") == U.NAK:
                continue
            break
        if r.get("kind") == "handshake" and r.get("pid") == U.ACK:
            res.event("status_acked")
        else:
            res.event("status_not_acked")
        res.event("transfers_judged")
        return "ok"

    def driver():
        init_device_signals(b, dev, utmi)
        yield from host.idle(8)
        n = rng.randint(4, 9)
        keys = sorted(setup.table)
        note = ""
        prev_missing = False
        for _ in range(n):
            if b.cycle > 70000:
                break
            if rng.random() < 0.2:
                key = setup.draw_missing(rng, res)
                wlength = rng.choice([1, 8, 18, 64, 255, 0xFFFF, rng.randint(1, 400)])
                scenario = "normal"
            else:
                # favour exact multiples of the packet size and runtime descriptors
                r = rng.random()
                mult = [k for k in keys if len(setup.table[k]) % mps == 0]
                if r < 0.35 and mult:
                    key = rng.choice(mult)
                elif r < 0.5 and setup.runtime:
                    key = rng.choice(sorted(setup.runtime))
                else:
                    key = rng.choice(keys)
                nlen = len(setup.table[key])
                wlength = setup.draw_wlength(rng, nlen)
                if nlen and nlen % mps == 0 and rng.random() < 0.5:
                    wlength = rng.choice([nlen + 1, nlen + mps, 0xFFFF, 255 if nlen < 255 else 0xFFFF, nlen])
                scenario = rng.choice(["normal", "normal", "interleave", "interleave", "lost_ack", "lost_ack_foreign", "lost_ack_foreign",
                                       "early_status", "abandon", "lost_final_ack", "lost_final_ack"])
                if prev_missing:
                    res.bin("missing_then_good")
            if any(i not in range(len([1 for (tt, _) in setup.table if tt == t])) for (t, i) in setup.table):
                res.bin("sparse_indices")
            out = yield from transfer(key, wlength, scenario, note)
            if res.violations:
                break                  # later transfers of this session would only show follow-up damage
            note = out if out.startswith("abandoned") else ("stall" if out == "stalled" else "")
            prev_missing = out == "stalled"
            yield from host.idle(rng.randint(1, 25))
        yield from host.idle(10)
        if not res.violations:
            unsolicited("end of session")

    if setup.default:
        res.bin("default_collection")
    b.add_driver(driver())
    b.run()
    res.cycles = b.cycle
    if b.hit_max_cycles:
        res.violation("harness_max_cycles", "session did not finish in %d cycles" % b.max_cycles)
    res.nontrivial = flags["multi"] and flags["missing"]


# --------------------------------------------------------------------------------------------- stand-alone session

def run_standalone(rng, tier, res, setup):
    import icontract
    from luna.gateware.usb.usb2.descriptor import (GetDescriptorHandlerBlock, GetDescriptorHandlerDistributed,
                                                    GetDescriptorHandlerMux)
    from usb_protocol.emitters import DeviceDescriptorCollection
    mps = setup.mps
    res.bin("sa_" + setup.variant)
    res.bin("mps_%d" % mps)
    if any(len(v) > 1000 for v in setup.table.values()):
        res.bin("long_descriptor")
    dom = "usb"
    shape = None
    if setup.variant == "block":
        setup.runtime = set()
        dom = rng.choice(["default", "usb", "sync", "sync", "aux", "aux"])
        kw = {} if dom == "default" else {"domain": dom}
        dom = "usb" if dom == "default" else dom
        dut = GetDescriptorHandlerBlock(setup.build_collection(), max_packet_length=mps, **kw)
    elif setup.variant == "distributed":
        dut = GetDescriptorHandlerDistributed(setup.build_collection(), max_packet_length=mps)
    else:
        from luna.gateware.usb.usb2.descriptor import USBDescriptorStreamGenerator
        fixed = DeviceDescriptorCollection(automatic_language_descriptor=False)
        runtime = DeviceDescriptorCollection(automatic_language_descriptor=False)
        for (t, i), raw in sorted(setup.table.items()):
            if (t, i) in setup.runtime:
                runtime.add_descriptor((lambda raw=raw: USBDescriptorStreamGenerator(raw)), index=i, descriptor_type=t)
            else:
                fixed.add_descriptor(raw, index=i, descriptor_type=t)
        rkeys = sorted(setup.runtime)
        shape = rng.choice(["BD", "BD", "DB", "DB", "BDD", "BDD", "B", "BB", "BB"])
        if shape == "BB" and len({t for t, _ in setup.table}) < 2:
            shape = "B"
        if shape == "BDD" and len(rkeys) < 2:
            # a second runtime descriptor so that two distributed handlers can be built
            t0, i0 = rkeys[0]
            extra = next(((t0, i) for i in range(256) if (t0, i) not in setup.table), None)
            if extra is None:
                shape = "DB"
            else:
                setup.table[extra] = tagged(rng.choice([3, mps, mps + 2]), 0x5A)
                setup.runtime.add(extra)
                rkeys = sorted(setup.runtime)
        setup.owners = {}
        if shape == "BB":
            # two ROM handlers (split by descriptor type, so they reach their stall verdict in different cycles) behind a mux,
            # all of them in the same, possibly non-default, domain: the mux's stall latches are in play
            setup.runtime = set()
            dom = rng.choice(["usb", "aux", "aux", "sync"])
            types = sorted({t for t, _ in setup.table})
            lo = set(types[:max(1, len(types) // 2)])
            ca = DeviceDescriptorCollection(automatic_language_descriptor=False)
            cb = DeviceDescriptorCollection(automatic_language_descriptor=False)
            for (t, i), raw in sorted(setup.table.items()):
                (ca if t in lo else cb).add_descriptor(raw, index=i, descriptor_type=t)
                setup.owners[(t, i)] = 0 if t in lo else 1
            dut = GetDescriptorHandlerMux(domain=dom)
            dut.add_descriptor_handler(GetDescriptorHandlerBlock(ca, max_packet_length=mps, domain=dom))
            dut.add_descriptor_handler(GetDescriptorHandlerBlock(cb, max_packet_length=mps, domain=dom))
        elif shape == "B":
            # a mux with a single handler: everything in the ROM; the mux (and its handler) may live in another domain
            setup.runtime = set()
            dom = rng.choice(["usb", "aux", "sync"])
            allrom = DeviceDescriptorCollection(automatic_language_descriptor=False)
            for (t, i), raw in sorted(setup.table.items()):
                allrom.add_descriptor(raw, index=i, descriptor_type=t)
            dut = GetDescriptorHandlerMux(domain=dom)
            dut.add_descriptor_handler(GetDescriptorHandlerBlock(allrom, max_packet_length=mps, domain=dom))
        else:
            blk = GetDescriptorHandlerBlock(fixed, max_packet_length=mps)
            dut = GetDescriptorHandlerMux()
            if shape == "BDD":
                half = set(rkeys[:len(rkeys) // 2])
                r1 = DeviceDescriptorCollection(automatic_language_descriptor=False)
                r2 = DeviceDescriptorCollection(automatic_language_descriptor=False)
                for (t, i) in rkeys:
                    raw = setup.table[(t, i)]
                    (r1 if (t, i) in half else r2).add_descriptor((lambda raw=raw: USBDescriptorStreamGenerator(raw)), index=i, descriptor_type=t)
                    setup.owners[(t, i)] = 1 if (t, i) in half else 2
                handlers = [blk, GetDescriptorHandlerDistributed(r1, max_packet_length=mps), GetDescriptorHandlerDistributed(r2, max_packet_length=mps)]
            else:
                dist = GetDescriptorHandlerDistributed(runtime, max_packet_length=mps)
                handlers = [blk, dist] if shape == "BD" else [dist, blk]
            for h in handlers:
                dut.add_descriptor_handler(h)
        res.bin("sa_mux_shape_" + shape)
    contract = RomContract(res)
    try:
        with contract:
            res.bin("sa_domain_" + dom)
            res.desc["config"]["domain"] = dom
            res.desc["config"]["mux_shape"] = shape
            if dom == "sync":
                b = Bench(dut, domain="sync", freq=60e6, max_cycles=60000)
            else:
                # the handler lives in `dom`; sync runs at an unrelated rate as a bystander
                from amaranth import Elaboratable, Module, Signal

                class Top(Elaboratable):
                    def elaborate(self, platform):
                        m = Module()
                        m.submodules.dut = dut
                        tick = Signal(8)
                        m.d.sync += tick.eq(tick + 1)
                        return m
                b = Bench(Top(), domain=dom, freq=60e6, clocks={"sync": rng.choice([23e6, 41e6, 97e6, 131e6])}, max_cycles=60000)
    except icontract.ViolationError as e:
        res.violation("rom_image_roundtrip_wrong", "%s :: %s" % (setup.describe(), contract.failed or str(e)[:300]))
        return
    except IndexError as e:
        if not tiny_rom(setup):
            raise
        res.violation(TINY_ROM_MECH, "%s :: IndexError: %s" % (setup.describe(), e))
        return
    except NameError as e:
        if "is not present in simulation" not in str(e):
            raise
        res.violation("handler_not_in_requested_clock_domain", "%s :: %s" % (res.desc["config"], e))
        return
    tx = dut.tx
    b.watch(dut.value, dut.length, dut.start_position, dut.start, dut.stall, tx.valid, tx.ready, tx.first, tx.last, tx.payload)
    res.desc["requests"] = []
    flags = {"multi": False, "missing": False}
    IDLE, RESP, QUIET, RECOVER = "idle", "resp", "quiet", "recover"
    o = {"state": IDLE, "exp": None, "idx": 0, "wait": 0, "quiet": 0, "ctx": "", "in_packet": False, "stalled_here": 0, "vkey": "", "abort": False,
         "optional": False}

    def variant_of(key):
        if setup.variant == "mux":
            return "distributed" if key in setup.runtime else "block"
        return setup.variant

    def fail(mech, detail):
        res.violation(mech, "cyc=%d %s :: %s" % (b.cycle, o["ctx"], detail))
        o["state"], o["wait"], o["quiet"] = RECOVER, 0, 0

    def monitor(b):
        start, stall, valid, ready = b.get(dut.start), b.get(dut.stall), b.get(tx.valid), b.get(tx.ready)
        first, last, payload = b.get(tx.first), b.get(tx.last), b.get(tx.payload)
        s = o["state"]
        if s == IDLE:
            if valid:
                fail("sa_valid_without_request", "tx.valid with no request outstanding")
                return
            if stall and not start:
                fail("sa_stall_without_request", "stall with no request outstanding")
                return
            if start:
                value, length, sp = b.get(dut.value), b.get(dut.length), b.get(dut.start_position)
                key = (value >> 8, value & 0xFF)
                raw = setup.table.get(key)
                o["ctx"] = "variant=%s mps=%d type=%d index=%d length=%d start_position=%d len=%s" % (
                    variant_of(key) if raw is not None else setup.variant, mps, key[0], key[1], length, sp, "missing" if raw is None else len(raw))
                o["vkey"] = variant_of(key) if raw is not None else setup.variant
                # narrow history pattern: ROM (block) descriptor requested through the mux directly after a request
                # that was served by the runtime (distributed) handler
                o["stall_mech"] = ("sa_mux_rom_descriptor_stalled_after_runtime_descriptor_request"
                                   if (setup.variant == "mux" and raw is not None and key not in setup.runtime and o.get("last_key") in setup.runtime)
                                   else "sa_existing_descriptor_stalled")
                if raw is not None:
                    o["last_key"] = key          # last *existing* descriptor requested (missing ones in between do not matter)
                if raw is None:
                    o["exp"] = "stall"
                    # a sub-handler may need a few cycles to reach its own verdict: keep the request up that long
                    o["quiet_len"] = max(o["quiet_len"], 6)
                else:
                    o["exp"] = raw[sp:sp + min(mps, length - sp)]
                # positions a legal host never reaches (beyond the descriptor, or nothing left of wLength): there are no
                # bytes to send, so the only thing judged is that no data byte is streamed (ZLP, stall or silence are fine)
                o["optional"] = raw is not None and (sp > len(raw) or length <= sp)
                if o["optional"]:
                    o["exp"] = b""
                o.update(state=RESP, idx=0, wait=0, in_packet=False, stalled_here=0)
                # a distributed handler raises stall combinationally in the start cycle itself
                if stall:
                    if o["exp"] == "stall":
                        res.event("sa_stalls_seen")
                        res.event("sa_requests_judged")
                        o["state"], o["quiet"] = QUIET, 0
                    else:
                        if o["optional"]:
                            o["state"], o["quiet"] = QUIET, 0
                        else:
                            fail(o["stall_mech"], "stall for an existing descriptor (in the start cycle)")
            return
        if s == RESP:
            exp = o["exp"]
            if exp == "stall":
                if valid:
                    fail("sa_missing_descriptor_returned_data", "tx.valid payload=%#x first=%d last=%d" % (payload, first, last))
                    return
                if stall:
                    res.event("sa_stalls_seen")
                    res.event("sa_requests_judged")
                    o["state"], o["quiet"] = QUIET, 0
                    return
                o["wait"] += 1
                if o["wait"] > SA_WAIT:
                    fail("sa_missing_descriptor_no_stall", "no stall within %d cycles" % SA_WAIT)
                return
            if stall:
                if o["optional"]:
                    res.event("sa_probes_judged")
                    o["state"], o["quiet"] = QUIET, 0
                    return
                fail("sa_existing_descriptor_stalled", "stall for an existing descriptor")
                return
            if not valid:
                if o["optional"] and o["wait"] >= SA_WAIT:
                    res.event("sa_probes_judged")
                    o["state"], o["quiet"] = QUIET, 0
                    return
                if o["in_packet"]:
                    fail("sa_valid_dropped_mid_packet", "idx=%d of %d" % (o["idx"], len(exp)))
                    return
                o["wait"] += 1
                if o["wait"] > SA_WAIT:
                    fail("sa_no_response" if len(exp) else "sa_%s_no_zlp_at_descriptor_end_no_response" % o["vkey"], "nothing within %d cycles" % SA_WAIT)
                return
            if len(exp) == 0:
                # ZLP indication: valid & last & ~first
                if o["optional"] and not (last and not first):
                    fail("sa_data_streamed_for_position_without_data", "payload=%#x first=%d last=%d" % (payload, first, last))
                    return
                if o["optional"]:
                    res.event("sa_probes_judged")
                if last and not first:
                    res.event("sa_zlps_seen")
                    res.event("sa_requests_judged")
                    # the indication may be a one-cycle pulse or may be held until tx.ready
                    o["state"], o["wait"], o["zlp_ready_seen"] = "zlp_hold", 0, bool(ready)
                    if not ready:
                        res.bin("sa_zlp_with_ready_low")
                else:
                    full = setup.table[(b.get(dut.value) >> 8, b.get(dut.value) & 0xFF)]
                    if len(full) == 0:
                        fail("sa_%s_zero_length_descriptor_not_answered_with_zlp" % o["vkey"], "payload=%#x first=%d last=%d" % (payload, first, last))
                    elif first and payload == full[0]:
                        fail("sa_%s_restarts_descriptor_instead_of_zlp_at_descriptor_end" % o["vkey"], "payload=%#x first=%d last=%d" % (payload, first, last))
                    else:
                        fail("sa_%s_data_instead_of_zlp_at_descriptor_end" % o["vkey"], "payload=%#x first=%d last=%d" % (payload, first, last))
                return
            idx = o["idx"]
            o["in_packet"] = True
            want_first, want_last = idx == 0, idx == len(exp) - 1
            if payload != exp[idx]:
                fail("sa_payload_mismatch", "idx=%d payload=%#x expected=%#x" % (idx, payload, exp[idx]))
                return
            if bool(first) != want_first:
                fail("sa_first_flag_wrong", "idx=%d first=%d" % (idx, first))
                return
            if bool(last) != want_last:
                fail("sa_last_missing_on_final_byte" if want_last else "sa_last_before_final_byte", "idx=%d of %d last=%d" % (idx, len(exp), last))
                return
            if not ready:
                o["stalled_here"] += 1
            else:
                res.event("sa_bytes_compared")
                if want_last and o["stalled_here"]:
                    res.bin("sa_stall_on_last_byte")
                o["stalled_here"] = 0
                o["idx"] += 1
                if o["idx"] == len(exp):
                    res.event("sa_requests_judged")
                    o["state"], o["quiet"] = QUIET, 0
            return
        if s == "zlp_hold":
            if not valid:
                o["state"], o["quiet"] = QUIET, 1
            elif first or not last:
                fail("sa_data_after_zlp_indication", "payload=%#x first=%d last=%d" % (payload, first, last))
            else:
                # the packet generator never raises tx.ready for a ZLP: an indication that waits for ready is sent again and again
                o["wait"] += 1
                if o["wait"] >= 6 and not o["zlp_ready_seen"]:
                    res.bin("sa_zlp_with_ready_low")
                    fail("sa_%s_zlp_indication_held_until_ready" % o["vkey"], "valid & last & ~first held for %d cycles with tx.ready low" % (o["wait"] + 1))
                elif o["wait"] > 300:
                    fail("sa_zlp_indication_stuck", "valid & last held for %d cycles" % o["wait"])
            if ready:
                o["zlp_ready_seen"] = True
            return
        if s == QUIET:
            if valid and o["quiet"] >= 0:
                fail("sa_data_after_end_of_packet", "payload=%#x first=%d last=%d" % (payload, first, last))
                return
            if stall and o["exp"] != "stall":
                fail("sa_stall_after_packet", "stall after data")
                return
            o["quiet"] += 1
            if o["quiet"] >= o["quiet_len"]:
                o["state"] = IDLE
            return
        if s == RECOVER:
            o["wait"] += 1
            o["quiet"] = 0 if (valid or stall) else o["quiet"] + 1
            if o["quiet"] >= 16:
                o["state"] = IDLE
            elif o["wait"] > 600:
                o["abort"] = True
                b.stop()

    rp = {"p": 1.0, "burst": None}

    def ready_driver():
        hold = 0
        while True:
            r = 1 if rng.random() < rp["p"] else 0
            # directed stall on the last byte
            if o["state"] == RESP and isinstance(o["exp"], bytes) and len(o["exp"]) and o["idx"] == len(o["exp"]) - 1 and rp.get("stall_last") and not rp.get("done_last"):
                hold = rp["stall_last"]
                rp["done_last"] = True
            if hold > 0:
                hold -= 1
                r = 0
            if o["state"] in (RESP, "zlp_hold") and isinstance(o["exp"], bytes) and len(o["exp"]) == 0 and rp.get("zlp_stall", 0) > 0:
                rp["zlp_stall"] -= 1
                r = 0                      # tx.ready low around a ZLP indication (what the packet generator does)
            if o["state"] == RECOVER:
                r = 1
            b.set(tx.ready, r)
            res.sig(r)
            yield

    def driver():
        keys = sorted(setup.table)
        b.set(dut.start, 0)
        yield
        yield
        n = rng.randint(25, 60)
        prev_missing = False
        if any(i not in range(len([1 for (tt, _) in setup.table if tt == t])) for (t, i) in setup.table):
            res.bin("sparse_indices")
        for _ in range(n):
            if rng.random() < 0.2:
                key = setup.draw_missing(rng, res)
                length = rng.choice([1, 8, 18, 64, 255, 0xFFFF, rng.randint(1, 400)])
                sp = 0
                flags["missing"] = True
            else:
                key = rng.choice(keys)
                raw = setup.table[key]
                nlen = len(raw)
                r = rng.random()
                length = setup.draw_wlength(rng, nlen)
                if nlen == 0:
                    res.bin("zero_length_descriptor_requested")
                    r = 0.0
                if r < 0.35:
                    sp = 0
                elif r < 0.6:
                    sp = mps * rng.randrange(0, (nlen - 1) // mps + 1)
                elif r < 0.75 and nlen % mps == 0:
                    sp = nlen                                     # continuation exactly at the end: ZLP
                    length = rng.choice([nlen + 1, nlen + mps, 0xFFFF, nlen + 3])
                else:
                    sp = rng.randrange(nlen)
                if sp >= length:
                    length = rng.choice([sp + 1, sp + mps, sp + rng.randint(1, 2 * mps), 0xFFFF])
                if variant_of(key) == "block" and rng.random() < 0.12:
                    # probes outside what a legal host asks for
                    if rng.random() < 0.6:
                        sp = rng.choice([nlen + 1, nlen + mps, nlen + 2 * mps, 1023, 1024, 2040, 2047, rng.randint(nlen + 1, 2047)])
                        sp = min(2047, max(nlen + 1, sp))
                        length = rng.choice([0xFFFF, sp + 1, sp + mps, 2048])
                        res.bin("sa_start_beyond_descriptor")
                        if sp >= 1024:
                            res.bin("sa_start_near_11bit_limit")
                    else:
                        sp = rng.choice([0, mps, nlen, rng.randrange(nlen + 1)])
                        length = sp
                        if length == 0:
                            sp = length = min(nlen, mps)
                        res.bin("sa_length_equals_start")
                elif sp >= 1024:
                    res.bin("sa_start_near_11bit_limit")
                if sp == nlen and nlen:
                    res.bin("sa_zlp_position")
                    res.bin("exact_multiple_wlength_above_" + variant_of(key))
                elif sp % mps:
                    res.bin("sa_start_mid_descriptor")
                if sp == 0:
                    classify_request(setup, res, key, length, nlen, variant_of(key))
                if min(length, nlen) - sp > 1:
                    flags["multi"] = True
                if prev_missing:
                    res.bin("missing_then_good")
            prev_missing = key not in setup.table
            rp["p"] = rng.choice([1.0, 1.0, 0.8, 0.5, 0.25])
            if rp["p"] < 1.0:
                res.bin("tx_ready_stalls")
            rp["stall_last"] = rng.choice([0, 0, 1, 2, 7])
            rp["done_last"] = False
            rp["zlp_stall"] = rng.choice([0, 12, 12, 20])
            o["quiet_len"] = rng.choice([1, 2, 3, 6, 10])
            # garbage before the request
            for _ in range(rng.choice([0, 0, 1, 3])):
                b.set(dut.value, rng.randrange(1 << 16)); b.set(dut.length, rng.randrange(1 << 16)); b.set(dut.start_position, rng.randrange(1 << 11))
                yield
            b.set(dut.value, (key[0] << 8) | key[1]); b.set(dut.length, length); b.set(dut.start_position, sp)
            for _ in range(rng.choice([0, 1, 1, 2, 4])):          # inputs are stable a few cycles before start, as in the device
                yield
            b.set(dut.start, 1)
            res.sig(key, length, sp, rp["p"], rp["stall_last"])
            if len(res.desc["requests"]) < 10:
                res.desc["requests"].append({"type": key[0], "index": key[1], "length": length, "start_position": sp,
                                             "len": len(setup.table[key]) if key in setup.table else None})
            yield
            b.set(dut.start, 0)
            yield
            waited = 0
            while o["state"] != IDLE:
                waited += 1
                if waited > 4000 or o["abort"]:
                    if not o["abort"]:
                        res.violation("harness_wait_timeout", o["ctx"])
                    return
                yield
        for _ in range(4):
            yield

    b.add_monitor(monitor)
    b.add_driver(ready_driver(), main=False)
    b.add_driver(driver(), main=True)
    b.run()
    res.cycles = b.cycle
    if b.hit_max_cycles:
        res.violation("harness_max_cycles", "session did not finish in %d cycles" % b.max_cycles)
    res.nontrivial = flags["multi"] and flags["missing"]


def run_case(rng, tier, res):
    standalone = rng.random() < 0.5
    setup = Setup(rng, standalone)
    res.desc = {"config": setup.describe()}
    res.sig(sorted(setup.describe().items()), sorted((k, v) for k, v in setup.table.items()))
    if standalone:
        run_standalone(rng, tier, res, setup)
    else:
        run_device(rng, tier, res, setup)
