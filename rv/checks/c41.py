"""C41 — the LTSSM reaches U0 only through training and honours resets and timeouts.

DUT: the real luna.gateware.usb.usb3.link.ltssm.LTSSMController, stand-alone, with a scaled
`ss_clock_frequency` f in {25 kHz, 33.333 kHz, 50 kHz, 100 kHz (250 kHz in the thorough tier)} so that the
2 ms / 12 ms / 360 ms timeouts are 50.. / 300.. / 9000.. cycles (ratio 1 : 6 : 180 preserved; 33.333 kHz makes the
products non-integral), both `loosen_requirements` settings.

Workload (one case = one session of 8k-36k cycles): a reactive PHY / link-partner model that looks at the LTSSM's
*outputs* only and answers every phase (receiver detection, LFPS polling with a running `lfps_cycles_sent`, TSEQ burst,
TS1 / TS2 detections and burst completions, idle handshake) after random delays; per phase it may instead go silent
(so that every timed substate times out), answer only partially (TS1 but never TS2, bursts but no detections, TS1
instead of LFPS, TS2s seen early during our TSEQ phase and never again), request hot reset / loop-back / no-scrambling,
or inject a warm reset (`in_usb_reset`, 1..600 cycles)
at a random offset or exactly on the cycle of its own answer.  In U0 it dwells, then starts recovery (own trigger or a
TS1), resets, or toggles the local `disable_scrambling` request.  On top, per case, a random subset of the inputs
carries noise (random pulses up to a constant level: idle-handshake-complete in every state, `ts_burst_complete`
storms, TS2 before polling, reset glitches).  Profiles: cooperative, silent, resets, hostile, scramble, hotreset.

Monitor: every cycle samples all outputs (through one concatenated wrapper signal) and takes the inputs it drove for
that cycle; the *state signature* is inferred from the output vector
(OFF, DETECT, QUIET, LFPS, TSEQ, TS1, TS2, IDLE, U0, LOOPBACK) -- no FSM internals are read.

Oracle (independent milestone tracker, written from the property statement and USB 3.2 chapter 7.5):
 (1) whenever `link_ready` rises or `entering_u0` is asserted: since the last cycle with `in_usb_reset` (or power-on)
     there was a partner detection while detection was requested, an LFPS-polling detection while polling was sent
     (a TS1 also counts when loosened), a completed TSEQ burst, and a TS1/TS2 detection while TS1s were sent; and
     since the last entry into the TS1-sending signature (polling / recovery) or into hot reset (TS2 signature entered
     from the idle-handshake signature) there was a TS2 detection, a TS2 burst completion and an
     `idle_handshake_complete` while the idle handshake was requested;
 (2) `in_usb_reset` in cycle n  =>  `link_ready` low in cycle n+1 (removed within one cycle, never entered while the
     reset lasts);
 (3) every maximal interval of a timed signature lasts at most ceil(timeout*f) + 3 cycles (QUIET 12 ms, LFPS 360 ms,
     TS1 12 ms, IDLE 2 ms, TS2 of a hot reset 12 ms; TS2 of polling/recovery 12 ms until the TS2 handshake condition
     "burst complete with a TS2 seen" is met -- afterwards the implementation may be in its untimed "send 16 more TS2"
     sub-state);
 (3b) an exit from a timed signature in whose last three cycles no input was active (no pulse input, no reset, LFPS
     counter constant; exits within 3 cycles of entry excluded) can only be a time-out: it must not come earlier than
     ceil(timeout*f) - 1 cycles, and the signature that follows must not lie further into training (TSEQ/TS1/TS2/IDLE/U0/
     LOOPBACK): every USB 3.2 7.5 time-out leads to Rx.Detect, SS.Inactive, eSS.Disabled or Compliance;
 (3c) Polling.LFPS signature -> TSEQ signature [USB 3.2 7.5.4.3.2, the clause the state cites]: `lfps_cycles_sent` >= 16 in
     the last LFPS cycle, and >= 4 more than its value when the first polling burst of this interval was received (the
     second rule is not applied to a loosened LTSSM that saw a TS1 in the interval);
 (4) in U0 `enable_scrambling` = not(own request or partner request), own request = `disable_scrambling` at the entry
     of the last training (also compared with the `request_no_scrambling` output that is sent to the partner), partner
     request = `no_scrambling_requested` seen during the last training.

Findings on the unchanged tree (known_findings.d/C41.json, findings/C41.md): warm reset ignored in Polling.LFPS; warm
reset overridden by any transition taken in the same cycle; U0 entered in the cycle after reset + idle handshake.  The
classifier is narrow: an ignored reset is "known" only if it ended in the LFPS signature after beginning in a signature
whose states never look at `in_usb_reset` (LFPS / receiver detection / quiet), or if the signature changed in the very
reset cycle (or `ts_burst_complete` hit the TS2 state in that cycle), and only if the partner detection is among the lost
milestones; "U0 during reset" is known only for a reset that had not already been seen in the idle signature.

Validation (mutations of ltssm.py, each passing the repository tests that can import it; all caught by <= 64 quick
cases): DESIGN set -- Polling.Idle -> U0 without handshake; no warm-reset handling in U0; 12 ms -> 120 ms in
Polling.Active / Recovery.Configuration / Hot Reset.Active / SS.Inactive.Quiet.  Own -- stale ts2_seen on Recovery.Active,
Polling.Active and Hot Reset.Active entry; Hot Reset.Active / Polling.Configuration exit without ts2_seen; no reset
handling in Recovery.Idle / Hot Reset.Exit / Polling.Configuration; Rx.Detect.Reset not waiting for the reset to end;
Recovery.Idle 2 -> 12 ms, Polling.Idle 2 -> 3 ms, 360 -> 3600 ms; time-in-state counter not cleared on transitions;
U0 scrambling without the partner term / without the own term / from the live input; stale partner request and stale
own request on recovery; strict mode accepting TS1 for LFPS; LFPS exit without a received burst; Rx.Detect.Quiet ->
Polling.LFPS; RxEQ left on tseq_detected; Configuration.Exit -> U0; link_ready already in Recovery.Idle; Hot Reset.Exit
-> U0 without handshake.

Deviations from DESIGN.md: the frequencies are lower than the 1e5..1e6 Hz of the design (cost; the structure is the
same); the TS2 signature merges a timed and an untimed sub-state, so only its handshake phase is timed.

NOT judged: the exact state a time-out leads to (only "not forward"); the "two bursts received" half of 7.5.4.3.2 (the
LTSSM only sees a detector strobe); a minimum number of TS1 sent before Polling/Recovery.Active may be left (luna's
`burst_minimum_met`: neither the statement nor USB 3.2 7.5.4.8 / 7.5.10.3 requires it -- the source comment says so itself
-- so a correct implementation may leave on the first detection; the `det_before_burst` stimulus only makes sure that
either behaviour is exercised); `invert_rx_polarity`; `enable_scrambling` outside U0; the LUNA_COMPLIANCE branch; liveness (a partner that does everything right is only *counted* as reaching
U0: bins); the `power_on_reset` port (dead in luna: never read by LTSSMController nor driven by the link layer; per
the attribute documentation power-on reset arrives through `in_usb_reset`, and the simulator's initial state is
treated as "after a reset"); scrambling when a partner request arrives only at the very edges of the training or
during U0 (ambiguous: counted as unjudged).  Milestones that coincide with a reset cycle are counted in favour of the
DUT.
"""
import os
from collections import deque

from rv.sim import Bench

PROPERTY = "C41"
CASES = {"quick": 256, "thorough": 5000}
TIMEOUT = {"quick": 900, "thorough": 6 * 3600}
RULE = ("case = (ss clock 25k/33.3k/50k/100k[/250k] Hz, loosen_requirements, profile cooperative|silent|resets|hostile|"
        "scramble|hotreset, per-input noise rates) + session of 8k-36k cycles of a reactive PHY/partner model that answers, "
        "stays silent, answers partially or resets in every phase; non-trivial = U0 reached and >=1 time-out and >=1 warm "
        "reset outside the reset state; distinct = hash of configuration and every per-phase decision of the partner")
SIGS = ("OFF", "DETECT", "QUIET", "LFPS", "TSEQ", "TS1", "TS2", "IDLE", "U0", "LOOPBACK")
REQUIRED_BINS = (
    ["sig_" + s for s in SIGS] + ["reset_in_" + s for s in SIGS] +
    ["reset_in_%s_%s" % (s, c) for s in ("TS1", "TS2", "IDLE") for c in ("polling", "recovery")] +
    ["reset_in_TS2_hot_reset", "reset_in_IDLE_hot_reset"] +
    ["u0_via_polling", "u0_via_recovery", "u0_via_hot_reset", "u0_loosened_ts1_instead_of_lfps", "u0_strict",
     "timeout_QUIET_rxdetect", "timeout_QUIET_inactive", "timeout_LFPS", "timeout_TS1_polling", "timeout_TS1_recovery",
     "timeout_TS2_polling", "timeout_TS2_recovery", "timeout_TS2_hot_reset", "timeout_IDLE_polling",
     "timeout_IDLE_recovery", "timeout_IDLE_hot_reset", "ts2_untimed_exit_phase",
     "scr_on", "scr_off_own", "scr_off_partner", "scr_stale_partner_request", "scr_own_request_changed",
     "reset_same_cycle_as_answer", "reset_1_cycle", "reset_long", "handshake_pulse_outside_idle", "ts2_seen_before_training",
     "strict_ts1_during_lfps", "training_without_ts2", "idle_entered_with_handshake_already_high",
     "f_25000", "f_33333", "f_50000", "f_100000", "loosened", "strict",
     "lfps_exit_counts_judged", "lfps_first_burst_after_12_sent", "lfps_first_burst_early"] +
    ["quiet_timeout_" + n for n in ("QUIET_rxdetect", "QUIET_inactive", "LFPS", "TS1_polling", "TS1_recovery", "TS2_polling",
                                    "TS2_recovery", "TS2_hot_reset", "IDLE_polling", "IDLE_recovery", "IDLE_hot_reset")])
REQUIRED_EVENTS = ["cycles_judged", "ready_rises_judged", "entering_u0_judged", "reset_cycles_judged",
                   "timed_cycles_judged", "timed_intervals_closed", "u0_scrambling_judged", "own_request_judged",
                   "quiet_exits_judged"]
ASSUMPTIONS = [
    "clock scaled to 25-250 kHz: time-outs are judged in cycles, ceil(timeout*f)+3",
    "power-on reset = simulator start or in_usb_reset (the power_on_reset port is not connected to anything in luna)",
    "LUNA_COMPLIANCE is unset (Compliance falls through to Rx.Detect.Reset)",
    "link_partner_detected and no_link_partner_detected are never asserted together (contradictory PHY answer)",
    "the state is inferred from the output vector; states with identical outputs are not distinguished",
]

PULSE_INPUTS = ["trigger_link_recovery", "link_partner_detected", "no_link_partner_detected", "lfps_polling_detected",
                "tseq_detected", "ts1_detected", "inverted_ts1_detected", "ts2_detected", "hot_reset_requested",
                "loopback_requested", "no_scrambling_requested", "ts_burst_complete", "idle_handshake_complete"]
LEVEL_INPUTS = ["in_usb_reset", "phy_ready", "disable_scrambling", "lfps_cycles_sent"]
OUTPUTS = ["link_ready", "entering_u0", "tx_electrical_idle", "engage_terminations", "perform_rx_detection",
           "send_lfps_polling", "send_tseq_burst", "send_ts1_burst", "send_ts2_burst", "train_equalizer",
           "perform_idle_handshake", "request_hot_reset", "request_no_scrambling", "enable_scrambling",
           "act_as_loopback"]
ACTIVITY = (("link_ready", "U0"), ("perform_idle_handshake", "IDLE"), ("send_ts2_burst", "TS2"),
            ("send_ts1_burst", "TS1"), ("send_tseq_burst", "TSEQ"), ("send_lfps_polling", "LFPS"),
            ("perform_rx_detection", "DETECT"), ("act_as_loopback", "LOOPBACK"))
TIMEOUT_MS = {"QUIET": 12, "LFPS": 360, "TS1": 12, "TS2": 12, "IDLE": 2}
SLACK = 3
FORWARD_SIGS = ("TSEQ", "TS1", "TS2", "IDLE", "U0", "LOOPBACK")


def classify(o):
    """state signature from the output vector"""
    act = [name for sig, name in ACTIVITY if o[sig]]
    if len(act) == 1:
        return act[0]
    if act:
        return "OTHER"
    if o["tx_electrical_idle"]:
        return "QUIET" if o["engage_terminations"] else "OFF"
    return "OTHER"


def cycles_of(ms, f_hz):
    return -((-ms * f_hz) // 1000)          # ceil, exact integer arithmetic


# ------------------------------------------------------------------------------------------ oracle

class Judge:
    def __init__(self, f_hz, loosened, res):
        self.res = res
        self.loose = loosened
        self.T = {s: cycles_of(ms, f_hz) for s, ms in TIMEOUT_MS.items()}
        self.k = -1
        self.sig = None
        self.sig_start = 0
        self.A = dict(detect=False, lfps=False, tseq=False, ts1=False)
        self.everA = dict(self.A)
        self.lfps_by_lfps = False
        self.lfps_first = None
        self.lfps_ts1 = False
        self.prev_cnt = 0
        self.act_hist = deque(maxlen=3)
        self.B = dict(ts2det=False, ts2burst=False, idle=False)
        self.hist = deque(maxlen=4)           # (sig, reset, link_ready) of previous cycles, newest last
        self.last_reset = None
        self.run_start_sig = None
        self.run_start_cycle = -10
        self.run_start_next = None
        self.ctx = "polling"
        self.quiet_kind = "rxdetect"
        self.detect_kind = "rxdetect"
        self.ts2_timed = True
        self.ts2_hot = False
        self.timeout_flagged = False
        self.p1_flagged_at = -10
        # scrambling
        self.e = None
        self.own_cands = ()
        self.req_first = None
        self.req_edge = False
        self.req_last = None
        self.req_before_training = False
        self.prev_training_req = False
        self.ds_hist = deque(maxlen=2)
        self.prev_req = 0
        self.u0_start = None
        self.ts2_since_reset_before_ts1 = False

    # -------------------------------------------------------------------------------------
    def step(self, i, o):
        res = self.res
        k = self.k = self.k + 1
        sig = classify(o)
        reset = i["in_usb_reset"]
        res.event("cycles_judged")
        if self.last_reset is not None and self.last_reset["cycle"] == k - 1:
            self.last_reset["next_sig"] = sig
        if self.run_start_cycle == k - 1:
            self.run_start_next = sig

        if sig != self.sig:
            self._close_interval(k, sig)
            prev_sig = self.sig
            self.sig, self.sig_start = sig, k
            self.timeout_flagged = False
            self._enter(sig, prev_sig, k, i)
            if sig in SIGS:
                res.bin("sig_" + sig)
            else:
                res.event("sig_other_intervals")

        prev_reset = self.hist[-1][1] if self.hist else 0
        # ---- milestones of this cycle
        now = self.now = set()
        if sig == "DETECT" and i["link_partner_detected"]:
            self._a("detect")
        if sig == "LFPS":
            if i["lfps_polling_detected"] and self.lfps_first is None:
                self.lfps_first = i["lfps_cycles_sent"]
            if i["ts1_detected"] or i["inverted_ts1_detected"]:
                self.lfps_ts1 = True
            if i["lfps_polling_detected"]:
                self._a("lfps")
                self.lfps_by_lfps = True
            elif i["ts1_detected"] or i["inverted_ts1_detected"]:
                if self.loose:
                    self._a("lfps")
                else:
                    res.bin("strict_ts1_during_lfps")
        if sig == "TSEQ" and i["ts_burst_complete"]:
            self._a("tseq")
        if sig == "TS1" and (i["ts1_detected"] or i["ts2_detected"] or i["inverted_ts1_detected"]):
            self._a("ts1")
        if i["ts2_detected"]:
            self.B["ts2det"] = True
            if sig in ("OFF", "DETECT", "QUIET", "LFPS", "TSEQ"):
                res.bin("ts2_seen_before_training")
        if sig == "TS2" and i["ts_burst_complete"]:
            self.B["ts2burst"] = True
        if i["idle_handshake_complete"]:
            if sig == "IDLE":
                self.B["idle"] = True
                if k == self.sig_start:
                    res.bin("idle_entered_with_handshake_already_high")
            else:
                res.bin("handshake_pulse_outside_idle")

        # ---- partner scrambling request bookkeeping
        req = i["no_scrambling_requested"]
        if req and self.e is not None:
            if k <= self.e:
                self.req_edge = True
            else:
                if self.req_first is None:
                    self.req_first = k
                self.req_last = k

        # ---- (1) ready only after training
        prev_ready = self.hist[-1][2] if self.hist else 0
        rising = o["link_ready"] and not prev_ready
        if rising:
            res.event("ready_rises_judged")
            self._u0_entered(k, i)
        if o["entering_u0"]:
            res.event("entering_u0_judged")
        if rising or o["entering_u0"]:
            self._judge_training(k, "link_ready rose" if rising else "entering_u0 asserted")

        # ---- reset bookkeeping (stage A is "since the last reset"; link_ready/entering_u0 of this cycle were
        #      judged above with the milestones as they were before this cycle's reset)
        if reset:
            res.event("reset_cycles_judged")
            if sig in SIGS:
                if not prev_reset:
                    res.bin("reset_in_" + sig)
                    if sig in ("TS1", "TS2", "IDLE"):
                        res.bin("reset_in_%s_%s" % (sig, self.ctx))
            if not prev_reset:
                self.run_start_sig, self.run_start_cycle, self.run_start_next = sig, k, None
            self.last_reset = {"cycle": k, "sig": sig, "next_sig": None, "burst": i["ts_burst_complete"],
                               "first": not prev_reset, "start_sig": self.run_start_sig}
            for m in self.A:                 # ... but milestones of the reset cycle itself count in favour of the DUT
                self.A[m] = m in now
            self.ts2_since_reset_before_ts1 = False

        # ---- (2) reset removes link_ready within one cycle
        if prev_reset and o["link_ready"]:
            if prev_ready:
                mech = "link_ready_survives_reset"
            else:
                # U0 entered on an edge at which in_usb_reset was asserted
                older = self.hist[-2] if len(self.hist) >= 2 else (None, 0, 0)
                if older[1] and older[0] == "IDLE" and self.hist[-1][0] == "IDLE":
                    mech = "u0_entered_during_sustained_reset"
                else:
                    mech = "u0_entered_on_reset_cycle_with_idle_handshake"
            res.violation(mech, "cycle %d: link_ready=1 although in_usb_reset was asserted in cycle %d (previous signature %s, "
                          "link_ready before=%d)" % (k, k - 1, self.hist[-1][0], prev_ready))

        # ---- (3) time-outs
        if sig in self.T:
            timed = True
            if sig == "TS2" and not self.ts2_hot and not self.ts2_timed:
                timed = False
            if timed:
                res.event("timed_cycles_judged")
                n = k - self.sig_start + 1
                if n > self.T[sig] + SLACK and not self.timeout_flagged:
                    self.timeout_flagged = True
                    res.violation("timeout_exceeded_" + self._timed_name(sig),
                                  "signature %s entered in cycle %d is still present after %d cycles; documented time-out "
                                  "%d ms = %d cycles" % (sig, self.sig_start, n, TIMEOUT_MS[sig], self.T[sig]))
            if sig == "TS2" and not self.ts2_hot and self.ts2_timed and i["ts_burst_complete"] and self.B["ts2det"]:
                self.ts2_timed = False            # handshake condition met: the untimed "16 more TS2" phase may follow
                res.bin("ts2_untimed_exit_phase")

        # ---- (4) scrambling in U0
        if o["link_ready"] and self.e is not None:
            self._judge_scrambling(k, i, o, req)

        self.hist.append((sig, reset, o["link_ready"]))
        self.ds_hist.append(i["disable_scrambling"])
        self.prev_req = req
        cnt = i["lfps_cycles_sent"]
        self.act_hist.append(bool(reset or cnt != self.prev_cnt or any(i[n] for n in PULSE_INPUTS)))
        self.prev_cnt = cnt

    # -------------------------------------------------------------------------------------
    def _a(self, m):
        self.A[m] = True
        self.now.add(m)
        self.everA[m] = True

    def _timed_name(self, sig):
        if sig == "QUIET":
            return "QUIET_" + self.quiet_kind
        if sig == "LFPS":
            return "LFPS"
        return sig + "_" + self.ctx

    def _close_interval(self, k, new_sig):
        """the interval of self.sig ended in cycle k-1; `new_sig` is what follows"""
        sig = self.sig
        res = self.res
        if sig in self.T:
            n = k - self.sig_start
            T = self.T[sig]
            timed = not (sig == "TS2" and not self.ts2_hot and not self.ts2_timed)
            res.event("timed_intervals_closed")
            if timed and T <= n <= T + SLACK:
                res.bin("timeout_" + self._timed_name(sig))
            # An exit in whose last three cycles no input was active (no pulse input, no reset, LFPS counter constant)
            # can only have been caused by a timer.  Exits right after entry (latched requests) are not judged.
            quiet = len(self.act_hist) == 3 and not any(self.act_hist) and n > 3
            if timed and quiet:
                res.event("quiet_exits_judged")
                name = self._timed_name(sig)
                if n < T - 1:
                    res.violation("left_before_timeout_without_cause_" + name,
                                  "signature %s entered in cycle %d was left after %d cycles although no input was active in "
                                  "its last three cycles; documented time-out %d ms = %d cycles" % (
                                      sig, self.sig_start, n, TIMEOUT_MS[sig], T))
                elif n <= T + SLACK:
                    res.bin("quiet_timeout_" + name)
                    if new_sig in FORWARD_SIGS:
                        # USB 3.2 7.5: every Polling / Recovery / Hot Reset / Rx.Detect.Quiet / SS.Inactive.Quiet time-out
                        # leads to Rx.Detect, SS.Inactive, eSS.Disabled or Compliance -- never further into training
                        res.violation("timeout_advances_training_" + name,
                                      "signature %s timed out after %d cycles (cycle %d) and was followed by signature %s" % (
                                          sig, n, k, new_sig))
        if sig == "LFPS" and new_sig == "TSEQ":
            # Polling.LFPS -> Polling.RxEQ [USB 3.2 7.5.4.3.2]: >= 16 bursts sent, >= 4 of them after the first received one
            res.bin("lfps_exit_counts_judged")
            sent = self.prev_cnt
            if sent < 16:
                res.violation("lfps_left_before_16_bursts_sent",
                              "Polling.LFPS signature (cycles %d..%d) left for TSEQ with lfps_cycles_sent=%d" % (
                                  self.sig_start, k - 1, sent))
            if self.lfps_first is not None:
                res.bin("lfps_first_burst_after_12_sent" if self.lfps_first > 12 else "lfps_first_burst_early")
                if not (self.loose and self.lfps_ts1) and sent < self.lfps_first + 4:
                    res.violation("lfps_left_before_4_bursts_after_first_received",
                                  "Polling.LFPS signature (cycles %d..%d) left for TSEQ with lfps_cycles_sent=%d; the first "
                                  "polling burst was received at lfps_cycles_sent=%d" % (self.sig_start, k - 1, sent, self.lfps_first))

    def _enter(self, sig, prev, k, i):
        if sig == "TS1":
            self.B = dict(ts2det=False, ts2burst=False, idle=False)
            self.ctx = "recovery" if prev == "U0" else "polling"
            if self.e is not None:
                self.prev_training_req = self.req_first is not None
            self.e = k
            self.own_cands = tuple(self.ds_hist) + (i["disable_scrambling"],)
            self.req_first = None
            self.req_edge = bool(self.prev_req)
            self.req_last = None
            self.u0_start = None
        elif sig == "TS2":
            self.ts2_timed = True
            self.ts2_hot = False
            if prev == "IDLE":
                self.ctx = "hot_reset"
                self.ts2_hot = True
                self.B = dict(ts2det=False, ts2burst=False, idle=False)
                self.u0_start = None
            elif prev != "TS1":
                self.B = dict(ts2det=False, ts2burst=False, idle=False)
        elif sig == "QUIET":
            if prev in ("TS1", "TS2", "IDLE") or (prev == "DETECT" and self.detect_kind == "inactive"):
                self.quiet_kind = "inactive"
            else:
                self.quiet_kind = "rxdetect"
        elif sig == "LFPS":
            self.lfps_by_lfps = False
            self.lfps_first = None
            self.lfps_ts1 = False
        elif sig == "DETECT":
            self.detect_kind = "inactive" if (prev == "QUIET" and self.quiet_kind == "inactive") else "rxdetect"

    def _u0_entered(self, k, i):
        res = self.res
        self.u0_start = k
        if all(self.A.values()) and all(self.B.values()):
            res.bin("u0_via_" + self.ctx)
            if self.loose and not self.lfps_by_lfps:
                res.bin("u0_loosened_ts1_instead_of_lfps")
            if not self.loose:
                res.bin("u0_strict")

    def _judge_training(self, k, what):
        if k - self.p1_flagged_at <= 1:
            return
        res = self.res
        missA = [m for m in ("detect", "lfps", "tseq", "ts1") if not self.A[m]]
        missB = [m for m in ("ts2det", "ts2burst", "idle") if not self.B[m]]
        if not missA and not missB:
            return
        self.p1_flagged_at = k
        names = {"detect": "partner_detection", "lfps": "lfps_exchange", "tseq": "tseq_burst", "ts1": "ts1_exchange",
                 "ts2det": "ts2_detected", "ts2burst": "ts2_burst", "idle": "idle_handshake"}
        lr = self.last_reset
        detail = "cycle %d: %s; missing since last reset (cycle %s): %s; missing since last training entry: %s" % (
            k, what, lr["cycle"] if lr else "power-on", [names[m] for m in missA], [names[m] for m in missB])
        if missA:
            mech = "ready_without_" + names[missA[0]]
            if lr is not None and all(self.everA[m] for m in missA):
                # the milestones were reached before the last reset: the reset did not restart the training
                honoured = lr["next_sig"] == "OFF"
                detail += "; last reset cycle in signature %s (reset began in %s), next signature %s, ts_burst_complete=%d" % (
                    lr["sig"], lr["start_sig"], lr["next_sig"], lr["burst"])
                if honoured or "detect" not in missA:
                    pass                 # an ignored reset always loses the partner detection; anything else is something new
                elif lr["sig"] == "LFPS" and lr["start_sig"] in ("LFPS", "DETECT", "QUIET"):
                    # the reset began in a signature whose states never look at in_usb_reset and ended in Polling.LFPS
                    mech = "ready_after_reset_ignored_in_polling_lfps"
                elif lr["next_sig"] != lr["sig"] or (lr["sig"] == "TS2" and lr["burst"]):
                    mech = "ready_after_reset_overridden_by_same_cycle_transition"
                elif (lr["sig"] == "LFPS" and lr["start_sig"] in ("TS1", "TS2") and self.run_start_next == "DETECT"):
                    # the first reset cycle coincided with a time-out into receiver detection, which never looks at the reset
                    mech = "ready_after_reset_overridden_by_same_cycle_transition"
                else:
                    mech = "ready_without_retraining_after_reset"
            res.violation(mech, detail)
        else:
            res.violation("ready_without_" + names[missB[0]], detail + " (context %s)" % self.ctx)

    def _judge_scrambling(self, k, i, o, req):
        res = self.res
        u = self.u0_start
        first = k == u
        cands = set(self.own_cands)
        own_out = o["request_no_scrambling"]
        if len(cands) == 1:
            own = cands.pop()
            res.event("own_request_judged")
            if own_out != own and first:
                res.violation("own_scrambling_request_mismatch",
                              "cycle %d (U0): request_no_scrambling=%d but disable_scrambling was %d when the training "
                              "started in cycle %d" % (k, own_out, own, self.e))
        else:
            own = own_out
            if first:
                res.bin("scr_own_request_changed_at_entry")
        # partner requests in [e+1, u-2] are definitely part of the training; those at the edges or during U0 are ambiguous
        definite = self.req_first is not None and self.req_first <= u - 2
        late = self.req_last is not None and self.req_last >= u - 1
        if own or definite:
            exp = 0
        elif self.req_edge or late:
            res.unjudged += 1
            if first:
                res.bin("scr_unjudged")
            return
        else:
            exp = 1
        res.event("u0_scrambling_judged")
        if first:
            if own:
                res.bin("scr_off_own")
            elif definite:
                res.bin("scr_off_partner")
            else:
                res.bin("scr_on")
                if self.prev_training_req:
                    res.bin("scr_stale_partner_request")
        if o["enable_scrambling"] != exp:
            mech = "scrambling_on_in_u0_despite_request" if exp == 0 else "scrambling_off_in_u0_without_request"
            res.violation(mech, "cycle %d (U0 since %d, training since %d): enable_scrambling=%d expected %d; own request=%d "
                          "partner request first seen in cycle %s" % (k, u, self.e, o["enable_scrambling"], exp, own,
                                                                      self.req_first))


# ------------------------------------------------------------------------------------------ workload

PROFILES = {
    #               p_reset p_silent p_partial noise_n p_hot  p_loop p_noscr p_own
    "cooperative": (0.04,   0.03,    0.05,     0,      0.05,  0.02,  0.15,   0.15),
    "silent":      (0.05,   0.40,    0.20,     1,      0.10,  0.02,  0.10,   0.10),
    "resets":      (0.50,   0.05,    0.05,     1,      0.10,  0.02,  0.10,   0.10),
    "hostile":     (0.15,   0.15,    0.20,     4,      0.10,  0.05,  0.20,   0.20),
    "scramble":    (0.04,   0.02,    0.03,     0,      0.05,  0.00,  0.45,   0.40),
    "hotreset":    (0.06,   0.15,    0.05,     0,      0.60,  0.02,  0.15,   0.15),
}
RESET_LENGTHS = [1, 1, 1, 1, 2, 2, 3, 5, 8, 20, 60]


class Partner:
    """Reactive PHY + link partner.  Sees the signature of the LTSSM outputs, drives all LTSSM inputs."""

    def __init__(self, rng, profile, T, loosened, res, log):
        self.rng = rng
        (self.p_reset, self.p_silent, self.p_partial, noise_n, self.p_hot, self.p_loop, self.p_noscr,
         self.p_own) = PROFILES[profile]
        self.profile = profile
        self.T = T
        self.loose = loosened
        self.res = res
        self.log = log
        self.t = 0
        self.sig = None
        self.pulses = []           # [name, start, width, period, count]
        self.reset_at = None
        self.reset_len = 0
        self.reset_left = 0
        self.phy_low_until = rng.choice([0, 0, 3, rng.randint(1, 80)])
        self.disable_scrambling = int(rng.random() < self.p_own)
        self.ds_toggle_at = None
        self.lfps_count = 0
        self.lfps_period = 1
        self.inactive = False
        self.inactive_loops = 0
        self.watchdog = None
        self.hot_level_until = None
        self.allow_lfps_timeout = True
        self.early_ts2 = False
        self.in_hot = False
        # per-case noise
        self.noise = {}
        cands = ["idle_handshake_complete", "ts_burst_complete", "ts2_detected", "ts1_detected", "lfps_polling_detected",
                 "tseq_detected", "inverted_ts1_detected", "no_scrambling_requested", "link_partner_detected",
                 "trigger_link_recovery", "hot_reset_requested", "loopback_requested", "no_link_partner_detected",
                 "in_usb_reset"]
        weights = [6, 5, 4, 3, 3, 2, 1, 2, 2, 1, 1, 0.5, 0.5, 1]
        for _ in range(noise_n if noise_n else (1 if rng.random() < 0.3 else 0)):
            name = rng.choices(cands, weights)[0]
            if name in ("hot_reset_requested", "loopback_requested", "no_link_partner_detected", "trigger_link_recovery"):
                rate = rng.choice([0.0005, 0.002, 0.01])
            elif name == "in_usb_reset":
                rate = rng.choice([0.0003, 0.001, 0.003])
            else:
                rate = rng.choice([0.002, 0.01, 0.05, 0.3, 1.0])
            self.noise[name] = rate
        self.noise_left = {}

    # ---- helpers
    def pulse(self, name, start, width=1, period=0, count=1):
        self.pulses.append([name, start, width, period, count])

    def width(self):
        return self.rng.choice([1, 1, 1, 1, 2, 3])

    def enter(self, sig, prev):
        r = self.rng
        self.t = 0
        self.sig = sig
        self.pulses = []
        self.reset_at = None
        self.watchdog = None
        self.hot_level_until = None
        self.ds_toggle_at = None
        T12, T2, T360 = self.T["TS1"], self.T["IDLE"], self.T["LFPS"]
        silent = r.random() < self.p_silent
        partial = (not silent) and r.random() < self.p_partial
        what = "silent" if silent else ("partial" if partial else "answer")
        answers = []          # cycles (relative) at which an answer pulse starts: candidates for a coincident reset
        dwell = 60

        if sig == "OFF":
            self.inactive = False
            self.inactive_loops = 0
            if r.random() < 0.2:
                self.phy_low_until = r.randint(1, 60)
            self.watchdog = r.randint(30, 200)
            dwell = 30
        elif sig == "DETECT":
            t0 = r.randint(0, 40)
            if self.inactive:
                self.inactive_loops += 1
                present = r.random() < 0.5 and self.inactive_loops < 3
                if not present:
                    self.inactive = False
            else:
                present = r.random() < (0.55 if silent else 0.9)
            name = "link_partner_detected" if present else "no_link_partner_detected"
            self.pulse(name, t0, self.width(), r.randint(20, 80), 1000)
            answers.append(t0)
            what = name
            dwell = t0 + 2
        elif sig == "QUIET":
            if prev in ("TS1", "TS2", "IDLE"):
                self.inactive = True
            dwell = T12
        elif sig == "LFPS":
            self.lfps_count = 0
            self.lfps_period = r.choice([1, 1, 2, 3, 5])
            silent = self.allow_lfps_timeout and r.random() < (0.25 if self.profile in ("silent", "hostile") else 0.05)
            what = "silent" if silent else ("partial" if partial else "answer")
            if silent:
                if r.random() < 0.5:
                    # a single early burst: "polling seen", but the exchange never completes
                    self.pulse("lfps_polling_detected", r.randint(0, 10), 1, 0, 1)
                    self.lfps_period = 10 ** 6
                dwell = T360
            elif partial:
                # TS1 instead of LFPS polling (enough for the loosened LTSSM only)
                t0 = r.randint(0, 60 * self.lfps_period)
                self.pulse("ts1_detected", t0, self.width(), r.randint(3, 40), 1000)
                answers.append(t0 + 17 * self.lfps_period)
                what = "ts1_only"
                if not self.loose:
                    self.pulse("lfps_polling_detected", r.randint(100, 600), 1, r.randint(2, 30), 1000)
                dwell = 20 * self.lfps_period
            else:
                t0 = r.randint(0, 40 * self.lfps_period)
                per = r.randint(2, 30)
                self.pulse("lfps_polling_detected", t0, 1, per, 1000)
                answers.append(t0 + per * r.randint(0, 6))
                dwell = 22 * self.lfps_period
        elif sig == "TSEQ":
            if silent:
                self.watchdog = r.randint(100, 800)
                dwell = 300
            else:
                t0 = r.randint(2, 150)
                self.pulse("ts_burst_complete", t0, self.width(), r.randint(30, 200), 1000)
                answers.append(t0)
                dwell = t0
            if r.random() < 0.5:
                self.pulse("tseq_detected", r.randint(0, 50), 1, r.randint(4, 30), 1000)
            self.early_ts2 = r.random() < 0.2
            if self.early_ts2:
                # a partner that is ahead: its TS2s are seen during our TSEQ phase -- and possibly never again
                self.pulse("ts2_detected", r.randint(0, 50), self.width(), r.randint(3, 30), r.randint(1, 20))
        elif sig == "TS1":
            self.in_hot = False
            dwell = T12 if silent else 60
            kind = "both"
            if silent:
                kind = r.choice(["none", "none", "no_burst", "no_det"])
            elif partial:
                kind = r.choice(["ts1_only", "ts1_only", "det_before_burst"])
            elif self.early_ts2 and r.random() < 0.6:
                kind = "ts1_only"
            what = kind
            bper = r.randint(4, 40)
            b0 = r.randint(1, 60)
            if kind in ("both", "no_det", "ts1_only", "det_before_burst"):
                self.pulse("ts_burst_complete", b0, self.width(), bper, 1000)
            if kind in ("both", "no_burst", "ts1_only"):
                d0 = r.randint(0, 120)
                dper = r.randint(2, 30)
                det = "ts1_detected" if kind == "ts1_only" else r.choice(["ts1_detected", "ts1_detected", "ts2_detected", "inverted_ts1_detected"])
                self.pulse(det, d0, self.width(), dper, 1000)
                answers.append(max(b0, d0) + dper * r.randint(0, 3))
                if kind == "both" and r.random() < 0.6:
                    self.pulse("ts2_detected", d0 + r.randint(0, 80), 1, r.randint(3, 30), 1000)
            if kind == "det_before_burst":
                self.pulse(r.choice(["ts1_detected", "ts2_detected"]), 0, 1, 1, max(1, b0 - 1))
            if kind != "none":
                self.training_extras(0)
        elif sig == "TS2":
            hot = prev == "IDLE"
            self.in_hot = hot
            if hot and not silent and r.random() < 0.1:
                silent = True
            dwell = T12 if silent else 40
            kind = "both"
            if silent:
                kind = r.choice(["none", "none", "no_burst", "no_ts2"])
            elif self.early_ts2 and not hot and r.random() < 0.6:
                kind = "no_ts2"
            if not hot:
                self.early_ts2 = False
            what = ("hot:" if hot else "") + kind
            if kind in ("both", "no_ts2"):
                b0 = r.randint(1, 50)
                bper = r.randint(3, 30)
                self.pulse("ts_burst_complete", b0, self.width(), bper, 1000)
                answers.append(b0 + bper * r.randint(0, 3))
            if kind in ("both", "no_burst"):
                self.pulse("ts2_detected", r.randint(0, 60), self.width(), r.randint(2, 25), 1000)
            if hot:
                # the partner keeps the hot-reset bit in its TS2s for a while (or for ever)
                self.hot_level_until = r.choice([0, r.randint(1, 120), r.randint(1, 120), 10 ** 9 if silent else r.randint(1, 60)])
                if kind == "none" and r.random() < 0.6:
                    self.hot_level_until = r.randint(0, 40)      # completely silent partner: a pure time-out
            elif kind != "none":
                self.training_extras(1)
            if kind != "none" and r.random() < 0.25:
                # prescient idle handshake: already reported when the idle state is entered
                self.pulse("idle_handshake_complete", r.randint(0, 30), r.randint(1, 400), 0, 1)
        elif sig == "IDLE":
            if self.in_hot and r.random() < 0.15:
                silent = True                    # Hot Reset.Exit is rare: let it time out often enough
            what = "silent" if silent else what
            dwell = T2 if silent else 20
            if not silent:
                t0 = r.choice([0, 1, r.randint(0, 30), r.randint(0, T2 + 10)])
                self.pulse("idle_handshake_complete", t0, self.width(), r.randint(5, 60), 1000)
                answers.append(t0)
        elif sig == "U0":
            self.inactive = False
            t0 = r.choice([0, 1, 2, r.randint(3, 40), r.randint(3, 200)])
            dwell = t0
            act = r.choices(["trigger", "ts1", "reset", "both", "toggle_own"], [35, 25, 15, 5, 20 if self.p_own > 0.3 else 6])[0]
            what = act
            if act in ("trigger", "both", "toggle_own"):
                self.pulse("trigger_link_recovery", t0 + (r.randint(4, 40) if act == "toggle_own" else 0), self.width(), 50, 1000)
            if act in ("ts1", "both"):
                self.pulse("ts1_detected", t0, self.width(), 50, 1000)
            if act == "reset":
                self.reset_at, self.reset_len = t0, r.choice(RESET_LENGTHS)
            if act == "toggle_own":
                self.ds_toggle_at = t0
            answers.append(t0)
        elif sig == "LOOPBACK":
            self.watchdog = r.randint(5, 150)
            dwell = 50
        else:
            self.watchdog = 400

        # warm-reset injection
        p_reset = self.p_reset
        if sig == "IDLE" or (sig == "TS2" and prev == "IDLE"):
            p_reset = max(0.15, 2 * p_reset)          # short states: make sure resets land in them often enough
        if self.reset_at is None and r.random() < p_reset:
            if answers and r.random() < 0.4:
                self.reset_at = answers[0] - r.choice([0, 0, 0, 0, 1, -1, -1, r.randint(0, 3)])     # -1: first cycle of the next state
                if self.reset_at < 0:
                    self.reset_at = 0
                what += "+reset@answer"
            else:
                self.reset_at = r.randint(0, max(1, min(dwell, 2 * T12)))
                what += "+reset"
            self.reset_len = r.choice(RESET_LENGTHS + [r.randint(100, 600)])
            what += ":%d/%d" % (self.reset_at, self.reset_len)
        self.res.sig(sig, what, self.reset_at, self.reset_len, [tuple(p) for p in self.pulses])
        if len(self.log) < 40:
            self.log.append([sig, what])

    def training_extras(self, phase):
        """hot-reset / loop-back / no-scrambling bits in the partner's training sets"""
        r = self.rng
        if r.random() < self.p_noscr:
            self.pulse("no_scrambling_requested", r.randint(2, 60), self.width(), r.randint(2, 30), 1000)
        if r.random() < self.p_hot * (0.5 if phase == 0 else 0.6):
            self.pulse("hot_reset_requested", r.randint(0, 50), self.width(), r.randint(3, 30), r.randint(1, 50))
        if r.random() < self.p_loop:
            self.pulse("loopback_requested", r.randint(0, 50), 1, 0, 1)

    def step(self):
        """input values for the next cycle"""
        r = self.rng
        t = self.t
        v = dict.fromkeys(PULSE_INPUTS, 0)
        for p in self.pulses:
            name, start, width, period, count = p
            if count > 0 and start <= t < start + width:
                v[name] = 1
                if t == start + width - 1:
                    p[4] = count - 1
                    if period:
                        p[1] = start + max(period, width)
                    else:
                        p[4] = 0
        for name, rate in self.noise.items():
            left = self.noise_left.get(name, 0)
            if left:
                self.noise_left[name] = left - 1
            elif rate >= 1.0 or r.random() < rate:
                self.noise_left[name] = r.choice([0, 0, 0, 1, 2])
                left = 1
            if left:
                if name == "in_usb_reset":
                    self.reset_left = max(self.reset_left, 1)
                else:
                    v[name] = 1
        if self.hot_level_until is not None and t < self.hot_level_until:
            v["hot_reset_requested"] = 1
        if v["link_partner_detected"] and v["no_link_partner_detected"]:
            v["no_link_partner_detected"] = 0        # contradictory PHY answer: not generated
        # watchdog: leave states that have no exit of their own
        if self.watchdog is not None and t == self.watchdog:
            self.reset_left = max(self.reset_left, r.choice(RESET_LENGTHS))
            self.watchdog = t + r.randint(50, 300)
        if self.reset_at is not None and t == self.reset_at:
            self.reset_left = max(self.reset_left, self.reset_len)
        v["in_usb_reset"] = 1 if self.reset_left > 0 else 0
        if self.reset_left > 0:
            self.reset_left -= 1
        if self.phy_low_until > 0:
            self.phy_low_until -= 1
            v["phy_ready"] = 0
        else:
            v["phy_ready"] = 1
        if self.ds_toggle_at is not None and t == self.ds_toggle_at:
            self.disable_scrambling ^= 1
            self.res.bin("scr_own_request_changed")
        v["disable_scrambling"] = self.disable_scrambling
        if self.sig == "LFPS":
            if t and t % self.lfps_period == 0:
                self.lfps_count = (self.lfps_count + 1) & 0xFFFF
        else:
            self.lfps_count = 0
        v["lfps_cycles_sent"] = self.lfps_count
        self.t = t + 1
        return v


# ------------------------------------------------------------------------------------------ case

def run_case(rng, tier, res):
    os.environ.pop("LUNA_COMPLIANCE", None)
    from luna.gateware.usb.usb3.link.ltssm import LTSSMController

    freqs = [25000, 25000, 33333, 50000, 50000, 100000]
    if tier == "thorough":
        freqs += [100000, 250000]
    f_hz = rng.choice(freqs)
    loosened = rng.random() < 0.5
    profile = rng.choice(sorted(PROFILES))
    T = {s: cycles_of(ms, f_hz) for s, ms in TIMEOUT_MS.items()}
    budget = rng.randint(8000, 24000)
    if f_hz <= 33333 and rng.random() < 0.5:
        budget = rng.randint(22, 30) * T["LFPS"] // 10        # room for a 360 ms time-out
    dut = LTSSMController(ss_clock_frequency=float(f_hz), loosen_requirements=loosened)
    assert all(len(getattr(dut, n)) == 1 for n in OUTPUTS)
    from amaranth import Cat, Elaboratable, Module, Signal
    vec = Signal(len(OUTPUTS))    # all outputs (1 bit each) concatenated: sampling one Signal per cycle is 2x faster than 15

    class Wrapper(Elaboratable):
        def elaborate(self, platform):
            m = Module()
            m.submodules.ltssm = dut
            m.d.comb += vec.eq(Cat(*(getattr(dut, n) for n in OUTPUTS)))
            return m

    b = Bench(Wrapper(), domain="ss", freq=60e6, max_cycles=budget + 10)
    ins = PULSE_INPUTS + LEVEL_INPUTS
    in_sigs = [getattr(dut, n) for n in ins]
    out_sigs = [getattr(dut, n) for n in OUTPUTS]
    b.watch(vec)
    log = []
    res.desc = {"f_hz": f_hz, "loosen_requirements": loosened, "profile": profile, "budget": budget, "phases": log}
    res.sig(f_hz, loosened, profile, budget)
    res.bin("f_%d" % f_hz)
    res.bin("loosened" if loosened else "strict")
    judge = Judge(f_hz, loosened, res)
    partner = Partner(rng, profile, T, loosened, res, log)
    partner.allow_lfps_timeout = T["LFPS"] <= budget // 2
    res.desc["noise"] = dict(partner.noise)
    res.sig(sorted(partner.noise.items()))
    zero = dict.fromkeys(ins, 0)
    # `cur` = the input values the DUT sees at the next sampled edge (set() takes effect right after the previous edge),
    # so the monitor judges outputs and inputs of the same cycle without sampling the 17 inputs again.
    state = {"sig": None, "cur": zero, "run": 0, "o": dict.fromkeys(OUTPUTS, 0)}
    pairs = list(zip(ins, in_sigs))
    outs = list(zip(OUTPUTS, out_sigs))
    answers = ("idle_handshake_complete", "ts_burst_complete", "link_partner_detected", "ts1_detected", "ts2_detected",
               "lfps_polling_detected", "trigger_link_recovery")

    def driver():
        last = {}
        for name, s in pairs:
            b.set(s, 0)
            last[name] = 0
        yield
        get, set_ = b.get, b.set
        while b.cycle < budget:
            sig = classify(state["o"])
            if sig != state["sig"]:
                partner.enter(sig, state["sig"])
                state["sig"] = sig
            v = partner.step()
            for name, s in pairs:
                x = v[name]
                if x != last[name]:
                    set_(s, x)
                    last[name] = x
            state["cur"] = v
            yield

    def monitor(b):
        i = state["cur"]
        get = b.get
        x = get(vec)
        o = state["o"] = {n: (x >> j) & 1 for j, n in enumerate(OUTPUTS)}
        judge.step(i, o)
        if i["in_usb_reset"]:
            state["run"] += 1
            if any(i[n] for n in answers):
                res.bin("reset_same_cycle_as_answer")
        elif state["run"]:
            n = state["run"]
            state["run"] = 0
            res.bin("reset_1_cycle" if n == 1 else ("reset_long" if n >= 8 else "reset_short"))
        if i["ts_burst_complete"] and judge.sig == "TS2" and not judge.B["ts2det"]:
            res.bin("training_without_ts2")

    b.add_driver(driver())
    b.add_monitor(monitor)
    b.run()
    res.cycles = b.cycle
    bins = res.bins
    res.nontrivial = bool(any(k.startswith("u0_via") for k in bins) and any(k.startswith("timeout_") for k in bins)
                          and any(k.startswith("reset_in_") and k != "reset_in_OFF" for k in bins))
